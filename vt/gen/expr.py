"""G-expr: type-directed Jinja expression trees (DESIGN.md section 3.1).

The IR (plain JSON, so a tree can be a *case*)
-----------------------------------------------
Every node is a JSON list ``[kind, ...]``:

    ["const", v]                      v: int | float | str | true/false | null, or {"$": "float", "v": "inf"|"-inf"|"nan"}
    ["name", ident]                   context variable / global (missing -> undefined)
    ["list", [e, ...]]  ["tuple", [e, ...]]  ["dict", [[key_e, value_e], ...]]
    ["unary", op, e]                  op: "+" | "-" | "not"
    ["bin", op, l, r]                 op: "+" "-" "*" "/" "//" "%" "**"
    ["concat", [e, e, ...]]           the ~ operator (n-ary, >= 2 operands)
    ["and", l, r]   ["or", l, r]
    ["cmp", first, [[op, e], ...]]    comparison chain; op: "==" "!=" "<" "<=" ">" ">=" "in" "notin"
    ["cond", test, then, else|null]   then if test else else      (null: no else part)
    ["attr", obj, name]               obj.name
    ["item", obj, index_e]            obj[index]
    ["slice", obj, start|null, stop|null, step|null]      obj[start:stop:step]
    ["call", func, [args], [[kw, e], ...], dyn_args|null, dyn_kwargs|null]       func(args, kw=e, *dyn_args, **dyn_kwargs)
    ["filter", name, obj, [args], [[kw, e], ...]]         obj|name(args, kw=e)
    ["test", name, obj, [args], negated]                  obj is [not] name(args)
    ["paren", e]                      redundant parentheses (printing only)

How to print: ``print_expr(node, style=0) -> str`` gives Jinja source with *minimal* parentheses for the
documented grammar (loosest to tightest: conditional < or < and < not < comparisons/in < + - < ~ < * / // % <
** (left associative) < filters and tests applied to a unary < unary + - < postfix . [] ()).  ``style`` > 0
deterministically varies whitespace, keyword spellings (true/True) and the paren / bare form of test arguments.
``print_expr_info`` additionally reports how many places relied on precedence (``prec_sensitive``).

How to evaluate: ``vt.ref.evalexpr.eval_expr(node, scope)`` (independent reference semantics) -- or print the
tree and hand it to Jinja.  ``tree_labels(node)`` / ``count_ops(node)`` give structural labels.

Strategies: ``exprs(max_depth, want)`` (type-directed, ~8 % deliberately ill-typed nodes), ``arith_exprs(max_depth)``
(arithmetic-heavy, constant-rich; C20 / C08).  The variable names they use and their types are ``SCHEMA`` (feed it
to ``vt.gen.data.contexts``).  Magnitudes of literals are bounded (|int| <= 10**6, exponents <= 6, repeats <= 8);
the run-time bound is enforced by the reference evaluator (RefDecline), see F19.
"""
from vt.gen.data import ATTR_NAMES, DEFAULT_SCHEMA, DICT_KEYS, STR_POOL

__all__ = ["print_expr", "print_expr_info", "str_literal", "exprs", "arith_exprs", "SCHEMA", "tree_labels", "count_ops",
           "walk"]

SCHEMA = dict(DEFAULT_SCHEMA)

(P_COND, P_OR, P_AND, P_NOT, P_CMP, P_ADD, P_CONCAT, P_MUL, P_POW, P_FILTER, P_UNARY, P_POST, P_ATOM) = range(13)

_BIN_PREC = {"+": P_ADD, "-": P_ADD, "*": P_MUL, "/": P_MUL, "//": P_MUL, "%": P_MUL, "**": P_POW}
_CMP_SRC = {"==": "==", "!=": "!=", "<": "<", "<=": "<=", ">": ">", ">=": ">=", "in": "in", "notin": "not in"}
_OPERATOR_KINDS = {"unary", "bin", "concat", "and", "or", "cmp", "cond", "filter", "test"}

_SIMPLE_ESC = {"\\": "\\\\", "\n": "\\n", "\r": "\\r", "\t": "\\t"}


def str_literal(s, quote="'"):
    """Jinja (= Python) string literal for ``s``: raw characters except the quote, backslash, line breaks,
    other control characters and surrogates, which are written as escapes."""
    out = [quote]
    for ch in s:
        cp = ord(ch)
        if ch == quote:
            out.append("\\" + ch)
        elif ch in _SIMPLE_ESC:
            out.append(_SIMPLE_ESC[ch])
        elif cp < 0x20 or 0x7F <= cp <= 0x9F:
            out.append("\\x%02x" % cp)
        elif 0xD800 <= cp <= 0xDFFF or cp in (0x2028, 0x2029):
            out.append("\\u%04x" % cp)
        else:
            out.append(ch)
    out.append(quote)
    return "".join(out)


class _Printer:
    def __init__(self, style):
        self.style = style
        self.state = (style * 2654435761 + 97) & 0x7FFFFFFF
        self.sensitive = 0

    # deterministic pseudo-choices derived from the style number (style 0: always the first choice)
    def pick(self, n):
        if not self.style:
            return 0
        self.state = (self.state * 1103515245 + 12345) & 0x7FFFFFFF
        return (self.state >> 16) % n

    def sym(self, op):
        return (" %s ", "%s", " %s ", "  %s ", " %s\n ")[self.pick(5)] % op

    def word(self, op):
        return (" %s ", " %s ", "  %s ", " %s\n", "\n%s ")[self.pick(5)] % op

    def comma(self):
        return (", ", ",", " , ", ", ")[self.pick(4)]

    def pad(self):
        return ("", "", " ")[self.pick(3)]

    # ---------------------------------------------------------------------------------------------
    def wrap(self, node, minprec, parent_kind, follows_name=False):
        """Text of ``node`` as an operand that must bind at least as tightly as ``minprec``.
        follows_name: the next token after the operand is a name (``if``, ``in``, ``not``, ``is``): an operand
        ending in an argument-less test would swallow it as the test's argument."""
        text, prec, tail = self.p(node)
        if prec < minprec or (follows_name and tail):
            return "(" + text + ")", False
        if node[0] in _OPERATOR_KINDS and parent_kind in _OPERATOR_KINDS:
            self.sensitive += 1
        return text, tail

    def p(self, node):
        """-> (text, precedence, ends_with_bare_test)"""
        return getattr(self, "p_" + node[0])(node)

    def p_const(self, node):
        v = node[1]
        if isinstance(v, dict):
            f = v["v"]
            if f == "inf":
                return "1e999", P_ATOM, False
            if f == "-inf":
                return "-1e999", P_UNARY, False
            return "(1e999 - 1e999)", P_ATOM, False
        if v is None:
            return ("none", "None")[self.pick(2)], P_ATOM, False
        if v is True:
            return ("true", "True")[self.pick(2)], P_ATOM, False
        if v is False:
            return ("false", "False")[self.pick(2)], P_ATOM, False
        if isinstance(v, int):
            return str(v), (P_ATOM if v >= 0 else P_UNARY), False
        if isinstance(v, float):
            if v != v or v in (float("inf"), float("-inf")):
                raise ValueError("non-finite float constants must use the tagged form")
            r = repr(v)
            return r, (P_UNARY if r.startswith("-") else P_ATOM), False
        if isinstance(v, str):
            return str_literal(v, ("'", '"')[self.pick(2)]), P_ATOM, False
        raise ValueError("bad constant %r" % (v,))

    def p_name(self, node):
        return node[1], P_ATOM, False

    def p_paren(self, node):
        return "(" + self.pad() + self.p(node[1])[0] + self.pad() + ")", P_ATOM, False

    def _seq(self, items):
        return self.comma().join(self.wrap(x, P_COND, "seq")[0] for x in items)

    def p_list(self, node):
        return "[" + self.pad() + self._seq(node[1]) + self.pad() + "]", P_ATOM, False

    def p_tuple(self, node):
        items = node[1]
        if len(items) == 1:
            return "(" + self.wrap(items[0], P_COND, "seq")[0] + ",)", P_ATOM, False
        return "(" + self._seq(items) + ")", P_ATOM, False

    def p_dict(self, node):
        parts = []
        for k, v in node[1]:
            parts.append(self.wrap(k, P_COND, "seq")[0] + (": ", ":", " : ")[self.pick(3)] + self.wrap(v, P_COND, "seq")[0])
        return "{" + self.pad() + self.comma().join(parts) + self.pad() + "}", P_ATOM, False

    def p_unary(self, node):
        op = node[1]
        if op == "not":
            text, tail = self.wrap(node[2], P_NOT, "unary")
            return "not " + text, P_NOT, tail
        text, _ = self.wrap(node[2], P_UNARY, "unary")
        return op + text, P_UNARY, False

    def p_bin(self, node):
        op = node[1]
        prec = _BIN_PREC[op]
        if op == "**":
            left, _ = self.wrap(node[2], P_POW, "bin")
            right, tail = self.wrap(node[3], P_FILTER, "bin")
        else:
            left, _ = self.wrap(node[2], prec, "bin")
            right, tail = self.wrap(node[3], prec + 1, "bin")
        return left + self.sym(op) + right, prec, tail

    def p_concat(self, node):
        parts = [self.wrap(x, P_MUL, "concat") for x in node[1]]
        return self.sym("~").join(t for t, _ in parts), P_CONCAT, parts[-1][1]

    def p_and(self, node):
        left, _ = self.wrap(node[1], P_AND, "and")
        right, tail = self.wrap(node[2], P_NOT, "and")
        return left + self.word("and") + right, P_AND, tail

    def p_or(self, node):
        left, _ = self.wrap(node[1], P_OR, "or")
        right, tail = self.wrap(node[2], P_AND, "or")
        return left + self.word("or") + right, P_OR, tail

    def p_cmp(self, node):
        ops = node[2]
        out = []
        operands = [node[1]] + [o for _, o in ops]
        tail = False
        for idx, operand in enumerate(operands):
            nxt = ops[idx][0] if idx < len(ops) else None
            text, tail = self.wrap(operand, P_ADD, "cmp", follows_name=nxt in ("in", "notin"))
            out.append(text)
            if nxt is not None:
                src = _CMP_SRC[nxt]
                out.append(self.word(src) if nxt in ("in", "notin") else self.sym(src))
        return "".join(out), P_CMP, tail

    def p_cond(self, node):
        then, _ = self.wrap(node[2], P_OR, "cond", follows_name=True)
        if node[3] is None:
            test, tail = self.wrap(node[1], P_OR, "cond")
            return then + self.word("if") + test, P_COND, tail
        test, _ = self.wrap(node[1], P_OR, "cond")
        other, tail = self.wrap(node[3], P_COND, "cond")
        return then + self.word("if") + test + self.word("else") + other, P_COND, tail

    def p_attr(self, node):
        obj, _ = self.wrap(node[1], P_POST, "post")
        return obj + "." + node[2], P_POST, False

    def p_item(self, node):
        obj, _ = self.wrap(node[1], P_POST, "post")
        return obj + "[" + self.pad() + self.wrap(node[2], P_COND, "seq")[0] + self.pad() + "]", P_POST, False

    def p_slice(self, node):
        obj, _ = self.wrap(node[1], P_POST, "post")
        start, stop, step = (("" if x is None else self.wrap(x, P_COND, "seq")[0]) for x in node[2:5])
        inner = start + ":" + stop
        if node[4] is not None or self.pick(4) == 3:
            inner += ":" + step
        return obj + "[" + inner + "]", P_POST, False

    def _args(self, args, kwargs, dyn_args=None, dyn_kwargs=None):
        parts = [self.wrap(a, P_COND, "seq")[0] for a in args]
        parts += [k + ("=", " = ")[self.pick(2)] + self.wrap(v, P_COND, "seq")[0] for k, v in kwargs]
        if dyn_args is not None:
            parts.append("*" + self.wrap(dyn_args, P_COND, "seq")[0])
        if dyn_kwargs is not None:
            parts.append("**" + self.wrap(dyn_kwargs, P_COND, "seq")[0])
        return "(" + self.comma().join(parts) + ")"

    def p_call(self, node):
        func, _ = self.wrap(node[1], P_POST, "post")
        return func + self._args(node[2], node[3], node[4], node[5]), P_POST, False

    def p_filter(self, node):
        obj, _ = self.wrap(node[2], P_FILTER, "filter")
        text = obj + ("|", " | ", "| ")[self.pick(3)] + node[1]
        if node[3] or node[4] or self.pick(6) == 5:
            text += self._args(node[3], node[4])
        return text, P_FILTER, False

    def p_test(self, node):
        obj, _ = self.wrap(node[2], P_FILTER, "test", follows_name=True)
        text = obj + (" is not " if node[4] else " is ") + node[1]
        args = node[3]
        if not args:
            if self.pick(6) == 5:
                return text + "()", P_FILTER, False
            return text, P_FILTER, True
        if len(args) == 1 and self.pick(2) == 1:
            # documented short form "x is divisibleby 3": the argument is a primary with postfix operators only
            arg, prec, _ = self.p(args[0])
            if prec >= P_POST and not arg.startswith("("):
                return text + " " + arg, P_FILTER, False
        return text + self._args(args, []), P_FILTER, False


def print_expr_info(node, style=0):
    """-> (source, {"prec_sensitive": number of operands printed without parentheses whose grouping is decided
    by operator precedence / associativity})"""
    pr = _Printer(style)
    text = pr.p(node)[0]
    return text, {"prec_sensitive": pr.sensitive}


def print_expr(node, style=0):
    """Jinja source of the IR tree (see module docstring)."""
    return print_expr_info(node, style)[0]


# ---------------------------------------------------------------------------------------------------
# tree walks


def walk(node):
    """All nodes of the tree, pre-order."""
    from vt.ref.evalexpr import children

    stack = [node]
    while stack:
        n = stack.pop()
        yield n
        stack.extend(reversed(children(n)))


_POSTFIX_KINDS = {"attr", "item", "slice", "call"}


def count_ops(node):
    """Number of operator / postfix nodes."""
    return sum(1 for n in walk(node) if n[0] in _OPERATOR_KINDS or n[0] in _POSTFIX_KINDS)


def tree_labels(node):
    labs = set()
    for n in walk(node):
        k = n[0]
        if k == "cmp":
            if len(n[2]) > 1:
                labs.add("chained_cmp")
            if any(op == "notin" for op, _ in n[2]):
                labs.add("not_in")
            if any(op == "in" for op, _ in n[2]):
                labs.add("in")
        elif k == "test":
            labs.add("test")
            if n[4]:
                labs.add("is_not")
        elif k == "cond":
            labs.add("cond" if n[3] is not None else "cond_no_else")
        elif k in ("slice", "filter", "call", "attr", "item", "concat"):
            labs.add(k)
        elif k == "unary":
            labs.add("not" if n[1] == "not" else "unary_sign")
        elif k == "bin" and n[1] == "**":
            labs.add("pow")
        elif k in ("and", "or"):
            labs.add("and_or")
        elif k == "const" and isinstance(n[1], dict):
            labs.add("nonfinite_literal")
    return labs


# ---------------------------------------------------------------------------------------------------
# Hypothesis strategies

_VARS = {
    "int": ["i", "j", "n"], "smallint": ["n"], "float": ["f", "g"], "str": ["s", "t"], "bool": ["b"],
    "list": ["l", "ls", "lm"], "dict": ["d"], "tuple": ["tu"], "obj": ["o", "p"], "fn": ["fn"],
}
_ANY_NAMES = ["x", "y", "u", "w", "z", "m", "o", "d", "i", "s", "l", "f", "b", "tu", "fn", "lm"]
_STR_METHODS0 = ["upper", "lower", "strip", "title", "swapcase", "split", "isdigit", "isalpha", "capitalize"]
_NOARG_TESTS = ["defined", "undefined", "none", "boolean", "true", "false", "integer", "float", "number", "string",
                "mapping", "iterable", "sequence", "callable", "escaped"]
_CMP_TESTS = ["eq", "ne", "lt", "le", "gt", "ge", "equalto", "lessthan", "greaterthan"]
_KW_NAMES = ["a", "b", "k", "key", "v"]
_FMT = ["%s", "%d", "%s-%s", "[%5s]", "%r", "%x", "%.2f", "%(a)s", "100%%", "%s %%"]
_NAME_CONSTS = ["upper", "join", "nope", "defined", "odd", "loud", "markdown", "abs", "default", "sameas", "batch"]


def _const(v):
    return ["const", v]


_cache = {}


def _sampled(seq):
    """sampled_from strategy, built once per distinct choice list (building strategies is the expensive part)."""
    key = tuple(map(repr, seq))
    s = _cache.get(key)
    if s is None:
        import hypothesis.strategies as st

        s = _cache[key] = st.sampled_from(list(seq))
    return s


def _ints(lo, hi):
    key = ("int", lo, hi)
    s = _cache.get(key)
    if s is None:
        import hypothesis.strategies as st

        s = _cache[key] = st.integers(lo, hi)
    return s


def exprs(max_depth=4, want="any", nonfinite_literals=True, p_illtyped=8):
    """Strategy for IR trees of the requested type (int float num str bool list dict tuple any).
    Strategies are cached per argument tuple: building a @composite strategy costs milliseconds."""
    key = ("exprs", max_depth, want, nonfinite_literals, p_illtyped)
    if key not in _cache:
        _cache[key] = _exprs(max_depth, want, nonfinite_literals, p_illtyped)
    return _cache[key]


def _exprs(max_depth, want, nonfinite_literals, p_illtyped):
    import hypothesis.strategies as st

    pct100 = _ints(0, 99)
    small = st.integers(0, 12)
    anyint = st.one_of(small, small, st.sampled_from([100, 255, 1000, 65536, 10**6, 999983]), st.integers(0, 10**6))
    floatc = st.sampled_from([0.0, 0.5, 1.0, 1.5, 2.0, 2.5, 3.25, 0.1, 1e22, 1e-07, 42.55, 1e308, 7.0])
    textc = st.one_of(st.sampled_from(STR_POOL), st.sampled_from(STR_POOL), st.text(alphabet="abAB 1%<&'\"\\é\n", max_size=4))

    @st.composite
    def tree(draw):
        def pick(seq):
            return draw(_sampled(seq))

        def chance(pct):
            return draw(pct100) >= 100 - pct  # the minimal draw (0) means "no": shrinks towards the plain form

        def name(ty):
            return ["name", pick(_VARS[ty])]

        def leaf(ty):
            if ty == "num":
                ty = pick(["int", "float"])
            if ty == "any":
                if chance(50):
                    return ["name", pick(_ANY_NAMES)]
                ty = pick(["int", "float", "str", "bool", "none", "list", "dict"])
            if ty == "none":
                return _const(None)
            if ty in ("int", "smallint"):
                if chance(50):
                    return name(ty)
                return _const(draw(_ints(0, 4) if ty == "smallint" else anyint))
            if ty == "float":
                if chance(50):
                    return name("float")
                if nonfinite_literals and chance(6):
                    return _const({"$": "float", "v": "inf"})
                return _const(draw(floatc))
            if ty == "str":
                if chance(45):
                    return name("str")
                return _const(draw(textc))
            if ty == "bool":
                if chance(40):
                    return name("bool")
                return _const(chance(50))
            if ty == "list":
                if chance(80):
                    return name("list")
                return ["list", []]
            if ty in ("dict", "tuple", "obj", "fn"):
                return name(ty)
            raise ValueError(ty)

        def keyc():
            return _const(pick(DICT_KEYS + ATTR_NAMES))

        def call_args(d, nmax=2):
            args = [g("any", d - 1) for _ in range(draw(st.integers(0, nmax)))]
            kws = []
            for k in _KW_NAMES[: draw(_ints(0, 2))]:
                kws.append([k, g("any", d - 1)])
            dyn = g(pick(["list", "tuple"]), d - 1) if chance(15) else None
            dynk = None
            if chance(12):
                dynk = ["dict", [[_const(pick(["k", "z", "q"])), g("any", d - 1)]]] if chance(70) else g("dict", d - 1)
            return args, kws, dyn, dynk

        def test_node(d):
            kind = pick(["noarg", "noarg", "noarg", "cmp", "parity", "divisibleby", "sameas", "in", "case", "exists"])
            neg = chance(25)
            if kind == "noarg":
                return ["test", pick(_NOARG_TESTS), g("any", d - 1), [], neg]
            if kind == "cmp":
                ty = pick(["num", "num", "any", "str"])
                return ["test", pick(_CMP_TESTS), g(ty, d - 1), [g(ty, d - 1)], neg]
            if kind == "parity":
                return ["test", pick(["odd", "even"]), g("int", d - 1), [], neg]
            if kind == "divisibleby":
                return ["test", "divisibleby", g("int", d - 1), [g("smallint", d - 1) if chance(50) else _const(pick([1, 2, 3, 5]))], neg]
            if kind == "sameas":
                return ["test", "sameas", g("any", d - 1), [_const(pick([None, True, False]))], neg]
            if kind == "in":
                return ["test", "in", g("any", d - 1), [g(pick(["list", "str", "dict"]), d - 1)], neg]
            if kind == "case":
                return ["test", pick(["lower", "upper"]), g("str", d - 1), [], neg]
            return ["test", pick(["filter", "test"]), _const(pick(_NAME_CONSTS)), [], neg]

        def g_int(d):
            k = pick(["arith", "arith", "arith", "arith", "pow", "unary", "length", "length", "intf", "abs", "agg", "item",
                      "dictitem", "cond", "method", "paren"])
            if k == "arith":
                return ["bin", pick(["+", "-", "*", "//", "%", "+", "-", "*"]), g("int", d - 1), g("int", d - 1)]
            if k == "pow":
                return ["bin", "**", g("int", min(d - 1, 1)), g("smallint", 0)]
            if k == "unary":
                return ["unary", pick(["-", "-", "+"]), g("int", d - 1)]
            if k == "length":
                return ["filter", pick(["length", "count"]), g(pick(["list", "str", "dict"]), d - 1), [], []]
            if k == "intf":
                args = [g("int", 0)] if chance(30) else []
                kws = [["default", g("int", 0)]] if not args and chance(20) else []
                if chance(15):
                    return ["filter", "int", _const(pick(["0x1f", "1f", "0b101", "777", "12", "z"])), [_const(0), _const(pick([16, 2, 8, 10]))], []]
                return ["filter", "int", g(pick(["any", "str", "float"]), d - 1), args, kws]
            if k == "abs":
                return ["filter", "abs", g("int", d - 1), [], []]
            if k == "agg":
                f = pick(["sum", "first", "last", "min", "max"])
                kws = [["start", g("int", 0)]] if f == "sum" and chance(30) else []
                return ["filter", f, g("list", d - 1), [], kws]
            if k == "item":
                return ["item", g(pick(["list", "list", "tuple"]), d - 1), g("smallint", d - 1) if chance(70) else ["unary", "-", _const(1)]]
            if k == "dictitem":
                if chance(50):
                    return ["item", g("dict", d - 1), keyc()]
                return ["attr", g("dict", d - 1), pick(DICT_KEYS)]
            if k == "cond":
                return ["cond", g("bool", d - 1), g("int", d - 1), g("int", d - 1)]
            if k == "method":
                if chance(50):
                    return ["call", ["attr", g("list", d - 1), pick(["count", "index"])], [g("int", d - 1)], [], None, None]
                return ["call", ["attr", g("str", d - 1), pick(["count", "find"])], [g("str", 0)], [], None, None]
            return ["paren", g("int", d - 1)]

        def g_float(d):
            k = pick(["div", "div", "arith", "floatf", "unary", "abs", "cond", "paren", "pow"])
            if k == "div":
                return ["bin", "/", g("num", d - 1), g("num", d - 1)]
            if k == "arith":
                return ["bin", pick(["+", "-", "*", "//", "%"]), g("float", d - 1), g("num", d - 1)]
            if k == "floatf":
                args = [g("float", 0)] if chance(25) else []
                return ["filter", "float", g(pick(["any", "str", "int"]), d - 1), args, []]
            if k == "unary":
                return ["unary", pick(["-", "+"]), g("float", d - 1)]
            if k == "abs":
                return ["filter", "abs", g("float", d - 1), [], []]
            if k == "cond":
                return ["cond", g("bool", d - 1), g("float", d - 1), g("num", d - 1)]
            if k == "pow":
                return ["bin", "**", g("float", min(d - 1, 1)), g(pick(["smallint", "float"]), 0)]
            return ["paren", g("float", d - 1)]

        def g_str(d):
            k = pick(["concat", "concat", "concat", "sfilter", "sfilter", "sfilter", "repeat", "add", "fmt", "method",
                      "slice", "item", "cond", "join", "paren"])
            if k == "concat":
                return ["concat", [g(pick(["any", "str", "int", "str"]), d - 1) for _ in range(draw(_ints(2, 3)))]]
            if k == "sfilter":
                f = pick(["upper", "lower", "capitalize", "trim", "string", "center", "replace", "default", "format",
                          "escape", "e", "safe", "reverse", "d"])
                obj = g(pick(["str", "str", "any"]), d - 1)
                if f == "center":
                    return ["filter", f, obj, [g("smallint", 0)] if chance(60) else [], [["width", _const(7)]] if chance(20) else []]
                if f == "replace":
                    args = [g("str", 0), g("str", 0)] + ([g("smallint", 0)] if chance(30) else [])
                    return ["filter", f, obj, args, []]
                if f in ("default", "d"):
                    args = [g("str", d - 1)] + ([_const(True)] if chance(40) else [])
                    if chance(20):
                        return ["filter", f, g("any", d - 1), [], [["default_value", g("str", 0)], ["boolean", _const(chance(50))]]]
                    return ["filter", f, g("any", d - 1), args, []]
                if f == "format":
                    return ["filter", f, _const(pick(_FMT)), [g("any", d - 1) for _ in range(draw(_ints(0, 2)))], []]
                if f == "trim":
                    return ["filter", f, obj, [g("str", 0)] if chance(25) else [], []]
                if f == "string":
                    return ["filter", f, g("any", d - 1), [], []]
                return ["filter", f, obj, [], []]
            if k == "repeat":
                return ["bin", "*", g("str", d - 1), g("smallint", 0)]
            if k == "add":
                return ["bin", "+", g("str", d - 1), g("str", d - 1)]
            if k == "fmt":
                right = g(pick(["any", "tuple", "int", "dict"]), d - 1)
                return ["bin", "%", _const(pick(_FMT)), right]
            if k == "method":
                m = pick(_STR_METHODS0 + ["replace", "join", "zfill", "startswith"])
                obj = ["attr", g("str", d - 1), m]
                if m == "replace":
                    return ["call", obj, [g("str", 0), g("str", 0)], [], None, None]
                if m == "join":
                    return ["call", obj, [g("list", d - 1)], [], None, None]
                if m == "zfill":
                    return ["call", obj, [g("smallint", 0)], [], None, None]
                if m == "startswith":
                    return ["call", obj, [g("str", 0)], [], None, None]
                return ["call", obj, [], [], None, None]
            if k == "slice":
                return slice_of(g("str", d - 1), d)
            if k == "item":
                return ["item", g("str", d - 1), g("smallint", d - 1)]
            if k == "cond":
                return ["cond", g("bool", d - 1), g("str", d - 1), g("str", d - 1)]
            if k == "join":
                args = [g("str", 0)] if chance(70) else []
                kws = [["d", g("str", 0)]] if not args and chance(40) else []
                return ["filter", "join", g(pick(["list", "list", "tuple", "str"]), d - 1), args, kws]
            return ["paren", g("str", d - 1)]

        def slice_of(obj, d):
            def part():
                if chance(45):
                    return None
                if chance(20):
                    return ["unary", "-", g("smallint", 0)]
                return g("smallint", max(d - 2, 0))

            return ["slice", obj, part(), part(), part() if chance(35) else None]

        def g_bool(d):
            k = pick(["cmp", "cmp", "cmp", "eq", "in", "in", "test", "test", "test", "not", "not", "andor", "andor", "paren", "cond"])
            if k == "cmp":
                n = draw(_ints(1, 3))
                ty = pick(["num", "num", "int", "str"])
                return ["cmp", g(ty, d - 1), [[pick(["<", "<=", ">", ">=", "==", "!="]), g(ty, d - 1)] for _ in range(n)]]
            if k == "eq":
                return ["cmp", g("any", d - 1), [[pick(["==", "!="]), g("any", d - 1)]]]
            if k == "in":
                op = pick(["in", "notin"])
                cont = pick(["list", "str", "dict", "tuple"])
                left = g("str" if cont == "str" else "any", d - 1)
                node = ["cmp", left, [[op, g(cont, d - 1)]]]
                if chance(15):
                    node[2].append([pick(["==", "in", "!="]), g("any", d - 1)])
                return node
            if k == "test":
                return test_node(d)
            if k == "not":
                return ["unary", "not", g(pick(["bool", "bool", "any"]), d - 1)]
            if k == "andor":
                return [pick(["and", "or"]), g("bool", d - 1), g("bool", d - 1)]
            if k == "cond":
                return ["cond", g("bool", d - 1), g("bool", d - 1), g("bool", d - 1)]
            return ["paren", g("bool", d - 1)]

        def g_list(d):
            k = pick(["lit", "lit", "lit", "add", "repeat", "sort", "listf", "reverse", "slice", "range", "items", "keys",
                      "chars", "split", "cond", "dictsort", "paren"])
            if k == "lit":
                ty = pick(["int", "int", "str", "any", "num"])
                return ["list", [g(ty, d - 1) for _ in range(draw(_ints(0, 3)))]]
            if k == "add":
                return ["bin", "+", g("list", d - 1), g("list", d - 1)]
            if k == "repeat":
                return ["bin", "*", g("list", d - 1), g("smallint", 0)]
            if k == "sort":
                kws = []
                if chance(30):
                    kws.append(["reverse", _const(chance(50))])
                if chance(20):
                    kws.append(["case_sensitive", _const(chance(50))])
                args = [_const(True)] if not kws and chance(15) else []
                return ["filter", "sort", g(pick(["list", "list", "str", "tuple", "dict"]), d - 1), args, kws]
            if k == "listf":
                return ["filter", "list", g(pick(["list", "str", "tuple", "dict", "any"]), d - 1), [], []]
            if k == "reverse":
                return ["filter", "list", ["filter", "reverse", g(pick(["list", "tuple", "str"]), d - 1), [], []], [], []]
            if k == "slice":
                return slice_of(g("list", d - 1), d)
            if k == "range":
                n = draw(_ints(1, 3))
                args = [g("smallint", d - 1) if chance(70) else _const(draw(_ints(0, 20))) for _ in range(n)]
                return ["filter", "list", ["call", ["name", "range"], args, [], None, None], [], []]
            if k == "items":
                return ["filter", "list", ["filter", "items", g("dict", d - 1), [], []], [], []]
            if k == "keys":
                return ["filter", "list", ["call", ["attr", g("dict", d - 1), pick(["keys", "values", "items"])], [], [], None, None], [], []]
            if k == "chars":
                return ["filter", "list", g("str", d - 1), [], []]
            if k == "split":
                return ["call", ["attr", g("str", d - 1), "split"], [g("str", 0)] if chance(40) else [], [], None, None]
            if k == "cond":
                return ["cond", g("bool", d - 1), g("list", d - 1), g("list", d - 1)]
            if k == "dictsort":
                kws = [["by", _const(pick(["key", "value"]))]] if chance(40) else []
                if chance(25):
                    kws.append(["reverse", _const(True)])
                return ["filter", "dictsort", g("dict", d - 1), [], kws]
            return ["paren", g("list", d - 1)]

        def g_dict(d):
            k = pick(["lit", "lit", "call", "name"])
            if k == "lit":
                return ["dict", [[keyc() if chance(80) else g(pick(["int", "str"]), 0), g("any", d - 1)]
                                 for _ in range(draw(_ints(0, 3)))]]
            if k == "call":
                return ["call", ["name", "dict"], [], [[kk, g("any", d - 1)] for kk in _KW_NAMES[: draw(_ints(0, 3))]], None, None]
            return leaf("dict")

        def g_tuple(d):
            if chance(25):
                return leaf("tuple")
            return ["tuple", [g(pick(["int", "any", "str"]), d - 1) for _ in range(draw(_ints(0, 3)))]]

        def g_any(d):
            k = pick(["typed", "typed", "typed", "typed", "oattr", "oattr", "oitem", "oitem", "dlook", "call", "call", "ocall", "andor",
                      "andor", "condne", "default", "attrf", "seqitem", "firstlast", "cond", "chain", "paren"])
            if k == "typed":
                return g(pick(["int", "float", "str", "bool", "list", "dict", "tuple", "int", "str"]), d, True)
            if k == "oattr":
                return ["attr", g("obj", d - 1), pick(ATTR_NAMES)]
            if k == "oitem":
                key = _const(pick(ATTR_NAMES)) if chance(75) else g(pick(["smallint", "str"]), d - 1)
                return ["item", g("obj", d - 1), key]
            if k == "dlook":
                if chance(50):
                    return ["attr", g("dict", d - 1), pick(DICT_KEYS)]
                return ["item", g("dict", d - 1), keyc() if chance(80) else g("any", d - 1)]
            if k == "call":
                args, kws, dyn, dynk = call_args(d)
                return ["call", leaf("fn"), args, kws, dyn, dynk]
            if k == "ocall":
                args, kws, dyn, dynk = call_args(d, 1)
                return ["call", ["attr", g("obj", d - 1), pick(ATTR_NAMES)], args, kws, None, None]
            if k == "andor":
                return [pick(["and", "or"]), g("any", d - 1), g("any", d - 1)]
            if k == "condne":
                return ["cond", g("bool", d - 1), g("any", d - 1), None]
            if k == "default":
                args = [g("any", d - 1)] + ([_const(True)] if chance(30) else [])
                return ["filter", pick(["default", "d"]), g("any", d - 1), args, []]
            if k == "attrf":
                return ["filter", "attr", g(pick(["obj", "obj", "dict", "str"]), d - 1), [_const(pick(ATTR_NAMES + ["items", "upper"]))], []]
            if k == "seqitem":
                return ["item", g(pick(["list", "tuple", "any"]), d - 1), g(pick(["smallint", "int", "any"]), d - 1)]
            if k == "firstlast":
                return ["filter", pick(["first", "last", "min", "max"]), g(pick(["list", "str", "tuple", "dict"]), d - 1), [], []]
            if k == "cond":
                return ["cond", g(pick(["bool", "any"]), d - 1), g("any", d - 1), g("any", d - 1)]
            if k == "chain":
                # lookups on the result of lookups: undefined propagation
                inner = ["attr", g(pick(["obj", "dict", "any"]), d - 1), pick(ATTR_NAMES)]
                if chance(50):
                    return ["attr", inner, pick(ATTR_NAMES)]
                return ["item", inner, _const(pick(ATTR_NAMES + [0]))]
            return ["paren", g("any", d - 1)]

        table = {"int": g_int, "float": g_float, "str": g_str, "bool": g_bool, "list": g_list, "dict": g_dict,
                 "tuple": g_tuple, "any": g_any}

        def g(ty, d, strict=False):
            if d > 0 and not strict and ty not in ("any", "obj", "fn") and chance(p_illtyped):
                ty = "any"  # deliberately ill-typed operand
            if ty == "num":
                ty = pick(["int", "int", "float"])
            if ty == "smallint":
                if d <= 0 or chance(70):
                    return leaf("smallint")
                return ["bin", pick(["+", "-", "%"]), leaf("smallint"), leaf("smallint")]
            if d <= 0 or ty in ("obj", "fn", "none") or (d < max_depth and chance(10)):
                return leaf(ty)
            return table[ty](d)

        return g(want, max_depth)

    return tree()


def arith_exprs(max_depth=4):
    key = ("arith", max_depth)
    if key not in _cache:
        _cache[key] = _arith_exprs(max_depth)
    return _cache[key]


def _arith_exprs(max_depth):
    """Arithmetic-heavy, constant-rich trees: every binary and unary arithmetic operator, many operator
    applications on two constants (folding candidates), variables i j n f s l, a few non-arithmetic operators,
    subscripts and slices of strings / lists whose index and bounds are signed literals and variables (x[-1], x[::-1])."""
    import hypothesis.strategies as st

    pct100 = _ints(0, 99)

    @st.composite
    def tree(draw):
        def pick(seq):
            return draw(_sampled(seq))

        def chance(pct):
            return draw(pct100) >= 100 - pct  # the minimal draw (0) means "no": shrinks towards the plain form

        def leaf(ty):
            if ty == "str":
                return ["name", "s"] if chance(30) else _const(pick(["a", "ab", "%s", "x%dy", "", "<"]))
            if ty == "list":
                return ["name", "l"] if chance(40) else ["list", [_const(draw(_ints(0, 5))) for _ in range(draw(_ints(0, 2)))]]
            if chance(35):
                return ["name", pick(["i", "j", "n", "f", "i", "n"])]
            if chance(20):
                return _const(pick([0.5, 1.5, 2.0, 0.0, 3.25]))
            return _const(draw(_ints(0, 9)))

        def index():
            """Subscript / slice-bound expressions: signed integer literals (x[-1], x[::-1]), signed variables, small sums."""
            k = pick(["neg_lit", "neg_lit", "lit", "neg_var", "var", "pos_lit", "diff", "neg_paren"])
            if k == "neg_lit":
                return ["unary", "-", _const(draw(_ints(1, 3)))]
            if k == "lit":
                return _const(draw(_ints(0, 2)))
            if k == "neg_var":
                return ["unary", "-", ["name", "n"]]
            if k == "var":
                return ["name", "n"]
            if k == "pos_lit":
                return ["unary", "+", _const(draw(_ints(0, 2)))]
            if k == "diff":
                return ["bin", pick(["-", "+"]), _const(draw(_ints(0, 2))), _const(draw(_ints(0, 2)))]
            return ["unary", "-", ["paren", _const(draw(_ints(0, 2)))]]

        def slice_of(obj):
            parts = [index() if chance(55) else None for _ in range(3)]
            if parts[2] is not None and chance(50):
                parts[2] = ["unary", "-", _const(1)]   # [::-1]; a step of 0 is only a ValueError
            return ["slice", obj] + parts

        def seq_literal():
            return ["list", [_const(draw(_ints(0, 9))) for _ in range(draw(_ints(1, 4)))]]

        def g(ty, d):
            if d <= 0 or chance(12):
                return leaf(ty)
            if ty == "str":
                k = pick(["repeat", "add", "fmt", "concat", "leaf", "slice", "item"])
                if k == "slice":
                    return slice_of(g("str", d - 1) if chance(50) else _const(pick(["abcd", "xyz", "hello"])))
                if k == "item":
                    return ["item", _const(pick(["abcd", "xyz"])) if chance(60) else g("str", d - 1), index()]
                if k == "repeat":
                    return ["bin", "*", g("str", d - 1), _const(draw(_ints(0, 3)))]
                if k == "add":
                    return ["bin", "+", g("str", d - 1), g("str", d - 1)]
                if k == "fmt":
                    return ["bin", "%", _const(pick(["%s", "%d", "<%s>"])), g("num", d - 1)]
                if k == "concat":
                    return ["concat", [g(pick(["num", "str"]), d - 1), g(pick(["num", "str"]), d - 1)]]
                return leaf("str")
            if ty == "list":
                k = pick(["add", "repeat", "leaf", "slice"])
                if k == "slice":
                    return slice_of(g("list", d - 1) if chance(50) else seq_literal())
                if k == "add":
                    return ["bin", "+", g("list", d - 1), g("list", d - 1)]
                if k == "repeat":
                    return ["bin", "*", g("list", d - 1), _const(draw(_ints(0, 2)))]
                return leaf("list")
            k = pick(["bin"] * 8 + ["unary", "unary", "pow", "cond", "filter", "call", "andor", "len", "paren", "cmpcond",
                      "item", "item"])
            if k == "item":
                return ["item", seq_literal() if chance(60) else g("list", d - 1), index()]
            if k == "bin":
                return ["bin", pick(["+", "-", "*", "/", "//", "%"]), g("num", d - 1), g("num", d - 1)]
            if k == "unary":
                return ["unary", pick(["-", "-", "+"]), g("num", d - 1)]
            if k == "pow":
                return ["bin", "**", g("num", min(d - 1, 1)), _const(draw(_ints(0, 3)))]
            if k == "cond":
                return ["cond", ["cmp", g("num", d - 1), [[pick(["<", ">", "==", "!="]), g("num", d - 1)]]], g("num", d - 1),
                        g("num", d - 1) if chance(85) else None]
            if k == "filter":
                f = pick(["abs", "int", "default", "float"])
                args = [g("num", d - 1)] if f == "default" or chance(30) else []
                return ["filter", f, g("num", d - 1), args, []]
            if k == "call":
                return ["call", ["name", "fn"], [g("num", d - 1) for _ in range(draw(_ints(1, 2)))],
                        [["k", g("num", d - 1)]] if chance(30) else [], None, None]
            if k == "andor":
                return [pick(["and", "or"]), g("num", d - 1), g("num", d - 1)]
            if k == "len":
                return ["filter", "length", g(pick(["str", "list"]), d - 1), [], []]
            if k == "cmpcond":
                return ["cond", ["unary", "not", g("num", d - 1)], g("num", d - 1), g("num", d - 1)]
            return ["paren", g("num", d - 1)]

        return g(pick(["num", "num", "num", "num", "str", "list"]), max_depth)

    return tree()
