"""C37 - concurrent async renders on one environment do not interfere.

Case (plain JSON):

    {"t": {name: {"ext": parent | None, "lib": bool, "mac": [nodes], "body": [nodes]}},
     "tg": {main name: {"tg": "G0"}},                 # per-template globals passed to get_template
     "ae": bool,                                      # Environment(autoescape=...)
     "tasks": [{"main": name, "x": "A"}, ...],        # 2-3 concurrent renders
     "order": [task index, ...], "drain": "seq" | "rr"}

Every ``gate()`` call in a template (a global async data function) suspends the calling asyncio task
on a future owned by the harness.  The harness lets all tasks run to their first gate, then for every
entry of ``order`` releases the named task (skipped if it is finished) and lets it run to its next
gate; afterwards the remaining gates are released task by task ("seq") or round-robin ("rr").

Oracle (differential): each task's result equals the result of the same template with the same
data rendered alone on a fresh environment.
"""
import itertools

from vt import core

PID = "C37"
LEVEL = "exploration"
RULE = (
    "Hypothesis draws a template set: 1-3 main templates (optionally extending a shared base with overridable blocks "
    "and super()), a shared macro library m0 (module body and macros contain gates; imported without context = cached "
    "default module, with context, via from-import, called with call blocks), shared includes (with and without "
    "context), per-template globals, bodies with async-def, types.coroutine and __await__-object data functions, loops over lists, plain generators and async iterables (loop.index/cycle/changed/last/"
    "previtem), set inside loops read back through a pass_context function, namespaces (also initialised from a dict global and from a dict exported by the cached library), cyclers, joiners, |list copies (of a list global and of a list exported by the cached library) modified in place, autoescape "
    "blocks, with blocks, filter blocks, local macros with call blocks; 2-3 tasks over those mains with distinct data. "
    "Per set every release order over the task indices up to length 6 (2 tasks) / 5 (3 tasks) in quick, 8 / 7 in "
    "thorough, is enumerated (orders releasing a task more often than it has gates are skipped) with both drain "
    "policies in thorough, alternating in quick; plus Hypothesis-drawn sets with random orders up to 30 releases. "
    "Non-trivial = at least two tasks share a template (library, include, parent or the same main) and the effective "
    "release sequence interleaves them (some task is resumed after another task ran in between); distinct = distinct case."
)
ASSUMPTIONS = [
    "known finding F70 is excluded by construction: a case whose library macro mm contains an autoescape block around an await, and in which a task calls mm through the cached default module (import without context) while at least one other task uses a macro of that module, is counted as excluded and not run; everything else, including autoescape blocks around awaits in main templates, includes, local macros, call blocks and modules imported with context, is judged",
    "differential oracle: expected output is computed by the same implementation, rendered alone on a fresh environment after the jinja2 package's module-level and class-level containers (set/dict/list) were put back to their import-time contents (approximation of a fresh process: state kept in other objects is not reset); the concurrent run starts from the same state, so a case never depends on earlier cases; a defect common to both sides is invisible",
    "tasks interleave only at harness gates (the templates' only suspending awaits), i.e. at asyncio task granularity",
    "no mutable data object is shared between tasks by the harness; library templates keep no module-level cycler/namespace that importers use (documented cache sharing of imported modules is not interference)",
    "tasks with different per-template globals always use different main templates (get_template documents that globals of a cached template are updated)",
]

BLOCKS = ["b0", "b1", "b2"]
LOOPUSE = {0: "", 1: "{{ loop.index }}", 2: "{{ loop.cycle('o', 'e') }}", 3: "{{ loop.changed(x) }}", 4: "{{ loop.last }}",
           5: "{{ loop.previtem }}"}


def _body_src(nodes, d):
    out = []
    for n in nodes:
        k = n[0]
        if k == "t":
            out.append(n[1])
        elif k in ("x", "h", "tg"):
            out.append("{{ %s }}" % k)
        elif k == "g":
            out.append("{{ gate() }}")
        elif k == "jn":  # depends on the eval context's autoescape setting at run time (mk = [Markup('<i>'), 'b'])
            out.append("{{ mk|join('<') }}")
        elif k == "tc":  # generator-based coroutine (types.coroutine): type 'generator', awaitable
            out.append("{{ tc() }}")
        elif k == "aw":  # object with __await__
            out.append("{{ aw() }}")
        elif k == "i":
            out.append("{{ i%d }}" % (d - 1) if d > 0 else "{{ x }}")
        elif k == "for":
            _, itk, cnt, use, body = n
            var = "i%d" % d
            fn = {"s": "seq", "a": "aseq", "r": "rows"}[itk]  # rows(): a plain generator object (not awaitable)
            out.append("{%% for %s in %s(%d) %%}%s%s{%% endfor %%}" % (var, fn, cnt, LOOPUSE[use], _body_src(body, d + 1)))
        elif k == "lset":
            v = "i%d" % (d - 1) if d > 0 else "x"
            out.append("{%% set lv = x ~ %s %%}{{ gate() }}{{ pc('lv') }}{{ lv }}" % v)
        elif k == "set":
            out.append("{% set sv = x ~ 's' %}{{ gate() }}{{ sv }}")
        elif k == "ns":
            out.append("{%% set ns = namespace(v='') %%}{%% for n_ in seq(%d) %%}{%% set ns.v = ns.v ~ x ~ n_ %%}{{ gate() }}{%% endfor %%}{{ ns.v }}" % n[1])
        elif k == "nsd":
            # namespace initialised from a dict that outlives the render: 0 = a dict global, 1 = a dict exported by the
            # cached library module; namespace() must copy it
            srcd = "GD" if n[1] == 0 else "libd.defaults"
            pre = "" if n[1] == 0 else "{% import 'm0' as libd %}"
            out.append(pre + "{%% set nsd = namespace(%s) %%}{{ nsd.k }}{%% set nsd.k = x %%}{%% set nsd.j = x ~ 'j' %%}{{ gate() }}{{ nsd.k }}{{ nsd.j }}" % srcd)
        elif k == "lst":
            # a copy (|list) of a list that outlives the render (0 = a list global, 1 = a list exported by the cached
            # library module) is modified in place; the copy must not alias the original
            srcl = "GL" if n[1] == 0 else "libl.entries"
            pre = "" if n[1] == 0 else "{% import 'm0' as libl %}"
            out.append(pre + "{%% set mine = %s|list %%}{%% set _ = mine.append(x) %%}{{ gate() }}{%% set _ = mine.append(x ~ '2') %%}{{ mine|join(',') }}" % srcl)
        elif k == "cyc":
            out.append("{% set cy = cycler(x, 'q') %}{{ cy.next() }}{{ gate() }}{{ cy.next() }}{{ cy.current }}")
        elif k == "join":
            out.append("{%% set jn = joiner(x) %%}{%% for n_ in seq(%d) %%}{{ jn() }}{{ gate() }}{{ n_ }}{%% endfor %%}" % n[1])
        elif k == "auto":
            out.append("{%% autoescape %s %%}%s{%% endautoescape %%}" % ("true" if n[1] else "false", _body_src(n[2], d)))
        elif k == "with":
            out.append("{%% with x = x ~ 'w' %%}%s{%% endwith %%}" % _body_src(n[1], d))
        elif k == "fil":
            out.append("{%% filter upper %%}%s{%% endfilter %%}" % _body_src(n[1], d))
        elif k == "if":
            out.append("{%% if x %%}%s{%% endif %%}" % _body_src(n[1], d))
        elif k == "imp":
            mode = n[1]
            if mode == 0:
                out.append("{% import 'm0' as lib %}{{ lib.mm(x) }}{{ lib.lv }}")
            elif mode == 1:
                out.append("{% from 'm0' import wrap %}{% call wrap(x) %}{{ x }}{{ gate() }}{{ h }}{% endcall %}")
            elif mode == 2:
                out.append("{% import 'm0' as libc with context %}{{ libc.mm(h) }}")
            else:
                out.append("{% from 'm0' import mm, lv %}{{ mm(x) }}{{ lv }}{{ mm(h) }}")
        elif k == "mac":
            _, idx, body, callbody = n
            s = "{%% macro q%d(a) %%}<{{ a }}%s%s{{ a }}>{%% endmacro %%}" % (idx, _body_src(body, 0), "{{ caller() }}" if callbody is not None else "")
            if callbody is not None:
                s += "{%% call q%d(x) %%}%s{%% endcall %%}" % (idx, _body_src(callbody, d))
            else:
                s += "{{ q%d(x) }}" % idx
            out.append(s)
        elif k == "inc":
            out.append("{%% include '%s'%s %%}" % (n[1], "" if n[2] else " without context"))
        elif k == "blk":
            out.append("{%% block %s%s %%}%s{%% endblock %%}" % (n[1], " scoped" if n[2] else "", _body_src(n[3], d)))
        elif k == "sup":
            out.append("{{ super() }}")
        else:
            raise core.HarnessError("unknown node %r" % (n,))
    return "".join(out)


def source_of(tdef):
    s = ""
    if tdef.get("ext"):
        s += "{%% extends '%s' %%}" % tdef["ext"]
    if tdef.get("lib"):
        s += "{% set lv = 'L' ~ tg %}{% set defaults = {'k': 'd', 'n': 1} %}{% set entries = ['p', 'q'] %}"
        s += "{%% macro mm(a) %%}[{{ a }}{{ gate() }}%s{{ a }}{{ tg }}]{%% endmacro %%}" % _body_src(tdef.get("mac") or [], 0)
        s += "{% macro wrap(a) %}({{ a }}{{ gate() }}{{ caller() }}{{ a }}){% endmacro %}"
        # gates of the library's module body are tagged: the harness sees two tasks building the module at once
        return s + _body_src(tdef["body"], 0).replace("{{ gate() }}", "{{ gate('L') }}")
    return s + _body_src(tdef["body"], 0)


def sources(case):
    return {name: source_of(td) for name, td in case["t"].items()}


# ---------------------------------------------------------------------------------------
# environment + scheduler

_CODE = {}
_ENV = []
_SOLO = {}


def _env_class():
    if _ENV:
        return _ENV[0]
    import jinja2

    class MemoEnvironment(jinja2.Environment):
        """compile() memoises immutable code objects per source (the orders of one template set recompile the same sources)."""

        def compile(self, source, name=None, filename=None, raw=False, defer_init=False):
            if raw or not isinstance(source, str):
                return super().compile(source, name, filename, raw, defer_init)
            key = (source, name, filename, bool(self.autoescape))  # every compile-relevant option the cases vary
            code = _CODE.get(key)
            if code is None:
                if len(_CODE) > 256:
                    _CODE.clear()
                code = _CODE[key] = super().compile(source, name, filename, raw, defer_init)
            return code

    _ENV.append(MemoEnvironment)
    return MemoEnvironment


class _Sched:
    def __init__(self):
        self.tasks = []
        self.index = {}
        self.wait = {}
        self.released = []
        self.lib_waiters = set()
        self.concurrent_lib = False

    def globals(self):
        import asyncio
        import types

        import jinja2
        import markupsafe

        st = self

        async def gate(tag=None):
            n = st.index[asyncio.current_task()]
            fut = asyncio.get_running_loop().create_future()
            st.wait[n] = fut
            if tag is not None:
                st.lib_waiters.add(n)
                if len(st.lib_waiters) > 1:
                    st.concurrent_lib = True
            try:
                await fut
            finally:
                st.lib_waiters.discard(n)
            return ""

        async def aseq(n):
            for i in range(n):
                await gate()
                yield i

        def seq(n):
            return list(range(n))

        def rows(n):
            return (i for i in range(n))

        @types.coroutine
        def tc():
            yield from gate().__await__()
            return "~"

        class Aw:
            def __await__(self):
                yield from gate().__await__()
                return "^"

        @jinja2.pass_context
        def pc(ctx, name):
            return "%s" % (ctx.resolve(name),)

        return dict(gate=gate, aseq=aseq, seq=seq, pc=pc, rows=rows, tc=tc, aw=Aw, GD={"k": "g", "n": 2}, GL=["g1", "g2"], mk=[markupsafe.Markup("<i>"), "b"])

    async def settle(self):
        import asyncio

        for _ in range(100000):
            if all(t.done() or n in self.wait for n, t in enumerate(self.tasks)):
                return
            await asyncio.sleep(0)
        raise core.HarnessError("tasks neither finished nor waiting at a gate")

    async def release(self, n):
        fut = self.wait.pop(n)
        self.released.append(n)
        fut.set_result(None)
        await self.settle()

    async def main(self, env, case, task_ids, order, drain):
        import asyncio

        loop = asyncio.get_running_loop()
        templates = []
        for ti in task_ids:
            spec = case["tasks"][ti]
            g = (case.get("tg") or {}).get(spec["main"]) or None
            templates.append(env.get_template(spec["main"], globals=dict(g) if g else None))
        for n, ti in enumerate(task_ids):
            spec = case["tasks"][ti]
            task = loop.create_task(templates[n].render_async(x=spec["x"], h="<%s&>" % spec["x"]))
            self.tasks.append(task)
            self.index[task] = n
        await self.settle()
        for n in order:
            if n in self.wait:
                await self.release(n)
        nxt = 0
        while self.wait:
            if drain == "rr":
                cand = sorted(self.wait)
                n = next((c for c in cand if c >= nxt), cand[0])
                nxt = n + 1
            else:
                n = min(self.wait)
            await self.release(n)
        res = await asyncio.gather(*self.tasks, return_exceptions=True)
        out = []
        for r in res:
            if isinstance(r, BaseException):
                if not isinstance(r, Exception):
                    raise r
                out.append(["err", type(r).__name__, str(r)[:200]])
            else:
                out.append(["ok", r])
        return out


def _run(case, src, task_ids, order, drain):
    import asyncio

    import jinja2

    _fresh_process_state()
    env = _env_class()(loader=jinja2.DictLoader(src), enable_async=True, autoescape=bool(case.get("ae")))
    st = _Sched()
    env.globals.update(st.globals())
    loop = asyncio.new_event_loop()
    try:
        out = loop.run_until_complete(st.main(env, case, task_ids, order, drain))
    finally:
        loop.close()
    return out, st


_PRISTINE = []


def _snapshot_process_state():
    """Copies of every plain module-level / class-level container (set, dict, list) of the jinja2 package, taken when this
    module is imported, i.e. before anything was rendered in this process (forked workers inherit the copies)."""
    import copy
    import sys

    import jinja2.async_utils  # noqa: F401 - make sure the lazily imported modules are loaded
    import jinja2.debug  # noqa: F401

    for name, mod in sorted(sys.modules.items()):
        if mod is None or not (name == "jinja2" or name.startswith("jinja2.")):
            continue
        holders = [mod] + [v for v in vars(mod).values() if isinstance(v, type) and getattr(v, "__module__", None) == name]
        for holder in holders:
            for attr, val in list(vars(holder).items()):
                if type(val) in (set, dict, list) and not attr.startswith("__"):
                    _PRISTINE.append((val, copy.copy(val)))


_snapshot_process_state()


def _fresh_process_state():
    """Put the package's process-wide containers back to their import-time contents, so that every run of a case (the
    reference renders and the concurrent run) starts like a fresh process and a case never depends on earlier cases."""
    for live, saved in _PRISTINE:
        if live != saved:
            live.clear()
            if isinstance(live, list):
                live.extend(saved)
            else:
                live.update(saved)


def _solo(case, src, ti):
    """The task rendered alone on a fresh environment (memoised: it does not depend on the order)."""
    spec = case["tasks"][ti]
    key = core.canon([case["t"], case.get("tg"), bool(case.get("ae")), spec])
    hit = _SOLO.get(key)
    if hit is None:
        if len(_SOLO) > 64:
            _SOLO.clear()
        out, st = _run(case, src, [ti], [], "seq")
        hit = _SOLO[key] = (out[0], len(st.released))
    return hit


def _reach(case, name, acc):
    if name in acc or name not in case["t"]:
        return acc
    acc.add(name)
    td = case["t"][name]
    if td.get("ext"):
        _reach(case, td["ext"], acc)

    def walk(nodes):
        for n in nodes:
            if n[0] == "inc":
                _reach(case, n[1], acc)
            elif n[0] == "imp" or (n[0] in ("nsd", "lst") and n[1] == 1):
                _reach(case, "m0", acc)
            for part in n[1:]:
                if isinstance(part, list) and part and isinstance(part[0], list):
                    walk(part)

    walk(td.get("body") or [])
    walk(td.get("mac") or [])
    return acc


_SUSPENDING = {"g", "tc", "aw", "lset", "set", "ns", "cyc", "join", "nsd", "lst", "inc"}


def _suspends(nodes):
    for n in nodes:
        if n[0] in _SUSPENDING or (n[0] == "for" and n[1] == "a"):
            return True
        for part in n[1:]:
            if isinstance(part, list) and part and isinstance(part[0], list) and _suspends(part):
                return True
    return False


def _auto_around_await(nodes):
    for n in nodes:
        if n[0] == "auto" and _suspends(n[2]):
            return True
        for part in n[1:]:
            if isinstance(part, list) and part and isinstance(part[0], list) and _auto_around_await(part):
                return True
    return False


def _calls_cached_mm(case, name, cached, seen, modes=(0, 3)):
    """does template ``name`` (statically) call the library macro mm imported WITHOUT context from the cached default
    module?  ``cached`` is False while we are in a main template / its parents that carry per-template globals (their
    imports build a private module); inside an included template and inside a block body the default module is always the cached one."""
    if name in seen or name not in case["t"]:
        return False
    seen.add(name)
    td = case["t"][name]

    def walk(nodes, cached):
        for n in nodes:
            if n[0] == "imp" and n[1] in modes and cached:
                return True
            if n[0] == "inc" and _calls_cached_mm(case, n[1], True, seen, modes):
                return True
            # a block body runs on a derived context, which has no globals of its own: imports there use the cached module
            inner = True if n[0] == "blk" else cached
            for part in n[1:]:
                if isinstance(part, list) and part and isinstance(part[0], list) and walk(part, inner):
                    return True
        return False

    if walk(td.get("body") or [], cached):
        return True
    return bool(td.get("ext")) and _calls_cached_mm(case, td["ext"], cached, seen, modes)


def in_known_class(case):
    """F70: an autoescape block around an await inside the macro of the library imported without context, called by at
    least one task through the cached module while another task runs a macro of that module (all those calls share the
    module's single eval context)."""
    lib = case["t"].get("m0")
    if not lib or not _auto_around_await(lib.get("mac") or []):
        return False
    tg = case.get("tg") or {}
    # one task inside mm's block is enough to disturb any other task that is running a macro (mm or wrap) of the same
    # cached module at that time
    in_mm = sum(1 for t in case["tasks"] if _calls_cached_mm(case, t["main"], not tg.get(t["main"]), set()))
    in_any = sum(1 for t in case["tasks"] if _calls_cached_mm(case, t["main"], not tg.get(t["main"]), set(), (0, 1, 3)))
    return in_mm >= 1 and in_any >= 2


def check_known(entry):
    return check_case(entry["case"], judge_known_class=True)


def check_case(case, judge_known_class=False):
    if not judge_known_class and in_known_class(case):
        raise core.Excluded()
    src = sources(case)
    ntasks = len(case["tasks"])
    solo = [_solo(case, src, ti) for ti in range(ntasks)]
    order = [n for n in case.get("order", []) if isinstance(n, int) and 0 <= n < ntasks]
    got, st = _run(case, src, list(range(ntasks)), order, case.get("drain", "seq"))
    for ti in range(ntasks):
        exp = solo[ti][0]
        if got[ti][:2] != exp[:2]:
            raise core.Violation(
                "task %d (%s, x=%s) rendered concurrently gives %r, alone on a fresh environment %r; releases=%s\ntemplates=%s tg=%s"
                % (ti, case["tasks"][ti]["main"], case["tasks"][ti]["x"], got[ti], exp, st.released, core.canon(src), case.get("tg"))
            )
    runs = [k for k, _ in itertools.groupby(st.released)]
    interleaved = len(runs) > len(set(runs))
    reach = [_reach(case, t["main"], set()) for t in case["tasks"]]
    shared = set()
    for a, b in itertools.combinations(range(ntasks), 2):
        shared |= reach[a] & reach[b]
    labels = ["tasks_%d" % ntasks]
    if interleaved:
        labels.append("interleaved")
    for s in sorted({"m": "shared_lib", "i": "shared_include", "p": "shared_parent", "a": "same_main"}.get(n[0], "shared_other") for n in shared):
        labels.append(s)
    if st.concurrent_lib:
        labels.append("concurrent_module_build")
    if any(e[0] == "err" for e, _ in solo):
        labels.append("solo_error")
    if case.get("tg"):
        labels.append("template_globals")
    if case.get("ae"):
        labels.append("env_autoescape")
    lib = case["t"].get("m0")
    if lib and "jn" in core.canon(lib.get("mac")) and '"auto"' in core.canon(lib.get("mac")):
        labels.append("lib_macro_autoescape_probe")
    labels.append("releases_%s" % ("0" if not st.released else "1-5" if len(st.released) <= 5 else "6-15" if len(st.released) <= 15 else "16+"))
    return core.Outcome(bool(interleaved and shared), labels)


# ---------------------------------------------------------------------------------------
# generator


def _strategy(maxdepth, with_order):
    import hypothesis.strategies as st

    class G:
        def __init__(self, draw):
            self.draw = draw

        def body(self, c, depth, lo=1, hi=3):
            n = self.draw(st.integers(lo, hi if depth < 2 else 2))
            return [self.node(c, depth) for _ in range(n)]

        @staticmethod
        def avail(c):
            return [b for b in c["blocks"] if BLOCKS.index(b) > c["minblk"]]

        def node(self, c, depth):
            draw = self.draw
            kinds = ["t", "x", "g", "g", "g", "h", "tg", "tc", "aw", "jn", "jn"]
            if c["loopd"] > 0:
                kinds += ["i", "lset", "lset"]
            if c["super"]:
                kinds += ["sup", "sup"]
            kinds += ["set", "ns", "cyc", "join", "nsd", "lst"]
            if depth < maxdepth:
                kinds += ["for", "for", "auto", "auto", "with", "fil", "if"]
                if c["lib"]:
                    kinds += ["imp", "imp", "imp"]
                if c["incs"]:
                    kinds += ["inc", "inc"]
                if not c["nomac"]:
                    kinds += ["mac", "mac"]
                    if self.avail(c):
                        kinds += ["blk", "blk"]
            k = draw(st.sampled_from(kinds))
            if k == "t":
                return ["t", draw(st.sampled_from(["T", "u", "<b>"]))]
            if k in ("x", "g", "h", "tg", "i", "lset", "set", "cyc", "sup", "tc", "aw", "jn"):
                return [k]
            if k in ("nsd", "lst"):
                return [k, draw(st.sampled_from([0, 1])) if c["lib"] else 0]
            if k in ("ns", "join"):
                return [k, draw(st.sampled_from([2, 1, 3]))]
            if k == "for":
                c2 = dict(c, loopd=c["loopd"] + 1)
                return ["for", draw(st.sampled_from(["s", "r", "a"])), draw(st.sampled_from([2, 2, 3, 1])), draw(st.sampled_from([0, 1, 2, 3, 4, 5])),
                        self.body(c2, depth + 1, 1, 2)]
            if k == "auto":
                return ["auto", draw(st.booleans()), self.body(c, depth + 1, 1, 2)]
            if k in ("with", "fil", "if"):
                return [k, self.body(c, depth + 1, 1, 2)]
            if k == "imp":
                return ["imp", draw(st.sampled_from([0, 1, 2, 3]))]
            if k == "inc":
                return ["inc", draw(st.sampled_from(c["incs"])), draw(st.sampled_from([True, False]))]
            if k == "mac":
                c["mcount"][0] += 1
                idx = c["mcount"][0]
                body = self.body(dict(c, nomac=True, super=False, loopd=0), depth + 1, 1, 2)
                callbody = self.body(dict(c, nomac=True, super=False), depth + 1, 1, 2) if draw(st.booleans()) else None
                return ["mac", idx, body, callbody]
            if k == "blk":
                avail = self.avail(c)
                pool = [b for b in avail if b in c["inherited"]] or avail
                name = draw(st.sampled_from(pool))
                c["blocks"].remove(name)
                scoped = draw(st.sampled_from([False, True]))
                c2 = dict(c, super=name in c["inherited"], loopd=c["loopd"] if scoped else 0, minblk=BLOCKS.index(name))
                return ["blk", name, scoped, self.body(c2, depth + 1)]
            raise core.HarnessError(k)

        def ctx(self, incs, lib, inherited, nomac=False):
            return dict(blocks=list(BLOCKS), inherited=set(inherited), incs=list(incs), lib=lib, super=False, loopd=0,
                        nomac=nomac, mcount=[0], minblk=-1)

        def child_body(self, c):
            out = []
            for _ in range(self.draw(st.integers(1, 2))):
                if not c["blocks"]:
                    break
                pool = [b for b in c["blocks"] if b in c["inherited"]] or c["blocks"]
                name = self.draw(st.sampled_from(pool))
                c["blocks"].remove(name)
                out.append(["blk", name, False, self.body(dict(c, super=name in c["inherited"], minblk=BLOCKS.index(name)), 1)])
            return out

    def names_in(nodes, acc):
        for n in nodes:
            if n[0] == "blk":
                acc.add(n[1])
            for part in n[1:]:
                if isinstance(part, list) and part and isinstance(part[0], list):
                    names_in(part, acc)
        return acc

    @st.composite
    def cases(draw):
        g = G(draw)
        T = {}
        incs = []
        for i in range(draw(st.sampled_from([0, 1, 1, 2]))):
            name = "i%d" % i
            T[name] = {"ext": None, "body": g.body(g.ctx(incs, False, (), nomac=True), 1)}
            incs.append(name)
        lib = draw(st.sampled_from([True, True, True, False]))
        if lib:
            c = g.ctx(incs, False, (), nomac=True)
            T["m0"] = {"ext": None, "lib": True, "mac": g.body(c, 1, 0, 2), "body": [["t", "M"], ["g"]] if draw(st.booleans()) else g.body(c, 1, 0, 2)}
        inherited = set()
        base = draw(st.booleans())
        if base:
            body = g.body(g.ctx(incs, lib, ()), 0, 2, 3)
            T["p0"] = {"ext": None, "body": body}
            inherited = names_in(body, set())
        ntasks = draw(st.sampled_from([2, 2, 3]))
        nmains = draw(st.integers(1, ntasks))
        tg = {}
        for i in range(nmains):
            name = "a%d" % i
            ext = "p0" if base and inherited and draw(st.sampled_from([True, True, False])) else None
            c = g.ctx(incs, lib, inherited if ext else ())
            T[name] = {"ext": ext, "body": g.child_body(c) if ext else g.body(c, 0, 2, 4)}
            if draw(st.sampled_from([False, False, True])):
                tg[name] = {"tg": "G%d" % i}
        mains = ["a%d" % i for i in range(nmains)]
        tasks = []
        for n in range(ntasks):
            main = mains[n] if n < nmains else draw(st.sampled_from(mains))
            tasks.append({"main": main, "x": "ABC"[n]})
        case = {"t": T, "tg": tg, "tasks": tasks, "ae": draw(st.sampled_from([False, False, True]))}
        if with_order:
            # a batch: the same template set under several long random release orders
            case["orders"] = [
                [draw(st.lists(st.integers(0, ntasks - 1), min_size=0, max_size=30)), draw(st.sampled_from(["seq", "rr"]))]
                for _ in range(ORDERS_PER_DRAW)
            ]
        return case

    return cases()


def orders_for(gates, maxlen):
    """all release orders over task indices of length min(maxlen, total gates) that never release a task more often
    than it has gates when rendered alone (such entries would be skipped = duplicate schedules)"""
    n = len(gates)
    total = min(maxlen, sum(gates))

    def rec(prefix, left):
        if len(prefix) == total:
            yield list(prefix)
            return
        for i in range(n):
            if left[i] > 0:
                left[i] -= 1
                prefix.append(i)
                yield from rec(prefix, left)
                prefix.pop()
                left[i] += 1

    yield from rec([], list(gates))


ORDERS_PER_DRAW = 4
SETS_QUICK = 130  # per shard: template sets whose orders are enumerated
SETS_THOROUGH = 350
RANDOM_QUICK = 1700  # per shard: Hypothesis-drawn template sets, each run under ORDERS_PER_DRAW long random orders
RANDOM_THOROUGH = 20000


def shards(tier):
    return [{"i": i} for i in range(16)]


def run_shard(spec, ctx):
    import hypothesis
    from hypothesis import HealthCheck, Phase, given, settings

    rec = core.Rec()
    maxlen = {2: ctx.pick(6, 8), 3: ctx.pick(5, 7)}

    def enum_orders(base):
        rec.extra["template_sets_enumerated"] = rec.extra.get("template_sets_enumerated", 0) + 1
        src = sources(base)
        gates = [_solo(base, src, ti)[1] for ti in range(len(base["tasks"]))]
        for k, order in enumerate(orders_for(gates, maxlen[len(gates)])):
            drains = ("seq", "rr") if not ctx.quick else (("seq", "rr")[k % 2],)
            for drain in drains:
                rec.run(check_case, dict(base, order=order, drain=drain), reraise=True)

    def random_orders(batch):
        rec.extra["template_sets_random_orders"] = rec.extra.get("template_sets_random_orders", 0) + 1
        base = {k: v for k, v in batch.items() if k != "orders"}
        for order, drain in batch["orders"]:
            rec.run(check_case, dict(base, order=order, drain=drain), reraise=True)

    plan = [
        ("enum", _strategy(3, False), ctx.pick(SETS_QUICK, SETS_THOROUGH), enum_orders),
        ("rand", _strategy(ctx.pick(3, 4), True), ctx.pick(RANDOM_QUICK, RANDOM_THOROUGH), random_orders),
    ]
    def make_test(tag, strategy, n, body):
        @hypothesis.seed(ctx.derive(tag))
        @settings(max_examples=n, database=None, deadline=None, derandomize=False, report_multiple_bugs=False,
                  suppress_health_check=list(HealthCheck), phases=[Phase.generate, Phase.shrink], print_blob=False,
                  verbosity=hypothesis.Verbosity.quiet)
        @given(strategy)
        def test(x):
            body(x)

        return test

    for tag, strategy, n, body in plan:
        if rec.violations:
            break
        test = make_test(tag, strategy, n, body)
        nviol = len(rec.violations)
        try:
            test()
        except core.Violation:
            last = rec.violations[-1]
            del rec.violations[nviol:]
            rec.violations.append(last)
    return rec


def floors(total, tier):
    lab = total.labels
    need = ["interleaved", "shared_lib", "shared_include", "shared_parent", "same_main", "concurrent_module_build",
            "template_globals", "env_autoescape", "lib_macro_autoescape_probe", "tasks_2", "tasks_3", "releases_16+"]
    missing = [n for n in need if lab.get(n, 0) < 20]
    if missing:
        return "label classes below floor 20: %s" % missing
    if lab.get("solo_error", 0) > total.evaluations // 50:
        return "more than 2%% of the cases have a task that fails even alone (%d)" % lab.get("solo_error", 0)
    return None
