"""C19 - the immutable sandbox never modifies list / dict / set / deque data.

Cases (plain JSON; containers use a tagged encoding, see ``dec``):
  {"kind": "method", "async": bool, "data": <container>, "method": name, "args": [...], "kwargs": {...},
   "route": route key, "nest": how the container is reached from the context}
  {"kind": "filter", "async": bool, "autoescape": bool, "filter": name, "value": <any>, "args": [...], "kwargs": {...},
   "consume": "print" | "list" | "loop"}
  {"kind": "assign", "async": bool, "autoescape": bool, "form": key of ASSIGN_FORMS, "data": <container>, "reach": key}
  optional in all: "autoescape": bool, "pre": [environment kinds ("sandbox" | "plain" | "immutable") that render the
  same source first, each on its own copy of the data]

Oracle: the context is built twice from the case (the second copy is the snapshot); after rendering in
an ImmutableSandboxedEnvironment the context deep-equals the snapshot (exact types, order of
list/deque/dict, deque maxlen).  For method cases the outcome must be output, SecurityError,
UndefinedError, or the exception the same call raises in plain Python on a copy; for filter cases any
ordinary exception is an acceptable outcome (nonsense arguments), the data must be unchanged regardless.
Method names come from ``dir(type)`` of the running interpreter (dunder names included); whether a
call can mutate is decided by performing it in plain Python on a copy.
"""
import collections
import inspect

from hypothesis import strategies as st

from vt import core
from vt.gen import sandbox_gen as g

PID = "C19"
LEVEL = "exploration"
RULE = (
    "method table: every name in dir(list), dir(dict), dir(set), dir(collections.deque) of the running interpreter "
    "(public and dunder) x 24 argument shapes (none, new/existing element or key, key+value, index, index+value, "
    "list/str/dict/set/deque/pairs arguments held in the context, keyword arguments) x 25 routes (dot, subscript, "
    "computed name, set/with alias, attr filter, map(attribute)/map('attr')/dotted path, format field and index "
    "lookups, macro argument, loop variable, list/namespace storage, default filter, do statement, call through a "
    "stored alias of an alias; the same method taken unbound from the type object passed in the context or from the "
    "`dict` global, by dot / attr filter / map('attr') / alias / stored reference, with the container as first argument) "
    "enumerated completely in sync and async mode, with the container reached directly, "
    "as list/tuple/dict element, object attribute or deep path (rotating); histories: every method that can mutate, "
    "rendered first in an ordinary SandboxedEnvironment and/or plain Environment of the same process (5 orders x 6 "
    "routes x sync/async, run before anything else in the worker) and then judged in the immutable one; assignment "
    "table: about 400 statement forms (sequences of two or three assignment statements on one name - an earlier "
    "statement that did not run / ran on a real namespace / sits in another branch, loop, macro, block, with or call "
    "frame, an optional rebinding of the name to the container, then the assignment that must be refused; {% set %} expression / block / filtered block / tuple forms whose targets name an "
    "attribute of a context container directly or through an alias, with, macro parameter or loop variable; rebinding "
    "a namespace name and assigning its attribute in one statement; namespace(container), namespace(container, k=1), "
    "nested namespaces followed by attribute / block / tuple / loop assignments; dict(), cycler, joiner built from the "
    "container) x 6 container values x 4 ways of reaching it x sync/async x autoescape; filter table: "
    "every built-in filter x 12 container values x (no argument, each positional slot and each keyword parameter of "
    "its signature set to each of 10 context-held values, required parameters filled) x {print, list, loop} "
    "consumption x sync/async x autoescape off/on (x default / non-default environment policies for the filters whose "
    "source consults policies); plus "
    "Hypothesis-drawn containers (nested, deque maxlen), methods, arguments, routes and filter argument combinations. "
    "Non-trivial = (method) the same call performed in plain Python on a copy changes the container or an argument; "
    "(filter) the filter ran to completion on container data; distinct = distinct case."
)
ASSUMPTIONS = [
    "only objects of the exact builtin types list, dict, set, collections.deque (and tuples / plain objects holding them) are placed in the context",
    "deep equality = same types, same order for list/deque/dict items, same deque maxlen, == for scalars",
    "a method call that raises in plain Python may raise the same exception class in the template",
    "filters applied with arbitrary arguments may raise ordinary exceptions (TemplateError, TypeError, ValueError, LookupError, AttributeError, ArithmeticError, and the AssertionError truncate uses for argument validation); the data must still be unchanged",
]
EXHAUSTIVE_NOTE = "method names x argument shapes x routes x {sync, async} and filter x value x single-argument variations are enumerated completely in every tier"

TYPES = {"list": list, "dict": dict, "set": set, "deque": collections.deque}


# ---------------------------------------------------------------------------------------
# tagged JSON encoding


class Holder:
    def __init__(self, **kw):
        self.__dict__.update(kw)

    def __repr__(self):
        return "<holder>"


def dec(x):
    if isinstance(x, list):
        return [dec(i) for i in x]
    if isinstance(x, dict):
        t = x.get("$")
        if t == "dict":
            return {dec_key(k): dec(v) for k, v in x["v"]}
        if t == "set":
            return {dec_key(i) for i in x["v"]}
        if t == "deque":
            return collections.deque([dec(i) for i in x["v"]], x.get("maxlen"))
        if t == "tuple":
            return tuple(dec(i) for i in x["v"])
        raise core.HarnessError("bad encoding %r" % (x,))
    return x


def dec_key(k):
    if isinstance(k, dict) and k.get("$") == "tuple":
        return tuple(dec_key(i) for i in k["v"])
    if isinstance(k, (list, dict)):
        raise core.HarnessError("unhashable key in case %r" % (k,))
    return k


def D(*pairs):
    return {"$": "dict", "v": [list(p) for p in pairs]}


def S(*items):
    return {"$": "set", "v": list(items)}


def Q(*items, **kw):
    d = {"$": "deque", "v": list(items)}
    d.update(kw)
    return d


def T(*items):
    return {"$": "tuple", "v": list(items)}


def deep_diff(a, b, path="ctx"):
    """None when equal, else a description of the first difference."""
    if type(a) is not type(b):
        return "%s: type %s became %s" % (path, type(b).__name__, type(a).__name__)
    if isinstance(a, (list, tuple, collections.deque)):
        if isinstance(a, collections.deque) and a.maxlen != b.maxlen:
            return "%s: maxlen" % path
        if len(a) != len(b):
            return "%s: %r became %r" % (path, b, a)
        for i, (x, y) in enumerate(zip(a, b)):
            d = deep_diff(x, y, "%s[%d]" % (path, i))
            if d:
                return d
        return None
    if isinstance(a, dict):
        if list(a.keys()) != list(b.keys()):
            return "%s: %r became %r" % (path, b, a)
        for k in a:
            d = deep_diff(a[k], b[k], "%s[%r]" % (path, k))
            if d:
                return d
        return None
    if isinstance(a, (set, frozenset)):
        return None if a == b else "%s: %r became %r" % (path, b, a)
    if isinstance(a, Holder):
        return deep_diff(a.__dict__, b.__dict__, path + ".__dict__")
    return None if a == b else "%s: %r became %r" % (path, b, a)


# ---------------------------------------------------------------------------------------
# method table

SAMPLES = {
    "list": [3, 1, 2, 1],
    "dict": D(("a", 1), ("b", 2), ("c", 3)),
    "set": S(1, 2, 3),
    "deque": Q(3, 1, 2, 1),
}
SHAPES = {
    "none": ([], {}),
    "new": ([9], {}),
    "old": ([1], {}),
    "key_old": (["a"], {}),
    "key_new": (["z"], {}),
    "key_new_val": (["z", 0], {}),
    "key_old_val": (["a", 0], {}),
    "idx": ([0], {}),
    "idx_val": ([0, 9], {}),
    "two": ([2], {}),
    "neg": ([-1], {}),
    "list": ([[7, 8]], {}),
    "list_old": ([[1, 2]], {}),
    "str": (["xy"], {}),
    "dict": ([D(("z", 26))], {}),
    "dict_old": ([D(("a", 5))], {}),
    "set": ([S(1, 7)], {}),
    "set_disjoint": ([S(7, 8)], {}),
    "deque": ([Q(7)], {}),
    "pairs": ([[["y", 1]]], {}),
    "two_sets": ([S(1), S(2)], {}),
    "kw": ([], {"z": 5}),
    "kw_reverse": ([], {"reverse": True}),
    "list_and_kw": ([[["y", 1]]], {"z": 5}),
}
# routes: template with @X@ container expression, @M@ method name, @A@ rendered arguments
ROUTES = {
    "dot": "{{ @X@.@M@(@A@) }}",
    "item": "{{ @X@['@M@'](@A@) }}",
    "computed": "{{ @X@['@M1@' ~ '@M2@'](@A@) }}",
    "alias": "{% set f = @X@.@M@ %}{{ f(@A@) }}",
    "alias2": "{% set f = @X@.@M@ %}{% set h = [f] %}{% set k = h[0] %}{{ k(@A@) }}",
    "with": "{% with f = @X@.@M@ %}{{ f(@A@) }}{% endwith %}",
    "attr": "{{ (@X@|attr('@M@'))(@A@) }}",
    "map_attribute": "{{ ([@X@]|map(attribute='@M@')|first)(@A@) }}",
    "map_attr": "{{ ([@X@]|map('attr', '@M@')|first)(@A@) }}",
    "map_path": "{{ ([{'w': @X@}]|map(attribute='w.@M@')|first)(@A@) }}",
    "format": "{{ '{0.@M@}'.format(@X@) }}",
    "format_index": "{{ '{0[@M@]}'.format(@X@) }}",
    "macro": "{% macro mm(cc) %}{{ cc.@M@(@A@) }}{% endmacro %}{{ mm(@X@) }}",
    "loopvar": "{% for cc in [@X@] %}{{ cc.@M@(@A@) }}{% endfor %}",
    "stored_list": "{% set fl = [@X@.@M@] %}{{ fl[0](@A@) }}",
    "namespace": "{% set n = namespace(f=@X@.@M@) %}{{ n.f(@A@) }}",
    "do": "{% do @X@.@M@(@A@) %}",
    "ifexpr": "{{ (@X@.@M@ if true else 1)(@A@) }}",
    # the method taken unbound from the type object (T = the container's exact type, passed in the context; `dict` is
    # also a template global) and called with the container as first argument; subscript routes are left out because
    # list['append'] is a generic alias (class subscription), not an attribute lookup
    "unbound_T_dot": "{{ T.@M@(@XA@) }}",
    "unbound_T_attr": "{{ (T|attr('@M@'))(@XA@) }}",
    "unbound_T_alias": "{% set D = T %}{% set f = D.@M@ %}{{ f(@XA@) }}",
    "unbound_T_mapattr": "{{ ([T]|map('attr', '@M@')|first)(@XA@) }}",
    "unbound_dict_global": "{{ dict.@M@(@XA@) }}",
    "unbound_dict_alias": "{% set D = dict %}{{ D.@M@(@XA@) }}",
    "unbound_dict_stored": "{% set fs = {'f': dict.@M@} %}{{ fs.f(@XA@) }}",
}
DICT_GLOBAL_ROUTES = ("unbound_dict_global", "unbound_dict_alias", "unbound_dict_stored")
# how the container is reached: key -> (expression, builder of the context entry)
NESTS = {
    "top": "c",
    "in_list": "outer[0]",
    "in_tuple": "tp[1]",
    "in_dict": "hd.c",
    "in_dict_item": "hd['c']",
    "obj_attr": "ob.c",
    "deep": "deep.a[0].b",
}
NEST_KEYS = sorted(NESTS)
ROUTE_KEYS = sorted(ROUTES)
SHAPE_KEYS = sorted(SHAPES)


def method_names(tname):
    return sorted(n for n in dir(TYPES[tname]))


def _args_text(args, kwargs):
    parts = ["a%d" % i for i in range(len(args))] + ["%s=kw_%s" % (k, k) for k in sorted(kwargs)]
    return ", ".join(parts)


def _method_ctx(case):
    c = dec(case["data"])
    ctx = {"c": c, "outer": [c, 0], "tp": (0, c), "hd": {"c": c, "x": 1}, "ob": Holder(c=c), "deep": {"a": [{"b": c}]}}
    if case["nest"] == "top":
        ctx = {"c": c}
    else:
        # keep only the path used, so that the container is reachable exactly as stated
        keep = {"in_list": "outer", "in_tuple": "tp", "in_dict": "hd", "in_dict_item": "hd", "obj_attr": "ob", "deep": "deep"}[case["nest"]]
        ctx = {keep: ctx[keep]}
    for i, a in enumerate(case["args"]):
        ctx["a%d" % i] = dec(a)
    for k, v in case["kwargs"].items():
        ctx["kw_" + k] = dec(v)
    if case.get("route", "").startswith("unbound_T"):
        ctx["T"] = type(c)
    return ctx, c


def method_src(case):
    m = case["method"]
    half = max(1, len(m) // 2)
    t = ROUTES[case["route"]]
    at = _args_text(case["args"], case["kwargs"])
    x = NESTS[case["nest"]]
    return (t.replace("@XA@", x + (", " + at if at else "")).replace("@X@", x).replace("@M1@", m[:half]).replace("@M2@", m[half:])
            .replace("@M@", m).replace("@A@", at))


_cache = {}


def _excs():
    if not _cache:
        import jinja2
        from jinja2.exceptions import SecurityError, TemplateError, UndefinedError

        _cache.update(SecurityError=SecurityError, UndefinedError=UndefinedError, TemplateError=TemplateError, jinja2=jinja2)
    return _cache


# non-default values for the environment policies (docs/api.rst "Policies"): every policy that is unset by default gets
# a plausible value
POLICIES_SET = {
    "urlize.rel": "nofollow me",
    "urlize.target": "_blank",
    "urlize.extra_schemes": ["ftp:", "x-test:"],
    "truncate.leeway": 0,
    "json.dumps_kwargs": {"sort_keys": False, "indent": 1},
    "compiler.ascii_str": False,
    "ext.i18n.trimmed": True,
}


def _env(is_async, autoescape=False, kind="immutable", policies=None):
    import jinja2
    from jinja2.sandbox import ImmutableSandboxedEnvironment, SandboxedEnvironment

    cls = {"immutable": ImmutableSandboxedEnvironment, "sandbox": SandboxedEnvironment, "plain": jinja2.Environment}[kind]
    env = cls(enable_async=is_async, autoescape=autoescape, extensions=["jinja2.ext.do"], cache_size=0)
    if policies:
        import copy

        env.policies.update(copy.deepcopy(policies))
    return env


def _history(case, src, make_ctx):
    """Render the same source first in the environments listed in case["pre"] (each on its own throw-away copy of
    the data, which an ordinary sandbox may of course modify): what other environments of the same process did
    before must not weaken the immutable one."""
    for kind in case.get("pre") or ():
        try:
            g.render(_env(case["async"], case.get("autoescape", False), kind), src, make_ctx())
        except Exception:  # noqa: BLE001 - the outcome of the preceding renders is not judged
            pass


def _plain_call(case):
    """Perform the call in plain Python on a fresh copy -> (mutated: bool, exception class or None)."""
    ctx, c = _method_ctx(case)
    ref, _ = _method_ctx(case)
    exc = None
    try:
        args = [ctx["a%d" % i] for i in range(len(case["args"]))]
        if case.get("route", "").startswith("unbound"):
            f, args = getattr(type(c), case["method"]), [c] + args
        else:
            f = getattr(c, case["method"])
        # a non-callable attribute (deque.maxlen, list.__hash__) raises TypeError here exactly as in the template
        f(*args, **{k: ctx["kw_" + k] for k in case["kwargs"]})
    except Exception as e:  # noqa: BLE001 - plain Python on harness data
        exc = type(e)
    return deep_diff(ctx, ref) is not None, exc


def check_method(case):
    X = _excs()
    if case["route"] in DICT_GLOBAL_ROUTES and type(dec(case["data"])) is not dict:
        raise core.Discard()  # dict.<method>(non-dict) is a TypeError of the descriptor, nothing to learn
    ctx, _ = _method_ctx(case)
    snap, _ = _method_ctx(case)
    mutates, plain_exc = _plain_call(case)
    src = method_src(case)
    _history(case, src, lambda: _method_ctx(case)[0])
    env = _env(case["async"], case.get("autoescape", False))
    allowed = (X["SecurityError"], X["UndefinedError"]) + ((plain_exc,) if plain_exc is not None else ())
    err = None
    try:
        g.render(env, src, ctx)
    except allowed as e:
        err = e
    except Exception as e:  # noqa: BLE001 - judged after the data comparison
        err = e
    where = "\n  async=%s autoescape=%s rendered before in=%r data=%r args=%r kwargs=%r\n  template: %s" % (
        case["async"], case.get("autoescape", False), case.get("pre") or [], case["data"], case["args"], case["kwargs"], src)
    d = deep_diff(ctx, snap)
    if d:
        raise core.Violation("immutable sandbox modified context data: %s (outcome %s)%s" % (d, "output" if err is None else type(err).__name__, where))
    if err is not None and not isinstance(err, allowed):
        raise core.Violation("outcome must be output, SecurityError, UndefinedError%s; got %s: %s%s" % (
            " or %s" % plain_exc.__name__ if plain_exc else "", type(err).__name__, err, where))
    tname = type(dec(case["data"])).__name__
    labels = [
        "method", "m_" + tname, "async" if case["async"] else "sync", "route_" + case["route"], "nest_" + case["nest"],
        "can_mutate" if mutates else "no_mutation",
        "dunder" if case["method"].startswith("_") else "public",
        "outcome_" + ("output" if err is None else type(err).__name__),
    ]
    if mutates:
        labels.append("mutator_%s.%s" % (tname, case["method"]))
    if case.get("pre"):
        labels.append("history_" + "_".join(case["pre"]))
    return core.Outcome(mutates, labels)


def method_cases():
    k = 0
    for tname in sorted(TYPES):
        for m in method_names(tname):
            for sk in SHAPE_KEYS:
                args, kwargs = SHAPES[sk]
                for rk in ROUTE_KEYS:
                    if rk in DICT_GLOBAL_ROUTES and tname != "dict":
                        continue
                    for is_async in (False, True):
                        k += 1
                        yield {"kind": "method", "async": is_async, "data": SAMPLES[tname], "method": m, "args": args, "kwargs": kwargs,
                               "route": rk, "nest": NEST_KEYS[k % len(NEST_KEYS)]}


HISTORIES = [["sandbox"], ["plain", "sandbox"], ["immutable", "sandbox"], ["sandbox", "immutable"], ["sandbox", "sandbox"]]
HISTORY_ROUTES = ["dot", "item", "attr", "map_attribute", "alias", "with"]


def history_pairs():
    """(type name, method, args, kwargs) for every method some argument shape makes mutate in plain Python."""
    out = []
    for tname in sorted(TYPES):
        for m in method_names(tname):
            for sk in SHAPE_KEYS:
                args, kwargs = SHAPES[sk]
                probe = {"kind": "method", "data": SAMPLES[tname], "method": m, "args": args, "kwargs": kwargs, "nest": "top"}
                if _plain_call(probe)[0]:
                    out.append((tname, m, args, kwargs))
                    break
    return out


def history_cases(index=0, nshards=1):
    """Each mutating method accessed first in an ordinary sandbox / plain environment, then in the immutable one.
    All cases of one (type, method) pair go to one shard and are run before anything else there, so that the
    pair's first use in that process is the non-immutable one."""
    for i, (tname, m, args, kwargs) in enumerate(history_pairs()):
        if i % nshards != index:
            continue
        k = 0
        for pre in HISTORIES:
            for rk in HISTORY_ROUTES:
                for is_async in (False, True):
                    k += 1
                    yield {"kind": "method", "async": is_async, "data": SAMPLES[tname], "method": m, "args": args, "kwargs": kwargs,
                           "route": rk, "nest": NEST_KEYS[k % len(NEST_KEYS)], "pre": pre}


# ---------------------------------------------------------------------------------------
# filter table

VALUES = {
    "ints": [3, 1, 2],
    "lists": [[1], [2]],
    "dicts": [D(("k", 1), ("j", [1])), D(("k", 2), ("j", [2]))],
    "dict": D(("b", [1]), ("a", [2])),
    "set": S(1, 2),
    "deque": Q(2, 1),
    "sets": [S(1), S(2)],
    "strs": ["b", "a"],
    "pairs": [["a", [1]], ["b", [2]]],
    "nested": D(("a", D(("b", [1, 2]))), ("l", [Q(1)])),
    "deques": [Q(1, 2), Q(3)],
    "mixed": [1, None, "a<b", [2], 1.5],
}
ARGVALS = {
    "a_list": [0],
    "a_ll": [[9]],
    "a_dict": D(("k", 1)),
    "a_set": S(5),
    "a_deque": Q(5),
    "a_int": 1,
    "a_str": "0",
    "a_true": True,
    "a_key": "k",
    "a_html": "<b>",
}
FILLERS = [2, "0", "a", "k"]
CONSUME = {"print": "{{ @E@ }}", "list": "{{ @E@|list }}", "loop": "{% for q in @E@ %}{{ q }}{% endfor %}"}

_filters = {}


def filter_table():
    """name -> (required positional count after the value, [keyword parameter names], max positional slots)."""
    if _filters:
        return _filters
    import jinja2

    env = jinja2.Environment()
    for name in sorted(env.filters):
        f = env.filters[name]
        try:
            sig = inspect.signature(f)
        except (TypeError, ValueError):
            _filters[name] = (0, [], 2)
            continue
        params = list(sig.parameters.values())
        # drop the injected first argument (environment / context / eval_ctx) and the value
        pass_arg = getattr(f, "jinja_pass_arg", None)
        if pass_arg is not None:
            params = params[1:]
        params = params[1:]
        required = sum(1 for p in params if p.default is inspect.Parameter.empty and p.kind in (p.POSITIONAL_ONLY, p.POSITIONAL_OR_KEYWORD))
        kws = [p.name for p in params if p.kind in (p.POSITIONAL_OR_KEYWORD, p.KEYWORD_ONLY)]
        npos = sum(1 for p in params if p.kind in (p.POSITIONAL_ONLY, p.POSITIONAL_OR_KEYWORD))
        if any(p.kind == p.VAR_POSITIONAL for p in params):
            npos = max(npos, 2)
        _filters[name] = (required, kws, min(npos, 3))
    return _filters


_policy_filters = {}


def policy_filters():
    """Names of the built-in filters whose source consults environment policies (found by reading their source, so a
    filter that starts to use a policy is picked up)."""
    if not _policy_filters:
        import jinja2

        env = jinja2.Environment()
        for name, f in env.filters.items():
            srcs = []
            for fn in (f, getattr(f, "__wrapped__", None), getattr(f, "jinja_async_variant", None)):
                try:
                    srcs.append(inspect.getsource(fn))
                except (TypeError, OSError):
                    pass
            _policy_filters[name] = any("policies" in t for t in srcs)
    return {n for n, v in _policy_filters.items() if v}


def filter_src(case):
    parts = ["a%d" % i for i in range(len(case["args"]))] + ["%s=kw_%s" % (k, k) for k in sorted(case["kwargs"])]
    e = "v|%s(%s)" % (case["filter"], ", ".join(parts)) if parts else "v|%s" % case["filter"]
    return CONSUME[case["consume"]].replace("@E@", e)


def _filter_ctx(case):
    ctx = {"v": dec(case["value"])}
    for i, a in enumerate(case["args"]):
        ctx["a%d" % i] = dec(a)
    for k, v in case["kwargs"].items():
        ctx["kw_" + k] = dec(v)
    return ctx


def check_filter(case):
    X = _excs()
    if case["filter"] in ("random", "shuffle"):
        raise core.Discard()  # uses the global RNG
    ctx, snap = _filter_ctx(case), _filter_ctx(case)
    src = filter_src(case)
    _history(case, src, lambda: _filter_ctx(case))
    env = _env(case["async"], case.get("autoescape", False), policies=case.get("policies"))
    ordinary = (X["TemplateError"], TypeError, ValueError, LookupError, AttributeError, ArithmeticError, AssertionError)
    err = None
    try:
        g.render(env, src, ctx)
    except ordinary as e:
        err = e
    where = "\n  async=%s autoescape=%s value=%r args=%r kwargs=%r\n  template: %s" % (
        case["async"], case.get("autoescape", False), case["value"], case["args"], case["kwargs"], src)
    d = deep_diff(ctx, snap)
    if d:
        raise core.Violation("immutable sandbox modified context data through a filter: %s (outcome %s)%s" % (
            d, "output" if err is None else type(err).__name__, where))
    labels = ["filter", "async" if case["async"] else "sync", "f_" + case["filter"], "consume_" + case["consume"],
              "filter_ok" if err is None else "filter_raised", "autoescape_on" if case.get("autoescape") else "autoescape_off"]
    if case.get("policies"):
        labels.append("policies_set")
    return core.Outcome(err is None, labels)


def filter_cases():
    ft = filter_table()
    for name in sorted(ft):
        if name == "random":
            continue
        required, kws, npos = ft[name]
        fill = FILLERS[hash_name(name) % len(FILLERS)]
        variations = [([], {})]
        for slot in range(max(npos, required)):
            for av in sorted(ARGVALS):
                args = [ARGVALS[av] if i == slot else FILLERS[(hash_name(name) + i) % len(FILLERS)] for i in range(max(slot + 1, required))]
                variations.append((args, {}))
        for kw in kws:
            for av in sorted(ARGVALS):
                idx = kws.index(kw)
                if idx < required:
                    continue  # given positionally above
                variations.append(([FILLERS[(hash_name(name) + i) % len(FILLERS)] for i in range(required)], {kw: ARGVALS[av]}))
        # every filler choice for required parameters once, so that some choice fits
        for f in FILLERS:
            if required:
                variations.append(([f] * required, {}))
        pol_variants = (None, POLICIES_SET) if name in policy_filters() else (None,)
        for vk in sorted(VALUES):
            for args, kwargs in variations:
                for ck in ("print", "list", "loop"):
                    for is_async in (False, True):
                        for autoescape in (False, True):
                            for pol in pol_variants:
                                case = {"kind": "filter", "async": is_async, "autoescape": autoescape, "filter": name, "value": VALUES[vk],
                                        "args": args, "kwargs": kwargs, "consume": ck}
                                if pol:
                                    case["policies"] = pol
                                yield case


def hash_name(name):
    return sum(ord(ch) for ch in name)


# ---------------------------------------------------------------------------------------
# assignment statements and namespace objects built from context containers

# @C@ = a context variable holding the container (a plain name: dotted targets are only parsed for `name.attr`),
# @E@ = an expression reaching the same container (c, hd.c, outer[0], ...)
ASSIGN_FORMS = {
    "set_attr": "{% set @C@.y = 1 %}",
    "set_attr_existing": "{% set @C@.a = 1 %}",
    "set_block_attr": "{% set @C@.y %}42{% endset %}",
    "set_block_attr_existing": "{% set @C@.a %}42{% endset %}",
    "set_block_attr_filter": "{% set @C@.y | upper %}x{% endset %}",
    "set_tuple_attr": "{% set q, @C@.y = 1, 2 %}",
    "set_tuple_attr_first": "{% set @C@.y, q = 1, 2 %}",
    "set_tuple_paren": "{% set (q, @C@.y) = (1, 2) %}",
    "set_nested_tuple": "{% set q, (r, @C@.y) = 1, (2, 3) %}",
    "rebind_then_attr": "{% set ns = namespace() %}{% set ns, ns.a = @E@, 1 %}",
    "rebind_then_attr_rev": "{% set ns = namespace() %}{% set ns.a, ns = 1, @E@ %}",
    "rebind_then_attr_nested": "{% set ns = namespace() %}{% set (q, ns), ns.y = (1, @E@), 2 %}",
    "rebind_then_block": "{% set ns = namespace() %}{% set ns = @E@ %}{% set ns.y %}v{% endset %}",
    "alias_then_attr": "{% set ns = @E@ %}{% set ns.y = 1 %}",
    "alias_then_block": "{% set ns = @E@ %}{% set ns.y %}v{% endset %}",
    "with_alias_attr": "{% with ns = @E@ %}{% set ns.y = 1 %}{% endwith %}",
    "macro_param_attr": "{% macro m(ns) %}{% set ns.y = 1 %}{% endmacro %}{{ m(@E@) }}",
    "macro_param_block": "{% macro m(ns) %}{% set ns.y %}v{% endset %}{% endmacro %}{{ m(@E@) }}",
    "loop_var_attr": "{% for ns in [@E@] %}{% set ns.y = 1 %}{% endfor %}",
    "loop_var_block": "{% for ns in [@E@] %}{% set ns.y %}v{% endset %}{% endfor %}",
    "loop_target_attr": "{% for @C@.y in [1] %}{% endfor %}",
    "set_item": "{% set @C@['y'] = 1 %}",
    "namespace_of": "{% set ns = namespace(@E@) %}{% set ns.x = 1 %}",
    "namespace_of_existing": "{% set ns = namespace(@E@) %}{% set ns.a = 9 %}",
    "namespace_of_block": "{% set ns = namespace(@E@) %}{% set ns.x %}v{% endset %}",
    "namespace_of_kw": "{% set ns = namespace(@E@, k=1) %}{% set ns.x = 1 %}{% set ns.k = 2 %}",
    "namespace_of_tuple": "{% set ns = namespace(@E@) %}{% set ns.x, ns.y = 1, 2 %}",
    "namespace_of_loop": "{% set ns = namespace(@E@) %}{% for i in [1, 2] %}{% set ns.x = i %}{% endfor %}",
    "namespace_of_macro": "{% macro m(n) %}{% set n.x = 1 %}{% endmacro %}{{ m(namespace(@E@)) }}",
    "namespace_kw_value": "{% set ns = namespace(d=@E@) %}{% set ns.d = 1 %}{% set ns.e = 2 %}",
    "namespace_twice": "{% set ns = namespace(namespace(@E@)) %}",
    "namespace_read": "{% set ns = namespace(@E@) %}{{ ns.a }}{% set ns.z = ns.a %}",
    "dict_global_copy": "{% set dd = dict(@E@) %}{{ dd.update(y=1) }}",
    "cycler_items": "{% set cy = cycler(@E@) %}{{ cy.next() }}{{ cy.reset() }}",
    "joiner_sep": "{% set jn = joiner(@E@) %}{{ jn() }}{{ jn() }}",
}
# sequences of assignment statements on one name: an earlier statement with the same attribute-target base (which did
# not run, ran on a real namespace, or sits in another branch / scope), an optional rebinding of the name to the
# container, then the assignment that must be refused.  @N@ = the name, @E@ = expression reaching the container.
_SEQ_FIRST = {
    "if_false": "{% if no %}{% set @N@.a = 1 %}{% endif %}",
    "if_true_ns": "{% if yes %}{% set @N@.a = 1 %}{% endif %}",
    "else_untaken": "{% if yes %}x{% else %}{% set @N@.a = 1 %}{% endif %}",
    "elif_untaken": "{% if yes %}x{% elif yes %}{% set @N@.a = 1 %}{% endif %}",
    "plain_ns": "{% set @N@.a = 1 %}",
    "block_ns": "{% set @N@.a %}v{% endset %}",
    "tuple_ns": "{% set @N@.a, q = 1, 2 %}",
    "empty_loop": "{% for i in [] %}{% set @N@.a = 1 %}{% endfor %}",
    "loop_ns": "{% for i in [1] %}{% set @N@.a = i %}{% endfor %}",
    "twice_ns": "{% set @N@.a = 1 %}{% set @N@.b = 2 %}",
}
_SEQ_REBIND = {
    "set": "{% set @N@ = @E@ %}",
    "set_tuple": "{% set @N@, q = @E@, 1 %}",
    "set_in_if": "{% if yes %}{% set @N@ = @E@ %}{% endif %}",
    "set_block_then_set": "{% set @N@ %}t{% endset %}{% set @N@ = @E@ %}",
}
_SEQ_LAST = {
    "attr": "{% set @N@.y = 2 %}",
    "attr_existing": "{% set @N@.a = 2 %}",
    "block": "{% set @N@.y %}w{% endset %}",
    "block_filter": "{% set @N@.y | upper %}w{% endset %}",
    "tuple": "{% set q, @N@.y = 1, 2 %}",
    "in_if": "{% if yes %}{% set @N@.y = 2 %}{% endif %}",
    "in_else": "{% if no %}x{% else %}{% set @N@.y = 2 %}{% endif %}",
    "twice": "{% set @N@.y = 2 %}{% set @N@.z = 3 %}",
}
for _f, _ft in _SEQ_FIRST.items():
    for _l, _lt in _SEQ_LAST.items():
        # (a) the name is the context container itself and the first statement never ran
        if _f in ("if_false", "else_untaken", "elif_untaken", "empty_loop"):
            ASSIGN_FORMS["seq_%s__%s" % (_f, _l)] = (_ft + _lt).replace("@N@", "@C@")
        # (b) the name is a real namespace first, then rebound to the container
        for _r, _rt in _SEQ_REBIND.items():
            ASSIGN_FORMS["seq_%s__%s__%s" % (_f, _r, _l)] = ("{% set nq = namespace() %}" + _ft + _rt + _lt).replace("@N@", "nq")
# the same inside a macro / a block / a loop body (other frames)
for _w, _wt in {"macro": "{% macro m() %}@B@{% endmacro %}{{ m() }}", "block": "{% block bq %}@B@{% endblock %}",
                "loop": "{% for j in [1, 2] %}@B@{% endfor %}", "with": "{% with z = 1 %}@B@{% endwith %}",
                "call": "{% macro m() %}{{ caller() }}{% endmacro %}{% call m() %}@B@{% endcall %}"}.items():
    ASSIGN_FORMS["seq_in_%s_if_false" % _w] = _wt.replace("@B@", "{% if no %}{% set @C@.a = 1 %}{% endif %}{% set @C@.y = 2 %}")
    ASSIGN_FORMS["seq_in_%s_rebind" % _w] = _wt.replace(
        "@B@", "{% set nq = namespace() %}{% set nq.a = 1 %}{% set nq = @E@ %}{% set nq.y = 2 %}")
    ASSIGN_FORMS["seq_across_%s" % _w] = "{% set nq = namespace() %}{% set nq.a = 1 %}{% set nq = @E@ %}" + _wt.replace(
        "@B@", "{% set nq.y = 2 %}")

ASSIGN_DATA = {
    "dict": D(("a", 1), ("b", [2])),
    "dict_empty": D(),
    "pairs": [["a", 1], ["b", 2]],
    "list": [3, 1, 2],
    "set": S(1, 2),
    "deque": Q(3, 1),
}
ASSIGN_REACH = {"top": ("c", "c"), "in_dict": ("c", "hd.c"), "in_list": ("c", "outer[0]"), "obj_attr": ("c", "ob.c")}


def assign_src(case):
    cname, expr = ASSIGN_REACH[case["reach"]]
    return ASSIGN_FORMS[case["form"]].replace("@C@", cname).replace("@E@", expr)


def _assign_ctx(case):
    c = dec(case["data"])
    return {"c": c, "hd": {"c": c, "x": 1}, "outer": [c, 0], "ob": Holder(c=c), "yes": True, "no": False}


def check_assign(case):
    X = _excs()
    ctx, snap = _assign_ctx(case), _assign_ctx(case)
    src = assign_src(case)
    _history(case, src, lambda: _assign_ctx(case))
    env = _env(case["async"], case.get("autoescape", False))
    ordinary = (X["TemplateError"], TypeError, ValueError, LookupError, AttributeError)
    err = None
    try:
        g.render(env, src, ctx)
    except ordinary as e:
        err = e
    where = "\n  async=%s autoescape=%s data=%r\n  template: %s" % (case["async"], case.get("autoescape", False), case["data"], src)
    d = deep_diff(ctx, snap)
    if d:
        raise core.Violation("immutable sandbox modified context data through an assignment / namespace: %s (outcome %s)%s" % (
            d, "output" if err is None else type(err).__name__, where))
    compiled = not isinstance(err, X["jinja2"].TemplateSyntaxError)
    labels = ["assign", "async" if case["async"] else "sync", "form_" + case["form"],
              "assign_" + ("output" if err is None else type(err).__name__)]
    return core.Outcome(compiled, labels)


def assign_cases():
    k = 0
    for form in sorted(ASSIGN_FORMS):
        for dk in sorted(ASSIGN_DATA):
            for reach in sorted(ASSIGN_REACH):
                for is_async in (False, True):
                    k += 1
                    # the generated statement sequences alternate autoescape instead of crossing it
                    for autoescape in ((False, True) if not form.startswith("seq_") else (bool(k % 2),)):
                        yield {"kind": "assign", "async": is_async, "autoescape": autoescape, "form": form, "data": ASSIGN_DATA[dk],
                               "reach": reach}


# ---------------------------------------------------------------------------------------
# Hypothesis part


def _scalars():
    return st.one_of(st.sampled_from([1, 2, 3, 7, 9, 0, -1]), st.sampled_from(["a", "b", "c", "z", "k", "xy", "0"]))


def _container(depth=2):
    leaf = _scalars()
    if depth <= 0:
        inner = leaf
    else:
        inner = st.one_of(leaf, leaf, st.deferred(lambda: _container(depth - 1)))
    hashable = _scalars()
    return st.one_of(
        st.lists(inner, max_size=4),
        st.lists(st.tuples(st.sampled_from(["a", "b", "c", "k", "z"]), inner), max_size=3, unique_by=lambda p: p[0]).map(lambda ps: D(*ps)),
        st.lists(hashable, max_size=4, unique=True).map(lambda xs: S(*xs)),
        st.builds(lambda xs, ml: Q(*xs, **({"maxlen": max(ml, len(xs))} if ml is not None else {})), st.lists(inner, max_size=4),
                  st.one_of(st.none(), st.integers(1, 5))),
    )


_mutators = {}


def mutator_names(tname):
    """Names for which some argument shape changes the sample container in plain Python (harness-side trial)."""
    if tname not in _mutators:
        out = []
        for m in method_names(tname):
            for sk in SHAPE_KEYS:
                args, kwargs = SHAPES[sk]
                case = {"kind": "method", "data": SAMPLES[tname], "method": m, "args": args, "kwargs": kwargs, "nest": "top"}
                if _plain_call(case)[0]:
                    out.append(m)
                    break
        _mutators[tname] = out
    return _mutators[tname]


@st.composite
def random_method_case(draw):
    data = draw(_container(1))
    tname = type(dec(data)).__name__
    names = method_names(tname)
    which = draw(st.integers(0, 9))
    if which < 6:
        m = draw(st.sampled_from(mutator_names(tname)))
    elif which < 9:
        m = draw(st.sampled_from([n for n in names if not n.startswith("_")]))
    else:
        m = draw(st.sampled_from(names))
    if draw(st.integers(0, 9)) < 7:
        args, kwargs = SHAPES[draw(st.sampled_from(SHAPE_KEYS))]
    else:
        args = [draw(st.one_of(_scalars(), _container(1))) for _ in range(draw(st.integers(0, 2)))]
        kwargs = draw(st.one_of(st.just({}), st.just({}), st.fixed_dictionaries({"z": _scalars()}), st.just({"reverse": True})))
    case = {"kind": "method", "async": draw(st.booleans()), "data": data, "method": m, "args": args, "kwargs": kwargs,
            "route": draw(st.sampled_from(ROUTE_KEYS if tname == "dict" else [r for r in ROUTE_KEYS if r not in DICT_GLOBAL_ROUTES])),
            "nest": draw(st.sampled_from(NEST_KEYS))}
    if draw(st.integers(0, 3)) == 0:
        case["pre"] = draw(st.lists(st.sampled_from(["sandbox", "plain", "immutable"]), min_size=1, max_size=2))
    if draw(st.integers(0, 3)) == 0:
        case["autoescape"] = True
    return case


@st.composite
def random_filter_case(draw):
    ft = filter_table()
    name = draw(st.sampled_from(sorted(n for n in ft if n != "random")))
    required, kws, npos = ft[name]
    value = draw(st.one_of(_container(2), st.sampled_from(sorted(VALUES)).map(VALUES.get)))
    arg = st.one_of(_scalars(), _container(1), st.sampled_from(sorted(ARGVALS)).map(ARGVALS.get))
    nargs = draw(st.integers(required, max(required, min(npos, required + 2))))
    args = [draw(arg) for _ in range(nargs)]
    kwargs = {}
    free = kws[nargs:]
    for kw in draw(st.lists(st.sampled_from(free), max_size=2, unique=True)) if free else []:
        kwargs[kw] = draw(arg)
    case = {"kind": "filter", "async": draw(st.booleans()), "autoescape": draw(st.booleans()), "filter": name, "value": value,
            "args": args, "kwargs": kwargs, "consume": draw(st.sampled_from(sorted(CONSUME)))}
    if draw(st.integers(0, 5)) == 0:
        case["pre"] = draw(st.lists(st.sampled_from(["sandbox", "plain", "immutable"]), min_size=1, max_size=2))
    if draw(st.integers(0, 3)) == 0:
        case["policies"] = POLICIES_SET
    return case


# ---------------------------------------------------------------------------------------


def check_case(case):
    if case["kind"] == "method":
        return check_method(case)
    if case["kind"] == "assign":
        return check_assign(case)
    return check_filter(case)


def shards(tier):
    return [{"i": i} for i in range(16)]


def run_shard(spec, ctx):
    rec = core.Rec()
    # each stage runs only while nothing has failed: a failing tree is reported from the cheapest stage
    core.enum_shard(history_cases(ctx.index, ctx.nshards), check_case, ctx, rec=rec, stop_after=6)
    if not rec.violations:
        core.enum_shard(core.sliced(assign_cases(), ctx.index, ctx.nshards), check_case, ctx, rec=rec, stop_after=6)
    if not rec.violations:
        core.enum_shard(core.sliced(method_cases(), ctx.index, ctx.nshards), check_case, ctx, rec=rec, stop_after=6)
    if not rec.violations:
        core.enum_shard(core.sliced(filter_cases(), ctx.index, ctx.nshards), check_case, ctx, rec=rec, stop_after=6)
    if not rec.violations:
        core.hyp_shard(random_method_case(), check_case, ctx, ctx.pick(1500, 65000), rec=rec, tag="m")
    if not rec.violations:
        core.hyp_shard(random_filter_case(), check_case, ctx, ctx.pick(1500, 65000), rec=rec, tag="f")
    return rec


def floors(total, tier):
    lab = total.labels
    for t in TYPES:
        if lab.get("m_" + t, 0) < 1000:
            return "type %s has only %d method cases" % (t, lab.get("m_" + t, 0))
    # every method that the sandbox documents as mutating must have been seen mutating in plain Python
    documented = {
        "list": ["append", "clear", "pop", "reverse", "insert", "sort", "extend", "remove"],
        "dict": ["clear", "pop", "popitem", "setdefault", "update"],
        "set": ["add", "clear", "difference_update", "discard", "pop", "remove", "symmetric_difference_update", "update"],
        "deque": ["append", "appendleft", "clear", "extend", "extendleft", "pop", "popleft", "remove", "rotate"],
    }
    for t, ms in documented.items():
        for m in ms:
            if lab.get("mutator_%s.%s" % (t, m), 0) < 10:
                return "no argument shape makes %s.%s mutate (seen %d)" % (t, m, lab.get("mutator_%s.%s" % (t, m), 0))
    if lab.get("filter_ok", 0) < 2000:
        return "only %d filter cases ran to completion" % lab.get("filter_ok", 0)
    if lab.get("f_sum", 0) < 50:
        return "sum filter barely exercised"
    return None
