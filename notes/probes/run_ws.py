import sys, random, collections, itertools
sys.path.insert(0, __import__("os").path.dirname(__file__))
from ws_model import *
from jinja2 import Environment
r = random.Random(int(sys.argv[1]) if len(sys.argv) > 1 else 1)
envs = {}
for trim, lstrip, nls, ktn in itertools.product([False, True], [False, True], NL, [False, True]):
    envs[(trim, lstrip, nls, ktn)] = Environment(trim_blocks=trim, lstrip_blocks=lstrip, newline_sequence=nls, keep_trailing_newline=ktn)
bad = collections.Counter(); ex = {}; n = 0
for it in range(int(sys.argv[2]) if len(sys.argv) > 2 else 20000):
    sk = gen_skeleton(r)
    src = source(sk)
    for key, env in envs.items():
        n += 1
        exp = model(sk, *key)
        try: got = env.from_string(src).render(v="V")
        except Exception as e: got = "EXC:%s:%s" % (type(e).__name__, e)
        if got != exp:
            kinds = tuple(sorted(set(s[0] for s in sk)))
            k = (key[0], key[1], kinds); bad[k] += 1
            if k not in ex or len(src) < len(ex[k][0]): ex[k] = (src, key, exp, got)
print(n, sum(bad.values()))
for k, v in sorted(bad.items(), key=lambda kv: -kv[1])[:25]: print(v, k, ex[k])
