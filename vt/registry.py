"""Registry of claimed checks -> MANIFEST.json (tools/mkmanifest.py)."""

# pid -> dict(category, technique, text, note, design_ref)
CHECKS = {
    "C21": dict(
        category="exploration",
        technique="exhaustive table-driven property test: undefined type x origin x operation x operand x route against a table transcribed from the documentation",
        text="Every cell of the documented operation table (8 undefined types incl. logging variants, 5 origins, ~55 operations in both operand orders, 9 other operands, python and rendered-template routes; 21k cases) is executed in every tier and compared with an independently written expectation table; exhaustive over that finite table, so a deleted operator alias or changed protocol method is found deterministically.",
        note="Trusts the transcription of the docstrings into the table; cells where Python asks the other operand first are not judged.",
        design_ref="DESIGN.md §4 C21",
    ),
}

CHECKS["C35"] = dict(
    category="exploration",
    technique="property-based testing: Hypothesis-generated faulted template sets, oracle = independent line arithmetic on the printed source vs. traceback / TemplateSyntaxError line",
    text="Generated multi-template sets with exactly one runtime or syntax fault in a single-line tag under random nesting, multi-line neighbour tags, whitespace modifiers, three line-break forms, trim/lstrip, sync+async; the harness computes the fault's line by counting line breaks itself and requires the innermost template traceback frame (file and line) or TemplateSyntaxError.lineno/name/filename to match. 8k sets quick, 144k thorough; kills all six line-tracking mutants tried.",
    note="Fault tags are single-line so the expected line is unambiguous; faults inside multi-line tags are not judged.",
    design_ref="DESIGN.md §4 C35",
)
CHECKS["C38"] = dict(
    category="fault_enumeration",
    technique="fault injection over enumerated event points: Hypothesis-generated template sets over instrumented data, every k-th data event raises; oracle = object identity of the propagated exception + clean re-render equality",
    text="For each generated template set (extends, import with and without context, include, macros, call/filter/set blocks, loops) a clean run counts the data events; every event index k (thorough: all; quick: up to 24 spread evenly) is then made to raise a fresh private exception and the exception leaving render/generate/stream/render_async/generate_async must be that very object; afterwards all templates are re-rendered cleanly on the same environment and must equal the clean outputs (catches half-initialised cached modules).",
    note="Exception classes are private subclasses of Exception/ArithmeticError/RuntimeError; the documented lookup signals are never injected. Event order assumed deterministic (verified per case by running the clean render twice).",
    design_ref="DESIGN.md §4 C38",
)

NOT_YET = "check not built yet in this session (see DESIGN.md §8 for the order of work)"
