#!/venv/bin/python
"""Sensitivity runner: apply one textual mutation to a scratch copy of /repo/src and run a check against it.

usage: tools/sens.py <PID[,PID...]> <file under src/jinja2> <old> <new> [--tier quick] [--count N]
   or: tools/sens.py <PID[,PID...]> --patch <diff file>
The scratch copy lives under /tmp/vt-scratch-<pid> and is removed afterwards.  Evidence and found
files of the mutated run go to the scratch directory, never to /verif/evidence.
Prints: KILLED / SURVIVED per property with wall time and the first violation line.
"""
import os, shutil, subprocess, sys, time

def main():
    a = sys.argv[1:]
    pids = a[0].split(",")
    scratch = "/tmp/vt-scratch-%d" % os.getpid()
    shutil.rmtree(scratch, ignore_errors=True)
    shutil.copytree("/repo/src", scratch + "/src")
    try:
        if a[1] == "--patch":
            subprocess.check_call(["patch", "-p1", "-s", "-d", scratch, "-i", os.path.abspath(a[2])])
            rest = a[3:]
        else:
            path = os.path.join(scratch, "src/jinja2", a[1])
            s = open(path).read()
            cnt = s.count(a[2])
            want = 1
            rest = a[4:]
            if "--count" in rest:
                want = int(rest[rest.index("--count") + 1])
            if cnt != want:
                print("MUTATION-ERROR: %r occurs %d times in %s (want %d)" % (a[2], cnt, a[1], want)); return 2
            open(path, "w").write(s.replace(a[2], a[3]))
        tier = rest[rest.index("--tier") + 1] if "--tier" in rest else "quick"
        env = dict(os.environ, VERIF_REPO_SRC=scratch + "/src", VERIF_EVIDENCE_DIR=scratch + "/evidence", VERIF_FOUND_DIR=scratch + "/found", VERIF_STOP_ON_VIOLATION="1")
        env.pop("VT_REEXEC", None)
        rc = 0
        for pid in pids:
            t0 = time.time()
            p = subprocess.run(["/verif/check", pid, tier], env=env, capture_output=True, text=True)
            lines = [l for l in p.stdout.splitlines() if l.startswith("VIOLATION")]
            first = ""
            if lines:
                i = p.stdout.splitlines().index(lines[0])
                first = " | ".join(p.stdout.splitlines()[i:i + 2])[:400]
            status = {0: "SURVIVED", 1: "KILLED"}.get(p.returncode, "HARNESS-ERROR(%d)" % p.returncode)
            print("%s %s %.1fs %s" % (pid, status, time.time() - t0, first))
            if p.returncode not in (0, 1):
                print(p.stderr[-1500:])
            if p.returncode != 1:
                rc = 1
        return rc
    finally:
        shutil.rmtree(scratch, ignore_errors=True)

sys.exit(main())
