"""Whitespace reference model for template skeletons (C11 C12 C13 C39; DESIGN.md §3.5).

Written from docs/templates.rst "Whitespace Control" / "Line Statements" and the Environment
docstring; it does not import jinja2.

A *concrete skeleton* is a JSON list of segments

    ["text", s]
    ["var", l, r, expr, value]          l, r in {"", "-"};  expr includes its own padding
    ["block", l, r, stmt]               l, r in {"", "-", "+"}; stmt renders nothing
    ["comment", l, r, body]
    ["raw", bl, br, body, el, er, [p0, p1, p2, p3]]    br in {"", "-"}; pads inside the two tags
    ["ls", indent, stmt]                line statement (indent of spaces/tabs, stands at a line start,
                                        followed by a line break or the end of the source)
    ["lc", hws, body]                   line comment (hws = horizontal whitespace before the prefix;
                                        stands at a line start or directly after non-whitespace)

``analyse(sk, pr, trim, lstrip, ktn)`` takes a *printer* ``pr(seg) -> str`` (``(begin, end)`` for
raw segments) that spells a non-text segment under some delimiter configuration and returns

    S        the source after line-break normalisation and trailing-newline removal
    out      output pieces [("t", text with "\n" line breaks) | ("v", value)]
    spans    the [start, end) offsets in S of whitespace removed on the LEFT side of tags
             (right-side removals lie inside the end-tag tokens; C39)
    effects  set of labels: which rules removed / pointedly kept something
    ambiguous  True when the prediction rests on a point the documentation leaves open (lstrip_blocks
             before a tag preceded, on its line, by whitespace other than spaces and tabs); callers
             skip the comparison for that configuration and count it

The rules (one per documented sentence):
  * line breaks are \r\n, \r, \n; one trailing line break is dropped unless keep_trailing_newline;
  * "-" on a side removes all whitespace adjacent on that side;
  * trim_blocks removes the first newline after a block / comment / endraw tag ("+" disables);
  * lstrip_blocks removes whitespace between the start of a line and a block / comment / raw tag when
    nothing else is on the line before the tag ("+" disables); variable tags are never affected;
  * a raw body is verbatim apart from the effect of its own tags' modifiers;
  * a line statement removes its whole line including the line break; a line comment removes
    everything from the horizontal whitespace before its prefix to the end of the line, excluding
    the line break;
  * finally every "\n" of template data becomes newline_sequence; variable values are not touched.
"""

NL_SEQS = ("\n", "\r\n", "\r")


class Decline(Exception):
    """The skeleton violates a precondition of the model (generator bug or ambiguous input)."""


def norm(s):
    return s.replace("\r\n", "\n").replace("\r", "\n")


def strip_all_ws(s):
    return "".join(s.split())


class _Tag:
    __slots__ = ("kind", "left", "right", "s", "value", "auto_left", "auto_right")

    def __init__(self, kind, left, right, s, value=None, auto_left=False, auto_right=False):
        self.kind, self.left, self.right, self.s, self.value = kind, left, right, s, value
        self.auto_left, self.auto_right = auto_left, auto_right


def _parts(sk, pr):
    """-> alternating list  text, tag, text, tag, ..., text  (texts are normalised str)."""
    flat = []
    for seg in sk:
        k = seg[0]
        if k == "text":
            flat.append(seg[1])
        elif k == "var":
            flat.append(_Tag("var", seg[1], seg[2], norm(pr(seg)), value=seg[4]))
        elif k == "block":
            flat.append(_Tag("block", seg[1], seg[2], norm(pr(seg)), auto_left=True, auto_right=True))
        elif k == "comment":
            flat.append(_Tag("comment", seg[1], seg[2], norm(pr(seg)), auto_left=True, auto_right=True))
        elif k == "raw":
            b, e = pr(seg)
            # the begin tag is never trimmed on its right (the body stays verbatim)
            flat.append(_Tag("rawbegin", seg[1], seg[2], norm(b), auto_left=True, auto_right=False))
            flat.append(("rawbody", seg[3]))
            flat.append(_Tag("rawend", seg[4], seg[5], norm(e), auto_left=True, auto_right=True))
        elif k == "ls":
            flat.append(_Tag("ls", "ls", "ls", norm(pr(seg))))
        elif k == "lc":
            flat.append(_Tag("lc", "lc", "", norm(pr(seg))))
        else:
            raise Decline("unknown segment kind %r" % (k,))
    # merge adjacent texts BEFORE normalising ("\r" + "\n" is one line break)
    seq = []
    cur = None
    for x in flat:
        if isinstance(x, _Tag):
            seq.append(norm(cur) if cur is not None else "")
            seq.append(x)
            cur = None
        elif isinstance(x, tuple):  # raw body: stands between its two tags, never merged
            if cur is not None:
                raise Decline("raw body not directly after its begin tag")
            cur = x[1]
        else:
            cur = x if cur is None else cur + x
    seq.append(norm(cur) if cur is not None else "")
    return seq


def _lstrip_line(text, line_starting):
    """lstrip_blocks: whitespace between the start of the line and the tag; -> kept length."""
    l_pos = text.rfind("\n") + 1
    tail = text[l_pos:]
    if tail == "":
        return len(text), "none"
    if tail.strip() != "":
        return len(text), "blocked"  # other characters before the tag on this line
    if l_pos > 0 or line_starting:
        if tail.strip(" \t") != "":
            # docs/templates.rst speaks of "tabs and spaces"; the property statement of "whitespace":
            # a tail holding other whitespace characters is not decided by the documentation
            return l_pos, "ambiguous-ws"
        return l_pos, "removed"
    return len(text), "midline"  # whitespace only, but the line did not start here


class Analysis:
    __slots__ = ("S", "out", "spans", "effects", "ntags", "ambiguous")

    def rendered(self, newline_sequence):
        return "".join(p[1].replace("\n", newline_sequence) if p[0] == "t" else p[1] for p in self.out)


def analyse(sk, pr, trim=False, lstrip=False, ktn=False):
    seq = _parts(sk, pr)
    if not ktn and seq[-1].endswith("\n"):
        seq[-1] = seq[-1][:-1]
    out, spans, effects = [], [], set()
    pos = 0
    line_starting = True
    pending = None
    ntext = (len(seq) + 1) // 2
    for i in range(ntext):
        t = seq[2 * i]
        tag = seq[2 * i + 1] if 2 * i + 1 < len(seq) else None
        last = tag is None
        # --- right side of the previous tag acts on the head of this text
        k = 0
        if pending == "strip":
            k = len(t) - len(t.lstrip())
            line_starting = t[:k].endswith("\n")
            effects.add("right-:removed" if k else "right-:nothing")
        elif pending == "trim":
            if t.startswith("\n"):
                k, line_starting = 1, True
                effects.add("trim:removed")
            else:
                line_starting = False
                if t[:1].isspace():
                    effects.add("trim:kept-other-ws")
        elif pending == "plus":
            if t.startswith("\n"):
                effects.add("right+:kept-newline")
        elif pending == "ls":
            w = len(t) - len(t.lstrip())
            if w == len(t) and last:
                k = w
                line_starting = True
            else:
                idx = t.rfind("\n", 0, w)
                if idx < 0:
                    raise Decline("line statement not followed by a line break")
                k = idx + 1
                line_starting = True
                if idx > 0:
                    effects.add("ls:blank-lines")
        pending = None
        rest = t[k:]
        if last:
            out.append(("t", rest))
            pos += len(t)
            break
        # --- left side of this tag acts on the tail of the text
        keep = len(rest)
        if tag.left == "-":
            keep = len(rest.rstrip())
            effects.add("left-:removed" if keep < len(rest) else "left-:nothing")
            if "\n" in rest[keep:]:
                effects.add("left-:newlines")
        elif tag.left == "" and tag.auto_left:
            if lstrip:
                keep, why = _lstrip_line(rest, line_starting)
                effects.add("lstrip:" + why)
        elif tag.left == "+":
            if lstrip and _lstrip_line(rest, line_starting)[1] == "removed":
                effects.add("left+:kept")
        elif tag.left == "ls":
            if not (rest.endswith("\n") or (rest == "" and line_starting)):
                raise Decline("line statement not at a line start")
        elif tag.left == "lc":
            if not (rest.endswith("\n") or (rest == "" and (line_starting or (i > 0 and k == 0 and t == ""))) or (rest != "" and not rest[-1].isspace())):
                raise Decline("line comment neither at a line start nor after non-whitespace")
        elif tag.kind == "var" and lstrip and _lstrip_line(rest, line_starting)[1] == "removed":
            effects.add("var:untouched-by-lstrip")
        if keep < len(rest):
            spans.append((pos + k + keep, pos + len(t)))
        out.append(("t", rest[:keep]))
        pos += len(t) + len(tag.s)
        if tag.value is not None:
            out.append(("v", tag.value))
        line_starting = False
        if tag.right == "-":
            pending = "strip"
        elif tag.right == "" and tag.auto_right:
            pending = "trim" if trim else None
        elif tag.right == "+":
            pending = "plus" if trim else None
        elif tag.right == "ls":
            pending = "ls"
        elif tag.kind == "var" and trim and seq[2 * i + 2].startswith("\n"):
            effects.add("var:untouched-by-trim")
    a = Analysis()
    a.S = "".join(x if isinstance(x, str) else x.s for x in seq)
    a.out, a.spans, a.effects = out, spans, effects
    a.ntags = sum(1 for x in seq if not isinstance(x, str))
    a.ambiguous = "lstrip:ambiguous-ws" in effects
    if pos != len(a.S):
        raise Decline("offset bookkeeping error")
    return a


def render(sk, pr, trim=False, lstrip=False, newline_sequence="\n", ktn=False):
    return analyse(sk, pr, trim, lstrip, ktn).rendered(newline_sequence)


def untrimmed(sk):
    """Concatenation of text, raw bodies and variable values with no trimming at all (for the
    'non-whitespace is never removed' invariant)."""
    res = []
    for seg in sk:
        if seg[0] == "text":
            res.append(seg[1])
        elif seg[0] == "var":
            res.append(seg[4])
        elif seg[0] == "raw":
            res.append(seg[3])
    return "".join(res)


def plain_text(src, newline_sequence="\n", ktn=False):
    """C11 round trip for a source without any delimiter: written independently of analyse()."""
    lines = []
    cur = []
    i, n = 0, len(src)
    while i < n:
        c = src[i]
        if c == "\r":
            lines.append("".join(cur))
            cur = []
            if i + 1 < n and src[i + 1] == "\n":
                i += 1
        elif c == "\n":
            lines.append("".join(cur))
            cur = []
        else:
            cur.append(c)
        i += 1
    lines.append("".join(cur))
    if not ktn and len(lines) > 1 and lines[-1] == "":
        lines.pop()
    return newline_sequence.join(lines)


def walk_tokens(S, spans, tokens):
    """C39: place the raw tokens (lineno, type, value) on S, skipping exactly ``spans``.
    -> (list of (lineno, type, value, start), None) or (None, message)."""
    starts = {a: b for a, b in spans}
    pos = 0
    res = []
    for lineno, typ, val in tokens:
        while val != "" and pos in starts:  # an empty token (linecomment_end) stands where the previous token ended
            pos = starts.pop(pos)
        if not S.startswith(val, pos):
            return None, "token %s %r does not continue the source at offset %d (source there: %r)" % (typ, val, pos, S[pos:pos + 30])
        res.append((lineno, typ, val, pos))
        pos += len(val)
    while pos in starts:
        pos = starts.pop(pos)
    if pos != len(S):
        return None, "tokens end at offset %d, source has %d characters (rest %r)" % (pos, len(S), S[pos:pos + 30])
    if starts:
        return None, "whitespace the model removes was kept by the lexer: spans %r" % (sorted(starts.items()),)
    return res, None
