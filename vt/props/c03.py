"""C03 - statements and variable scoping follow Jinja's scoping rules.

Case: {"kind": "gen"|"alias", "prog": G-stmt program, "data": [render data dict, ...],
       "rename": {identifier: replacement} | None, "baseline": bool (default true)}

Three oracles on every case, in the four environments default / enable_async / SandboxedEnvironment /
optimized=False (loopcontrols extension enabled):
  1. reference interpreter (vt/ref/interp.py, chain of scopes) on every (program, data) it decides;
  2. alpha-renaming: the consistently renamed program rendered on the renamed data prints the same text
     (identifier classes of vt/gen/stmt.py IDENT_CLASSES; NFKC-stable identifiers only, F1 is a known finding);
  3. non-aliasing ("alias" cases): small two-identifier programs, the two identifiers replaced by every ordered
     pair of the identifier pools, must print the reference output -- i.e. no spelling makes two distinct
     identifiers share a variable;
plus the differential between the four environments (also on cases the interpreter declines).
"""
import copy
import os

from vt import core
from vt.gen import stmt as G
from vt.ref import interp as I

PID = "C03"
LEVEL = "exploration"
RULE = (
    "Hypothesis-generated statement programs (text, output, if/elif/else, for with else/filter/recursive/tuple targets, "
"break/continue, set, tuple set, block set, namespace create/assign, with, macro with defaults (also defaults naming their "
    "own / a later parameter), macro bodies reading varargs / kwargs with calls passing surplus arguments, call blocks, filter blocks) "
    "over a shared pool of 6 variable, 4 macro and 2 namespace names; half of the programs depth<=4 / <=25 statements, the "
    "other half depth<=5 / <=40 (quick) or depth<=6 / <=60 (thorough); each rendered on 3 data dicts in 4 environments against the reference interpreter, and re-rendered after a "
    "random bijective renaming into ASCII / Python-keyword / generated-code-like / dunder / NFKC-stable Unicode identifiers; "
    "plus enumerated two-identifier programs x ordered identifier pairs (non-aliasing). Non-trivial = during reference "
    "execution a name assigned in an ended child scope is read outside (leak_probe), a name is read before its scope's own "
    "write, a macro/call body reads an enclosing variable assigned after the definition (late_closure), a conditionally "
    "assigned name is read (cond_store) or an outer binding is shadowed (shadow); alias cases: the two identifiers differ."
)
ASSUMPTIONS = [
    "the reference interpreter (docs/templates.rst scoping rules; Python operator semantics for values) is right",
    "a macro default that names its own or a later unbound parameter may read undefined or the enclosing variable (both "
    "accepted, nothing else)",
    "declined, not judged by the reference (still checked by renaming + cross-environment agreement): a read from a nested "
    "scope of a name that an enclosing template scope assigns unconditionally only later while an outer binding exists; "
    "caller / varargs / kwargs mentioned only in a nested macro; repr of undefined inside containers",
    "not generated (undocumented outcomes): break/continue inside buffering blocks, loop else branches or across macros; "
    "filter-block arguments that read variables; loop filters that can raise or read namespaces; loop.* / caller across "
    "macro and call-block boundaries; macros stored in namespaces",
    "known findings excluded by construction: identifiers that are not NFKC-stable (F1); reads from a nested scope of a "
    "name an enclosing scope assigns only later while an outer binding exists (F38, = the declined class above)",
    "errors are compared by family: UndefinedError / TypeError / ValueError / other TemplateRuntimeError",
]

ENV_NAMES = ("default", "async", "sandbox", "unoptimized")
NT_LABELS = ("leak_probe", "read_before_write", "read_before_outer_write", "late_closure", "cond_store", "shadow")

_state = {}


def _setup():
    if _state:
        return _state
    import jinja2
    from jinja2 import Environment
    from jinja2.sandbox import SandboxedEnvironment, SecurityError

    ext = ["jinja2.ext.loopcontrols"]
    envs = {
        "default": Environment(extensions=ext),
        "async": Environment(extensions=ext, enable_async=True),
        "sandbox": SandboxedEnvironment(extensions=ext),
        "unoptimized": Environment(extensions=ext, optimized=False),
    }
    _state.update(envs=envs, UndefinedError=jinja2.UndefinedError, TemplateRuntimeError=jinja2.TemplateRuntimeError,
                  SecurityError=SecurityError)
    return _state


def _render(tmpl, data):
    """-> ("ok", text) | ("error", family).  Anything else escapes (= violation)."""
    st = _state
    try:
        return ("ok", tmpl.render(copy.deepcopy(data)))
    except st["SecurityError"]:
        raise
    except st["UndefinedError"]:
        return ("error", "undefined")
    except st["TemplateRuntimeError"]:
        return ("error", "runtime")
    except TypeError:
        return ("error", "type")
    except ValueError:
        return ("error", "value")


def _unstable(rename):
    return [v for v in (rename or {}).values() if not G.nfkc_stable(v)]


def _rec_target_reassigned(prog):
    """A recursive loop whose body reassigns the name handed to loop(...): termination is not guaranteed."""

    def assigns(body, name):
        for s in body:
            k = s[0]
            if (k == "set" and name in s[1]) or (k == "setblock" and s[1] == name) or (k == "with" and name in [n for n, _ in s[1]]):
                return True
            for kind, b in G.sub_bodies(s):
                if kind in ("if", "with", "filter", "setblock", "autoescape") and assigns(b, name):
                    return True
        return False

    return any(s[0] == "for" and s[6] and assigns(s[3], s[1][0]) for s in G.walk(prog))


def _check(case, allow_known=False):
    st = _setup()
    prog, datas, rename = case["prog"], case["data"], case.get("rename") or None
    baseline = case.get("baseline", True) or not rename
    kind = case.get("kind", "gen")
    if not allow_known:
        if _unstable(rename):
            raise core.Excluded()  # F1
    src = G.print_program(prog)
    rsrc = G.print_program(prog, rename) if rename else None
    exp = [I.interpret_ex(prog, d, guard=not allow_known, param_mode="undefined") for d in datas]
    # A macro default that names its own / a later unbound parameter: the documentation allows two readings (an
    # undefined value, or the enclosing variable); both are computed and the rendering must match one of them.
    allowed = [None] * len(datas)
    for i, (r, d) in enumerate(zip(exp, datas)):
        if r.param_amb:
            alt = I.interpret_ex(prog, d, guard=not allow_known, param_mode="outer")
            if r.kind == "declined":
                pass
            elif alt.kind == "declined":
                exp[i] = alt
            elif (alt.kind, alt.value) != (r.kind, r.value):
                allowed[i] = {(r.kind, r.value), (alt.kind, alt.value)}
                r.labels.add("param_two_readings")
            r.labels.add("param_default_self")
    if any(r.kind == "declined" and r.value != "Ambiguous" for r in exp):
        raise core.Discard()  # budget / unsupported: nothing is run
    for r, d in zip(exp, datas):
        # resource probe for data the guard declined: the same run without the guard must stay inside the budget
        if r.kind == "declined" and not allow_known:
            probe = I.interpret_ex(prog, d, guard=False)
            if probe.kind == "declined" and probe.value != "Ambiguous":
                raise core.Discard()
    if any(r.kind == "declined" for r in exp) and _rec_target_reassigned(prog):
        # the reference stopped at the ambiguity guard before it could bound the recursion of loop(x) with a
        # reassigned x; such programs are not generated, and a hand-written one is not rendered
        raise core.Discard()
    labels = set()
    for r in exp:
        labels.update(r.labels)
        labels.add("ref_" + r.kind)
    # Every environment renders the original and/or the renamed program; all of them must print the same thing:
    # the reference output when the interpreter decides the data, else whatever the first rendering printed.
    # The default environment renders both spellings, the other three alternate (a pure function of the case).
    want = [(r.kind, r.value) if (r.kind != "declined" and allowed[i] is None) else None for i, r in enumerate(exp)]
    origin = ["the reference interpreter expects"] * len(datas)
    flip = len(src) % 2
    for k, en in enumerate(ENV_NAMES):
        env = st["envs"][en]
        variants = []
        if baseline and (k == 0 or not rename or (k + flip) % 2 == 0):
            variants.append(("original", src, None))
        if rename and (k == 0 or not baseline or (k + flip) % 2 == 1):
            variants.append(("renamed", rsrc, rename))
        for vname, vsrc, vren in variants:
            t = env.from_string(vsrc)
            for i, d in enumerate(datas):
                g = _render(t, G.rename_data(d, vren) if vren else d)
                if want[i] is None:
                    if allowed[i] is not None and g not in allowed[i]:
                        raise core.Violation(
                            "the reference interpreter allows %r (a parameter default naming an unbound parameter reads "
                            "undefined or the enclosing variable), the %s program in the %s environment gives %r\n original: %s\n data: %r"
                            % (sorted(allowed[i]), vname, en, g, src, datas[i]), env=en, variant=vname)
                    want[i] = g
                    origin[i] = "the %s program in the %s environment gives" % (vname, en)
                elif g != want[i]:
                    raise core.Violation(
                        "%s %r, the %s program in the %s environment gives %r\n original: %s\n%s data: %r"
                        % (origin[i], want[i], vname, en, g, src,
                           " renamed:  %s\n rename: %r\n" % (rsrc, rename) if vren else "", datas[i]), env=en, variant=vname)
    if rename:
        for v in rename.values():
            labels.add("rn_" + G.IDENT_CLASS_OF.get(v, "own"))
    for s in G.walk(prog):
        labels.add("s_" + s[0])
        if s[0] == "macro":
            va, kw = G._uses_special(s[4], "varargs"), G._uses_special(s[4], "kwargs")
            if va or kw:
                labels.add("macro_special_both" if va and kw else "macro_special_one")
        if s[0] == "for":
            if s[6]:
                labels.add("s_for_recursive")
            if s[5] is not None:
                labels.add("s_for_filter")
            if s[4] is not None:
                labels.add("s_for_else")
            if len(s[1]) > 1:
                labels.add("s_for_tuple")
    labels.add("kind_" + kind)
    if all(r.kind == "declined" for r in exp):
        raise core.Discard()
    if any(r.kind == "declined" for r in exp):
        labels.add("partly_declined")
    if kind == "alias":
        # the distribution floors are about the generated programs: alias cases only report their own classes
        labels = {l for l in labels if l.startswith(("rn_", "ref_", "kind_", "partly_"))}
        nt = len(set((rename or {}).values())) > 1
    else:
        nt = any(l in labels for l in NT_LABELS)
        if nt:
            labels.add("nontrivial")
    return core.Outcome(nt, sorted(labels))


def check_case(case):
    return _check(case)


def check_known(entry):
    """Known findings are replayed without the by-construction exclusions (NFKC-unstable identifiers allowed, the
    interpreter's ambiguity guard off: F38 is exactly the class the guard declines)."""
    return _check(entry["case"], allow_known=True)


# ---------------------------------------------------------------------------------------------------------
# non-aliasing: enumerated two-identifier programs


def _n(x):
    return ["name", x]


ALIAS_SHAPES = [
    # (program, data, the two identifiers of the program that are replaced)
    ([["out", _n("a")], ["text", "|"], ["out", _n("b")]], {"a": "A", "b": "B"}, ("a", "b")),
    ([["set", ["a"], [["str", "X"]]], ["out", _n("a")], ["text", "|"], ["out", _n("b")]], {"a": "A", "b": "B"}, ("a", "b")),
    ([["for", ["a"], ["list", [["int", 1], ["int", 2]]], [["out", _n("a")], ["out", _n("b")]], None, None, False], ["out", _n("a")]],
     {"a": "A", "b": "B"}, ("a", "b")),
    ([["macro", "m0", ["a"], [], [["out", _n("a")], ["out", _n("b")]]], ["out", ["call", "m0", [["str", "P"]], []]],
      ["out", ["call", "m0", [], [["a", ["str", "Q"]]]]], ["out", _n("a")]], {"a": "A", "b": "B"}, ("a", "b")),
    ([["with", [["a", ["str", "W"]]], [["out", _n("a")], ["out", _n("b")], ["set", ["b"], [["str", "V"]]], ["out", _n("b")]]],
      ["out", _n("a")], ["out", _n("b")]], {"a": "A", "b": "B"}, ("a", "b")),
    ([["for", ["a"], ["list", [["int", 1]]], [["for", ["b"], ["list", [["int", 2]]], [["out", _n("a")], ["out", _n("b")]], None, None, False],
                                             ["out", _n("b")]], None, None, False]], {"b": "B"}, ("a", "b")),
    ([["set", ["a", "b"], [_n("b"), _n("a")]], ["out", _n("a")], ["out", _n("b")]], {"a": "A", "b": "B"}, ("a", "b")),
    ([["setblock", "a", None, [["text", "S"], ["out", _n("b")]]], ["out", _n("a")],
      ["if", [[["and", ["defined", "a", False], ["defined", "b", False]], [["text", "D"]]]], [["text", "U"]]]], {"b": "B"}, ("a", "b")),
    ([["macro", "m0", ["b"], [], [["out", _n("b")]]], ["out", ["call", "m0", [["int", 1]], []]], ["out", _n("b")]], {"b": "B"}, ("m0", "b")),
    ([["nsnew", "ns", [["u", ["int", 1]]]], ["nsset", "ns", "u", _n("a")], ["out", ["nsattr", "ns", "u"]], ["out", ["defined", "a", False]]],
     {"a": "A"}, ("ns", "a")),
    ([["macro", "m0", [], [], [["out", _n("a")]]], ["for", ["a"], ["list", [["int", 7]]], [["out", ["call", "m0", [], []]]], None, None, False],
      ["macro", "m1", [], [], [["out", _n("b")]]], ["out", ["call", "m1", [], []]]], {"a": "A", "b": "B"}, ("a", "b")),
    ([["for", ["a"], _n("b"), [["if", [[["cmp", "==", _n("a"), ["int", 1]], [["set", ["b"], [["str", "L"]]]]]], None], ["out", _n("b")]],
       [["out", _n("a")]], None, False], ["out", _n("b")]], {"a": "A", "b": [1, 2]}, ("a", "b")),
]
ALIAS_IDENTS = G.ALL_IDENTS + ["a", "b", "m0", "ns", "u"]


def alias_cases(all_shapes):
    n = len(ALIAS_SHAPES)
    for i, x in enumerate(ALIAS_IDENTS):
        for j, y in enumerate(ALIAS_IDENTS):
            if x == y:
                continue
            shapes = range(n) if all_shapes else [(i * 5 + j) % n]
            for k in shapes:
                prog, data, (k1, k2) = ALIAS_SHAPES[k]
                others = [q for q in G.identifiers(prog) if q not in (k1, k2)]
                if x in others or y in others:
                    continue  # would collide with an identifier that keeps its name
                yield {"kind": "alias", "prog": prog, "data": [data], "rename": {k1: x, k2: y}, "baseline": False}


# ---------------------------------------------------------------------------------------------------------
# generated programs


def case_strategy(max_depth, max_nodes):
    from hypothesis import strategies as st

    @st.composite
    def cases(draw):
        prog = draw(G.programs(max_depth, max_nodes, extras=True))
        datas = draw(G.datas(3))
        keys = sorted({k for d in datas for k in d})
        rename = draw(G.renamings(prog, extra=keys))
        return {"kind": "gen", "prog": prog, "data": datas, "rename": rename}

    return cases()


N_SHARDS = 16
# development knob (sensitivity runs on a loaded machine); 1 in every registered run
_SCALE = float(os.environ.get("VERIF_SCALE", "1"))


def shards(tier):
    return [{"i": i} for i in range(N_SHARDS)]


def run_shard(spec, ctx):
    rec = core.Rec()
    core.enum_shard(core.sliced(alias_cases(all_shapes=not ctx.quick), ctx.index, ctx.nshards), check_case, ctx, rec=rec)
    if rec.violations:
        return rec
    n = max(16, int(ctx.pick(640, 7500) * _SCALE))
    small = n // 2
    core.hyp_shard(case_strategy(4, 25), check_case, ctx, small, rec=rec, tag="small")
    if rec.violations:
        return rec
    d, k = ctx.pick((5, 40), (6, 60))
    core.hyp_shard(case_strategy(d, k), check_case, ctx, n - small, rec=rec, tag="large")
    return rec


def floors(total, tier):
    lab = total.labels
    gen = lab.get("kind_gen", 0)
    if gen == 0:
        return "no generated programs"
    msgs = []
    for name, lo in (("leak_probe", 0.05), ("read_before_write", 0.05), ("late_closure", 0.05), ("cond_store", 0.05),
                     ("shadow", 0.05), ("nontrivial", 0.5), ("macro_special_both", 0.02), ("param_default_self", 0.01)):
        if lab.get(name, 0) < lo * gen:
            msgs.append("%s %d/%d < %d%%" % (name, lab.get(name, 0), gen, lo * 100))
    if total.discarded > 0.15 * total.evaluations:
        msgs.append("discarded %d of %d > 15%%" % (total.discarded, total.evaluations))
    for cls in G.IDENT_CLASSES:
        if lab.get("rn_" + cls, 0) < 0.05 * gen:
            msgs.append("identifier class %s under 5%%" % cls)
    return "; ".join(msgs) or None
