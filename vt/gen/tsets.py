"""G-inherit and G-modules: template *sets* as JSON IR, a printer, Hypothesis strategies (DESIGN.md 3.3 / 3.4).

Stable public API (reused by C04 C05 and later C09 C10 C15 C16 C31 C32)
------------------------------------------------------------------------
``hierarchies(max_depth=3, max_blocks=4, size=3)``   strategy -> {"ir": ir, "data": data}   (kind "inherit")
``module_sets(max_libs=3, size=3)``                  strategy -> {"ir": ir, "data": data}   (kind "modules")
``print_set(ir) -> dict[str, str]``                  template name -> Jinja source, ready for a ``DictLoader``
``resolve(ir, data) -> {entry: {"out": text} | {"err": family}}``   expected result of rendering every
    entry of ``ir["entries"]`` with ``data`` (re-exported from ``vt.ref.resolve``; raises
    ``Ambiguous`` for cases the documentation does not decide -> count them as discarded)
``module_exports(ir, name, data)``                   expected public attributes of ``make_module(data)``
``make_env(ir, enable_async=False, **options)``      Environment with DictLoader(print_set(ir)) + ir["globals"]
``validate(ir)``                                     generator invariant check (message or None)
``decode_data(env, data)``                           JSON data -> render arguments ({"$": "template"} -> Template)
``render_entry(env, name, data, loop=None)``         renders through render / render_async

The IR is documented in ``vt/ref/resolve.py``.  ``ir`` = {"kind", "templates": {name: [nodes]},
"entries": [...], "globals": {...}, "modules": [...]}.  All text atoms avoid delimiter characters
and line breaks (whitespace handling is C11/C12's business), so the printed source renders the same
under every whitespace option.

Shapes deliberately never generated (see notes in the property modules): multi-level ``required``
and ``required`` placements that may never be reached, macro bodies in hierarchies that read free
variables, ``from x import _private`` (compile error), blocks before ``extends``.
"""
from __future__ import annotations

from hypothesis import strategies as st

from vt.ref.resolve import Ambiguous, module_exports, resolve, resolve_with_events  # noqa: F401  (re-export)

# ---------------------------------------------------------------------------------------
# printer


def _const(v):
    if isinstance(v, bool):
        return "true" if v else "false"
    if v is None:
        return "none"
    if isinstance(v, int):
        return str(v)
    if isinstance(v, str):
        if "'" in v or "\\" in v or "\n" in v:
            raise ValueError("string constant outside the printable alphabet: %r" % v)
        return "'" + v + "'"
    raise ValueError("unprintable constant %r" % (v,))


def print_expr(e):
    k = e[0]
    if k == "c":
        return _const(e[1])
    if k == "n":
        return e[1]
    if k == "cat":
        return "(%s ~ %s)" % (print_expr(e[1]), print_expr(e[2]))
    if k == "add":
        return "(%s + %s)" % (print_expr(e[1]), print_expr(e[2]))
    if k == "cond":
        return "(%s if %s else %s)" % (print_expr(e[2]), print_expr(e[1]), print_expr(e[3]))
    if k == "not":
        return "(not %s)" % print_expr(e[1])
    if k == "defd":
        return "(%s is defined)" % print_expr(e[1])
    if k == "call":
        return "%s(%s)" % (e[1], ", ".join(print_expr(a) for a in e[2]))
    if k == "attr":
        return "%s.%s" % (e[1], e[2])
    if k == "mcall":
        return "%s.%s(%s)" % (e[1], e[2], ", ".join(print_expr(a) for a in e[3]))
    if k == "super":
        return "super" + ".super" * (e[1] - 1) + "()"
    if k == "self":
        return "self.%s()" % e[1]
    if k == "loopidx":
        return "loop.index"
    if k == "caller":
        return "caller()"
    raise ValueError("unknown expression %r" % (e,))


def _target(t):
    if t[0] == "names":
        return "[%s]" % ", ".join(print_expr(e) for e in t[1])
    return print_expr(t)


def _ctxflag(c):
    return "" if c is None else (" with context" if c else " without context")


def print_body(nodes):
    return "".join(print_stmt(n) for n in nodes)


def print_stmt(n):
    k = n[0]
    if k == "text":
        return n[1]
    if k == "comment":
        return "{# %s #}" % n[1]
    if k == "out":
        return "{{ %s }}" % print_expr(n[1])
    if k == "probe":
        return "".join("%s={{ %s is defined }}:{{ %s }};" % (x, x, x) for x in n[1])
    if k == "set":
        return "{%% set %s = %s %%}" % (n[1], print_expr(n[2]))
    if k == "setmulti":
        return "{%% set %s = %s %%}" % (", ".join(n[1]), ", ".join(print_expr(e) for e in n[2]))
    if k == "setblock":
        return "{%% set %s %%}%s{%% endset %%}" % (n[1], print_body(n[2]))
    if k == "if":
        s = "{%% if %s %%}%s" % (print_expr(n[1]), print_body(n[2]))
        if n[3]:
            s += "{% else %}" + print_body(n[3])
        return s + "{% endif %}"
    if k == "for":
        return "{%% for %s in [%s] %%}%s{%% endfor %%}" % (n[1], ", ".join(_const(c) for c in n[2]), print_body(n[3]))
    if k == "with":
        return "{%% with %s = %s %%}%s{%% endwith %%}" % (n[1], print_expr(n[2]), print_body(n[3]))
    if k == "macro":
        return "{%% macro %s(%s) %%}%s{%% endmacro %%}" % (n[1], ", ".join(n[2]), print_body(n[3]))
    if k == "block":
        fl = n[2]
        mods = (" scoped" if fl.get("scoped") else "") + (" required" if fl.get("required") else "")
        end = " " + n[1] if fl.get("endname") else ""
        return "{%% block %s%s %%}%s{%% endblock%s %%}" % (n[1], mods, print_body(n[3]), end)
    if k == "autoescape":
        return "{%% autoescape %s %%}%s{%% endautoescape %%}" % ("true" if n[1] else "false", print_body(n[2]))
    if k == "callblock":
        return "{%% call %s(%s) %%}%s{%% endcall %%}" % (n[1], ", ".join(print_expr(a) for a in n[2]), print_body(n[3]))
    if k == "filter":
        f = {"upper": "upper", "default_D": "default('D', true)"}[n[1]]
        return "{%% filter %s %%}%s{%% endfilter %%}" % (f, print_body(n[2]))
    if k == "extends":
        return "{%% extends %s %%}" % print_expr(n[1])
    if k == "include":
        o = n[2]
        return "{%% include %s%s%s %%}" % (_target(n[1]), " ignore missing" if o.get("im") else "", _ctxflag(o.get("ctx")))
    if k == "import":
        return "{%% import %s as %s%s %%}" % (_target(n[1]), n[2], _ctxflag(n[3]))
    if k == "from":
        names = ", ".join(a if b is None else "%s as %s" % (a, b) for a, b in n[2])
        return "{%% from %s import %s%s %%}" % (_target(n[1]), names, _ctxflag(n[3]))
    raise ValueError("unknown statement %r" % (n,))


def validate(ir):
    """Static well-formedness the generators guarantee (a failure is a generator bug, not a finding):
    every block name at most once per template.  -> error message or None"""
    def walk(body, seen, tname):
        for n in body:
            k = n[0]
            if k == "block":
                if n[1] in seen:
                    return "block %r defined twice in %s" % (n[1], tname)
                seen.add(n[1])
                r = walk(n[3], seen, tname)
            elif k == "if":
                r = walk(n[2], seen, tname) or walk(n[3], seen, tname)
            elif k in ("for", "with", "macro", "callblock"):
                r = walk(n[3], seen, tname)
            elif k in ("setblock", "filter", "autoescape"):
                r = walk(n[2], seen, tname)
            else:
                r = None
            if r:
                return r
        return None

    for tname, body in ir["templates"].items():
        if isinstance(body, list):
            msg = walk(body, set(), tname)
            if msg:
                return msg
    return None


def print_set(ir):
    """IR -> {template name: source} for a DictLoader."""
    out = {}
    for name, body in ir["templates"].items():
        out[name] = body["broken"] if isinstance(body, dict) else print_body(body)
    return out


# ---------------------------------------------------------------------------------------
# environment helpers (the only place of this module that touches jinja2)


def make_env(ir, enable_async=False, **options):
    import jinja2

    ae = ir.get("autoescape") or False
    if isinstance(ae, dict):
        on = frozenset(ae["on_for"])
        ae = lambda name: name in on  # noqa: E731  - autoescape decided per template name
    options.setdefault("autoescape", ae)
    env = jinja2.Environment(loader=jinja2.DictLoader(print_set(ir)), enable_async=enable_async, **options)
    for k, v in (ir.get("globals") or {}).items():
        env.globals[k] = v
    return env


def decode_data(env, data):
    def dec(v):
        if isinstance(v, dict) and v.get("$") == "template":
            return env.get_template(v["name"])
        if isinstance(v, list):
            return [dec(x) for x in v]
        return v

    return {k: dec(v) for k, v in data.items()}


def render_entry(env, name, data, loop=None, tglobals=None):
    """Render template ``name`` of ``env`` with JSON ``data``; async environments go through
    render_async on ``loop`` (an asyncio loop owned by the caller).  ``tglobals`` = template-level
    globals the entry is loaded with (``ir["tglobals"].get(name)``)."""
    args = decode_data(env, data)
    t = env.get_template(name, globals=dict(tglobals) if tglobals else None)
    if env.is_async:
        return loop.run_until_complete(t.render_async(args))
    return t.render(args)


# ---------------------------------------------------------------------------------------
# shared atoms

_TEXT = st.sampled_from(["A", "b", "cd", "-", " ", ".", "E f", "&", "<", "0", "_g", "hh ", ":", "}", ">", "=", "/"])
_WORD = st.sampled_from(["X", "yy", "Zed", "<q>", "7", "a b", "", "a&b"])


def _weighted(draw, pairs):
    """pairs: [(weight int, key)] -> key"""
    total = sum(w for w, _ in pairs)
    r = draw(st.integers(0, total - 1))
    for w, key in pairs:
        if r < w:
            return key
        r -= w
    raise AssertionError


# ---------------------------------------------------------------------------------------
# G-inherit

_HVARS = ["x", "y", "i", "j", "v", "w"]


class _HGen:
    """Builds one hierarchy root-first, so that every definition knows the stack below it."""

    def __init__(self, draw, nblocks, size):
        self.draw = draw
        self.names = ["b%d" % i for i in range(nblocks)]
        self.size = size
        self.below = {}  # block name -> list of flags dicts of definitions in lower templates (root first)
        self.scoped_names = set()
        self.loop_names = set()  # blocks placed inside a loop (scoped or not): their bodies mostly read loop names
        self.macros = []  # macro names defined at top level of lower templates
        self.used = set()  # block names defined in the template being built
        self.cur_macros = []
        self.uses_inc = False
        self.has_mc = False
        self.rootlike = True  # the template being built can be the root of the hierarchy (t0, or if-wrapped extends)

    # -- small pieces
    def var(self, loopy=False):
        if loopy:
            return _weighted(self.draw, [(4, "i"), (2, "j"), (2, "x"), (1, "y"), (2, "v"), (1, "w")])
        return _weighted(self.draw, [(4, "x"), (2, "y"), (2, "i"), (1, "j"), (3, "v"), (1, "w")])

    def text(self):
        return ["text", self.draw(_TEXT)]

    def const_expr(self):
        return ["c", self.draw(_WORD)]

    def value_expr(self):
        k = _weighted(self.draw, [(3, "c"), (2, "n"), (2, "cat")])
        if k == "c":
            return self.const_expr()
        if k == "n":
            return ["n", self.var()]
        return ["cat", self.const_expr(), ["n", self.var()]]

    def free_names(self, above):
        return [n for i, n in enumerate(self.names) if i > above and n not in self.used]

    # -- block definitions
    def block_node(self, name, lvl, depth, in_loop, force_plain=False):
        force_plain = force_plain or depth > 0
        """A block tag for ``name`` placed in the template being built."""
        d = self.draw
        self.used.add(name)
        idx = self.names.index(name)
        below = self.below.get(name, [])
        scoped = in_loop and d(st.integers(0, 9)) < 6
        # required only where the template can be the root (t0; a child whose extends is if-wrapped gets new
        # names only, so that the declaration stays the least-derived definition of its name)
        required = (not force_plain) and self.rootlike and not below and d(st.integers(0, 11 if lvl == 0 else 2)) == 0
        flags = {}
        if scoped:
            flags["scoped"] = True
            self.scoped_names.add(name)
        if d(st.integers(0, 5)) == 0:
            flags["endname"] = True
        if required:
            flags["required"] = True
            body = [["text", " "]] if d(st.booleans()) else ([["comment", "req"]] if d(st.booleans()) else [])
        else:
            body = self.block_body(name, idx, lvl, depth)
        return ["block", name, flags, body]

    def block_body(self, name, idx, lvl, depth):
        d = self.draw
        below = self.below.get(name, [])
        nbelow = len(below)
        loopy = name in self.scoped_names
        reads_loop = loopy or name in self.loop_names
        items = []
        refs0 = []
        if nbelow >= 1 and not below[-1].get("required"):
            refs0 += [["super", 1]] * 3
        if nbelow >= 2 and not below[-2].get("required"):
            refs0.append(["super", 2])
        if not loopy:
            refs0 += [["self", x] for i, x in enumerate(self.names) if i > idx and (x in self.below or x in self.used)]
        if refs0 and d(st.integers(0, 7)) == 0:
            # the block refers to super / self ONLY from inside the body of a call block (inherited content
            # wrapped by a macro); the wrapping macro is the template's `mc` or one defined in the block itself
            if not self.has_mc or d(st.integers(0, 3)) == 0:
                items.append(["macro", "mc", ["a"], [["text", "mc@b%d<" % lvl], ["out", ["caller"]], ["out", ["n", "a"]], ["text", ">"]]])
            inner = []
            for _ in range(d(st.integers(1, 3))):
                k = _weighted(d, [(5, "ref"), (2, "text"), (1, "out")])
                inner.append(["out", d(st.sampled_from(refs0))] if k == "ref" else self.text() if k == "text" else ["out", ["n", self.var(reads_loop)]])
            if not any(x[0] == "out" and x[1][0] in ("super", "self") for x in inner):
                inner.append(["out", refs0[0]])
            if d(st.booleans()):
                items.insert(0, self.text())
            items.append(["callblock", "mc", [self.const_expr()], inner])
            return items
        n = d(st.integers(0, self.size))
        for _ in range(n):
            choices = [(4, "text"), (4, "out")]
            if nbelow >= 1 and not below[-1].get("required"):
                choices.append((6, "super"))
            if nbelow >= 2 and not below[-2].get("required"):
                choices.append((4, "super2"))
            if nbelow == 0:
                choices.append((1, "super_missing"))
            later = [x for i, x in enumerate(self.names) if i > idx and (x in self.below or x in self.used)]
            if later and not loopy:
                choices.append((2, "self"))
            if depth < 2 and self.free_names(idx):
                choices.append((3, "nested"))
                choices.append((2, "loop"))
            choices.append((2, "set"))
            if self.macros or self.cur_macros:
                choices.append((2, "mcall"))
            if loopy:
                choices.append((5, "loopidx"))
            if self.has_mc:
                choices.append((1, "callfilter"))
            choices.append((3, "aesection"))
            if nbelow >= 1 and not below[-1].get("required"):
                choices.append((2, "superadd"))
            k = _weighted(d, choices)
            if k == "text":
                items.append(self.text())
            elif k == "out":
                items.append(["out", ["n", self.var(reads_loop)]])
            elif k == "super":
                items.append(["out", ["super", 1]])
            elif k == "super2":
                items.append(["out", ["super", 2]])
            elif k == "super_missing":
                # super() beyond the root: only an error when it is called; mostly keep it unreached
                if d(st.integers(0, 3)) == 0:
                    items.append(["out", ["super", 1]])
                else:
                    items.append(["if", ["c", False], [["out", ["super", 1]]], []])
            elif k == "self":
                items.append(["out", ["self", d(st.sampled_from(later))]])
            elif k == "nested":
                nm = d(st.sampled_from(self.free_names(idx)))
                items.append(self.block_node(nm, lvl, depth + 1, in_loop=False, force_plain=True))
            elif k == "loop":
                items.append(self.loop_with_blocks(idx, lvl, depth + 1))
            elif k == "set":
                items.append(["set", d(st.sampled_from(["v", "u"])), self.value_expr()])
                items.append(["out", ["n", "v"]])
            elif k == "mcall":
                items.append(["out", ["call", d(st.sampled_from(self.macros + self.cur_macros)), [self.const_expr()]]])
            elif k == "loopidx":
                items.append(["out", ["loopidx"]])
            elif k == "superadd":
                lit = ["c", d(st.sampled_from(["<+", " & x", "<- p", ">"]))]
                items.append(["out", ["add", ["super", 1], lit] if d(st.booleans()) else ["add", lit, ["super", 1]]])
            elif k == "aesection":
                refs = []
                if nbelow >= 1 and not below[-1].get("required"):
                    refs += [["super", 1]] * 3
                if nbelow >= 2 and not below[-2].get("required"):
                    refs.append(["super", 2])
                refs += [["self", x] for x in later] if not loopy else []
                items.append(self.ae_section(refs, reads_loop))
            elif k == "callfilter":
                items.extend(self.call_or_filter(lvl))
        return items

    def loop_with_blocks(self, above, lvl, depth):
        d = self.draw
        var = d(st.sampled_from(["i", "i", "j"]))
        vals = d(st.lists(st.sampled_from([1, 2, 3, "p", "q"]), min_size=0, max_size=3))
        body = []
        if d(st.integers(0, 3)) == 0:
            body.append(["set", "v", ["cat", ["c", "L"], ["n", var]]])
        for _ in range(d(st.integers(1, 2))):
            free = self.free_names(above)
            k = _weighted(d, [(2, "text"), (2, "out"), (5 if free else 0, "block")])
            if k == "text":
                body.append(self.text())
            elif k == "out":
                body.append(["out", ["n", var]])
            else:
                nm = d(st.sampled_from(free))
                self.loop_names.add(nm)
                if d(st.integers(0, 9)) < 7:
                    self.scoped_names.add(nm)  # decided before the body is drawn so that it reads loop names
                    node = self.block_node(nm, lvl, depth, in_loop=True)
                    if not node[2].get("scoped"):
                        self.scoped_names.discard(nm)
                else:
                    node = self.block_node(nm, lvl, depth, in_loop=False)
                # the block is a direct child of the loop body, or sits one level deeper (if / with)
                wrap = _weighted(d, [(5, "none"), (2, "iftrue"), (1, "ifvar"), (2, "with")])
                if node[2].get("required") and wrap == "ifvar":
                    wrap = "iftrue"  # a required placement that may be unreachable is not decided by the docs
                if wrap == "none":
                    body.append(node)
                elif wrap == "iftrue":
                    body.append(["if", ["c", True], [node], []])
                elif wrap == "ifvar":
                    body.append(["if", ["n", "x"], [node], [self.text()]])
                else:
                    body.append(["with", "w", self.const_expr(), [node]])
                if node[2].get("required") and not vals:
                    vals = [1]  # a required placement that is never reached is not decided by the docs
        return ["for", var, vals, body]

    # -- templates
    def ae_section(self, refs, reads_loop=False):
        """{% autoescape flag %} around block references, data outputs and text (never around a block tag)."""
        d = self.draw
        inner = []
        for _ in range(d(st.integers(1, 3))):
            k = _weighted(d, [(6 if refs else 0, "ref"), (3, "out"), (2, "text"), (2 if refs else 0, "add"),
                              (1 if (self.macros or self.cur_macros) else 0, "mcall")])
            if k == "ref":
                inner.append(["out", d(st.sampled_from(refs))])
            elif k == "out":
                inner.append(["out", ["n", self.var(reads_loop)]])
            elif k == "text":
                inner.append(self.text())
            elif k == "add":
                inner.append(["out", ["add", d(st.sampled_from(refs)), ["c", d(st.sampled_from(["<+", " & x", ">"]))]]])
            else:
                inner.append(["out", ["call", d(st.sampled_from(self.macros + self.cur_macros)), [self.const_expr()]]])
        return ["autoescape", d(st.booleans()), inner]

    def call_or_filter(self, lvl):
        """-> statements: a call block (preceded by the caller-macro definition when this template has
        none yet) or a filter block; in a child these are stray content that must not render."""
        d = self.draw
        inner = [self.text(), ["out", ["n", self.var()]]][: d(st.integers(1, 2))]
        if d(st.booleans()):
            out = []
            if not self.has_mc:
                self.has_mc = True
                out.append(["macro", "mc", ["a"], [["text", "mc@%d<" % lvl], ["out", ["caller"]], ["out", ["n", "a"]], ["text", ">"]]])
            out.append(["callblock", "mc", [self.const_expr()], inner])
            return out
        if d(st.integers(0, 2)) == 0:
            return [["filter", "default_D", []]]
        return [["filter", "upper", inner]]

    def macro_def(self, lvl):
        d = self.draw
        name = d(st.sampled_from(["m0", "m1"]))
        body = [["text", "%s@%d(" % (name, lvl)], ["out", ["n", "a"]], ["text", ")"]]
        self.cur_macros.append(name)
        return ["macro", name, ["a"], body]

    def toplevel_items(self, lvl, is_root):
        """Top-level statements of a template: placements (root) or definitions + stray content (child)."""
        d = self.draw
        items = []
        if not is_root:
            for name, fl in sorted(self.below.items()):
                if name not in self.used and len(fl) == 1 and fl[0].get("required") and d(st.integers(0, 9)) < 6:
                    items.append(self.block_node(name, lvl, 0, in_loop=False))
        n = d(st.integers(2, self.size + 3)) if is_root else d(st.integers(1, self.size + 2))
        for _ in range(n):
            free = self.free_names(-1)
            if is_root:
                choices = [(3, "text"), (2, "out"), (12 if free else 0, "block"), (6 if free else 0, "loop"), (2, "set"),
                           (1, "macro"), (2, "self"), (2 if free else 0, "ifblock"), (1, "mcall"), (2, "aesection")]
            else:
                choices = [(2, "text"), (2, "out"), (9 if free else 0, "block"), (2 if free else 0, "loop"), (3, "set"),
                           (1, "macro"), (2 if free else 0, "ifblock"), (1, "strayloop"), (1 if free else 0, "withblock"),
                           (1 if free else 0, "setblock"), (2, "include"), (3, "callfilter")]
            if is_root:
                choices.append((1, "include"))
                choices.append((1, "callfilter"))
            k = _weighted(d, choices)
            if k == "text":
                items.append(self.text())
            elif k == "out":
                items.append(["out", ["n", self.var()]])
            elif k == "block":
                # children prefer names that exist below (overrides), sometimes introduce a new one
                known = [x for x in free if x in self.below]
                pool = known if (known and d(st.integers(0, 9)) < 8) else free
                items.append(self.block_node(d(st.sampled_from(pool)), lvl, 0, in_loop=False))
            elif k == "loop":
                items.append(self.loop_with_blocks(-1, lvl, 0))
            elif k == "set":
                items.append(["set", d(st.sampled_from(["v", "u", "x"])), self.value_expr()])
            elif k == "macro":
                items.append(self.macro_def(lvl))
            elif k == "self":
                known = [x for x in self.names if x in self.used]
                if known:
                    items.append(["out", ["self", d(st.sampled_from(known))]])
            elif k == "mcall":
                if self.cur_macros:
                    items.append(["out", ["call", d(st.sampled_from(self.cur_macros)), [self.const_expr()]]])
            elif k == "ifblock":
                cond = ["c", d(st.booleans())] if d(st.booleans()) else ["n", d(st.sampled_from(["x", "nope"]))]
                node = self.block_node(d(st.sampled_from(free)), lvl, 0, in_loop=False, force_plain=True)
                items.append(["if", cond, [self.text(), node], []])
            elif k == "withblock":
                node = self.block_node(d(st.sampled_from(free)), lvl, 0, in_loop=False, force_plain=True)
                items.append(["with", "w", self.const_expr(), [self.text(), node]])
            elif k == "setblock":
                # a set block captures: a block inside it *is* rendered in place, output goes to the variable
                node = self.block_node(d(st.sampled_from(free)), lvl, 1, in_loop=False, force_plain=True)
                items.append(["setblock", "u", [self.text(), node]])
            elif k == "aesection":
                known = [x for x in self.names if x in self.used]
                items.append(self.ae_section([["self", x] for x in known]))
            elif k == "callfilter":
                items.extend(self.call_or_filter(lvl))
            elif k == "include":
                # in a child this is stray content (must not render); in the root it renders in place
                self.uses_inc = True
                ctx = _weighted(d, [(2, None), (1, True), (1, False)])
                items.append(["include", ["c", "inc"], {"ctx": ctx, "im": d(st.integers(0, 3)) == 0}])
            elif k == "strayloop":
                items.append(["for", "i", [1, 2], [self.text(), ["set", "v", ["c", "stray"]], ["out", ["n", "i"]]]])
        return items

    def finish_template(self, body):
        from vt.ref.resolve import find_blocks

        for name, node in find_blocks(body).items():
            self.below.setdefault(name, []).append(node[2])
        self.macros = sorted(set(self.macros) | set(self.cur_macros))
        self.used = set()
        self.cur_macros = []
        self.has_mc = False
        self.rootlike = False


@st.composite
def hierarchies(draw, max_depth=3, max_blocks=4, size=3):
    """Inheritance chains t0 <- t1 <- ... <- tk (k <= max_depth); every template is an entry."""
    nb = draw(st.integers(1, max_blocks))
    k = _weighted(draw, [(1, 0)] + [(3, i) for i in range(1, max_depth + 1)])
    g = _HGen(draw, nb, size)
    templates = {}
    data = {}
    body = g.toplevel_items(0, True)
    g.finish_template(body)
    templates["t0"] = body
    for lvl in range(1, k + 1):
        parent = "t%d" % (lvl - 1)
        me = "t%d" % lvl
        kind = _weighted(draw, [(8, "static"), (3, "cond"), (3, "var"), (2, "tobj"), (3, "ifwrap")])
        pre = []
        if draw(st.integers(0, 5)) == 0:
            pre = [g.text(), ["out", ["n", "x"]]][: draw(st.integers(1, 2))]
        if kind == "static":
            ext = [["extends", ["c", parent]]]
        elif kind == "cond":
            flag = "f%d" % lvl
            val = draw(st.booleans())
            data[flag] = val
            other = "t%d" % draw(st.integers(0, lvl - 1)) if draw(st.booleans()) else "missing"
            if other == "missing" and not val:
                val = data[flag] = True
            ext = [["extends", ["cond", ["n", flag], ["c", parent], ["c", other]]]]
        elif kind == "var":
            data["p%d" % lvl] = parent
            ext = [["extends", ["n", "p%d" % lvl]]]
        elif kind == "tobj":
            data["p%d" % lvl] = {"$": "template", "name": parent}
            ext = [["extends", ["n", "p%d" % lvl]]]
        else:
            flag = "f%d" % lvl
            data[flag] = draw(st.integers(0, 4)) > 1
            ext = [["if", ["n", flag], [["extends", ["c", parent]]], []]]
        g.rootlike = kind == "ifwrap"
        rest = g.toplevel_items(lvl, False)
        body = pre + ext + rest
        g.finish_template(body)
        templates[me] = body
    if g.uses_inc:
        templates["inc"] = [["text", "<inc "], ["out", ["n", "x"]], ["out", ["n", "v"]], ["text", ">"]]
    for name in ("x", "y"):
        if draw(st.integers(0, 4)) > 0:
            data[name] = draw(_WORD)
    for name in ("i", "v", "w"):
        if draw(st.integers(0, 2)) == 0:
            data[name] = "ctx-" + name
    entries = sorted(n for n in templates if n != "inc")
    ae = _weighted(draw, [(4, "off"), (3, "on"), (2, "call_on"), (2, "call_off")])
    autoescape = {"off": False, "on": True, "call_on": {"on_for": sorted(templates)}, "call_off": {"on_for": []}}[ae]
    ir = {"kind": "inherit", "templates": templates, "entries": entries, "globals": {}, "modules": [], "autoescape": autoescape}
    return {"ir": ir, "data": data}


# ---------------------------------------------------------------------------------------
# G-modules

PROBE_NAMES = ["g", "x", "i", "w", "a", "q", "p0", "p1", "_p"]
BROKEN = {"broken": "{% if %}"}


class _MGen:
    def __init__(self, draw, nlibs, size, buffered_nocontext=True):
        self.draw = draw
        self.size = size
        self.libs = ["lib%d" % i for i in range(nlibs)]
        self.lib_macros = {}  # lib -> public macro names surely defined
        self.lib_vars = {}
        self.have_broken = False
        self.have_deep = False
        self.buffered_nocontext = buffered_nocontext
        self.alias_n = 0
        self.block_n = 0

    def probe(self):
        names = list(PROBE_NAMES)
        if self.draw(st.integers(0, 2)) == 0:
            names = self.draw(st.lists(st.sampled_from(PROBE_NAMES), min_size=1, max_size=4, unique=True))
        return ["probe", names]

    def value(self, tag):
        k = _weighted(self.draw, [(3, "c"), (3, "cat"), (1, "n")])
        if k == "c":
            return ["c", tag]
        v = self.draw(st.sampled_from(["x", "g", "i", "w", "q", "a"]))
        if k == "n":
            return ["n", v]
        return ["cat", ["c", tag + "+"], ["n", v]]

    def ctxflag(self, default_none_weight=3):
        return _weighted(self.draw, [(default_none_weight, None), (3, True), (3, False)])

    # -- library templates
    def lib_body(self, idx):
        d = self.draw
        me = self.libs[idx]
        items = [["text", "[" + me + ":"], self.probe()]
        macros, pubs = [], []
        n = d(st.integers(1, self.size + 2))
        for _ in range(n):
            choices = [(4, "set"), (4, "macro"), (2, "priv"), (2, "privmacro"), (2, "ifset"), (2, "forset"), (1, "withset"),
                       (1, "setblock"), (1, "text"), (3, "multi")]
            if idx > 0:
                choices += [(2, "import"), (2, "from"), (1, "include")]
            k = _weighted(d, choices)
            if k == "set":
                nm = d(st.sampled_from(["p0", "p1", "q"]))
                items.append(["set", nm, self.value(me + "." + nm)])
                pubs.append(nm)
            elif k == "macro":
                nm = d(st.sampled_from(["m0", "m1"]))
                pr = self.probe()
                if d(st.booleans()):
                    pr = ["probe", pr[1] + ["tg"]]  # a template-level global of the importing template
                body = [["text", "<%s.%s " % (me, nm)], ["out", ["n", "a"]], ["text", "|"], pr, ["text", ">"]]
                node = ["macro", nm, ["a"], body]
                w = _weighted(d, [(5, "plain"), (2, "iftrue"), (2, "ifelse"), (1, "iffalse")])
                if w == "plain":
                    items.append(node)
                    macros.append(nm)
                elif w == "iftrue":
                    # an if statement opens no scope: the macro is a top-level macro of the module
                    items.append(["if", ["c", True], [node], []])
                    macros.append(nm)
                elif w == "ifelse":
                    other = ["macro", nm, ["a"], [["text", "<%s.%s/else " % (me, nm)], ["out", ["n", "a"]], ["text", ">"]]]
                    items.append(["if", ["n", d(st.sampled_from(["c0", "x", "g"]))], [node], [other]])
                    macros.append(nm)
                else:
                    items.append(["if", ["c", False], [node], []])
            elif k == "multi":
                # tuple unpacking at top level: mostly public and private targets mixed
                names = d(st.sampled_from([["p0", "_p"], ["_p", "p1"], ["p0", "_p", "p1"], ["_p", "_q"], ["p0", "p1"], ["q", "_p"]]))
                node = ["setmulti", names, [self.value(me + "." + nm) for nm in names]]
                if d(st.integers(0, 4)) == 0:
                    node = ["if", ["c", True], [node], []]
                items.append(node)
                pubs.extend(nm for nm in names if not nm.startswith("_"))
            elif k == "priv":
                items.append(["set", "_p", self.value(me + "._p")])
            elif k == "privmacro":
                items.append(["macro", "_m", [], [["text", "private"]]])
            elif k == "ifset":
                cond = ["c", d(st.booleans())] if d(st.booleans()) else ["n", d(st.sampled_from(["x", "c0", "g"]))]
                items.append(["if", cond, [["set", d(st.sampled_from(["p0", "p1"])), ["c", me + ".cond"]]], []])
            elif k == "forset":
                inner = [["set", "p1", ["c", "loop-local"]]]
                if d(st.booleans()):
                    inner.append(["macro", "fm", [], [["text", "fm"]]])
                if d(st.booleans()):
                    inner.append(["out", ["n", "p1"]])
                items.append(["for", "i", [1, 2][: d(st.integers(1, 2))], inner])
            elif k == "withset":
                items.append(["with", "w", ["c", me + ".w"], [["set", "p0", ["c", "with-local"]], ["out", ["n", "p0"]]]])
            elif k == "setblock":
                items.append(["setblock", d(st.sampled_from(["p0", "p1"])), [["text", me + ".blk:"], ["out", ["n", "x"]]]])
            elif k == "text":
                items.append(["text", d(_TEXT)])
            elif k == "import":
                low = self.libs[d(st.integers(0, idx - 1))]
                alias = d(st.sampled_from(["K", "K", "p1"]))
                if alias == "p1" and d(st.booleans()):
                    items.append(["set", "p1", ["c", "shadowed-by-import"]])
                items.append(["import", ["c", low], alias, self.ctxflag()])
                if self.lib_macros.get(low) and d(st.booleans()):
                    items.append(["out", ["mcall", alias, d(st.sampled_from(self.lib_macros[low])), [["c", "k"]]]])
                if d(st.booleans()):
                    items.append(["set", "q", ["cat", ["c", "via:"], ["attr", alias, "p0"]]])
            elif k == "from":
                low = self.libs[d(st.integers(0, idx - 1))]
                names = [[d(st.sampled_from(["p0", "p1", "m0", "nope"])), None]]
                if d(st.booleans()):
                    names.append(["p0" if names[0][0] != "p0" else "p1", d(st.sampled_from([None, "r"]))])
                if d(st.integers(0, 2)) == 0:
                    items.append(["set", names[0][0], ["c", "own-then-imported"]])
                items.append(["from", ["c", low], names, self.ctxflag()])
            elif k == "include":
                low = self.libs[d(st.integers(0, idx - 1))]
                items.append(["include", ["c", low], {"ctx": self.ctxflag(), "im": False}])
        items.append(["text", "]"])
        self.lib_macros[me] = sorted(set(macros))
        self.lib_vars[me] = sorted(set(pubs))
        return items

    # -- user templates
    def target(self, kind_ok=("c", "list", "var", "varlist", "tobj", "missing", "broken", "deep")):
        """-> (target, lib name or None when missing/broken, extra opts)"""
        d = self.draw
        lib = d(st.sampled_from(self.libs))
        k = _weighted(d, [(6, "c"), (3, "list"), (2, "var"), (2, "varlist"), (2, "tobj"), (2, "missing"), (1, "broken"), (2, "deep")])
        if k not in kind_ok:
            k = "c"
        if k == "deep":
            # the target exists, but pulls in a missing template itself: `ignore missing` must not hide that
            self.have_deep = True
            return ["c", d(st.sampled_from(["deep0", "deep1"]))], None, k
        if k == "c":
            return ["c", lib], lib, k
        if k == "list":
            first = d(st.sampled_from(["nope0", "nope0", lib, "tobj"]))
            lib = d(st.sampled_from(self.libs))  # the later entry may differ from an existing first entry
            names = [["c", first] if first != "tobj" else ["n", "tobj"], ["c", lib]]
            if d(st.integers(0, 3)) == 0:
                names.insert(1, ["c", "nope1"])
            return ["names", names], lib, k
        if k == "var":
            return ["n", "nm"], "nm", k
        if k == "varlist":
            return ["n", "nms"], "nms", k
        if k == "tobj":
            return ["n", "tobj"], "tobj", k
        if k == "missing":
            if d(st.booleans()):
                return ["c", "nope0"], None, k
            return ["names", [["c", "nope0"], ["c", "nope1"]]], None, k
        self.have_broken = True
        return ["c", "bad"], None, k

    def include_stmt(self, buffered=False):
        d = self.draw
        t, lib, k = self.target()
        ctx = self.ctxflag()
        if buffered and ctx is False and not self.buffered_nocontext:
            ctx = None
        if lib is None:
            im = d(st.integers(0, 9)) < 8  # missing without ignore / broken with ignore end the render: keep rare
            if k in ("broken", "deep"):
                im = d(st.integers(0, 9)) < 9
        else:
            im = d(st.integers(0, 3)) == 0
        return ["include", t, {"ctx": ctx, "im": im}]

    def import_use(self):
        """import / from-import followed by uses of what was imported"""
        d = self.draw
        t, lib, k = self.target(kind_ok=("c", "var", "tobj"))
        real = {"nm": self.nm_lib, "tobj": self.tobj_lib}.get(lib, lib)
        macros = self.lib_macros.get(real, [])
        ctx = self.ctxflag()
        out = []
        if d(st.booleans()):
            self.alias_n += 1
            alias = "L%d" % (self.alias_n % 3)
            out.append(["import", t, alias, ctx])
            for _ in range(d(st.integers(1, 3))):
                u = _weighted(d, [(5 if macros else 0, "mcall"), (3, "attr"), (2, "priv"), (1, "fm"), (1, "str"), (1, "badcall")])
                if u == "mcall":
                    out.append(["out", ["mcall", alias, d(st.sampled_from(macros)), [["c", d(_WORD)]]]])
                elif u == "attr":
                    out.append(["out", ["attr", alias, d(st.sampled_from(["p0", "p1", "q"]))]])
                elif u == "priv":
                    out.append(["out", ["defd", ["attr", alias, d(st.sampled_from(["_p", "_p", "_m", "_q"]))]]])
                elif u == "fm":
                    out.append(["out", ["defd", ["attr", alias, d(st.sampled_from(["fm", "K", "w", "i"]))]]])
                elif u == "str":
                    out.append(["out", ["n", alias]])
                elif u == "badcall" and d(st.integers(0, 3)) == 0:
                    out.append(["out", ["mcall", alias, "_m", []]])
        else:
            names = []
            if macros:
                names.append([d(st.sampled_from(macros)), d(st.sampled_from([None, "mm"]))])
            names.append([d(st.sampled_from(["p0", "p1", "nope"])), d(st.sampled_from([None, None, "r"]))])
            out.append(["from", t, names, ctx])
            for nm, alias in names:
                bound = alias or nm
                if nm in macros:
                    out.append(["out", ["call", bound, [["c", d(_WORD)]]]])
                else:
                    out.append(["text", bound + "="])
                    out.append(["out", ["n", bound]])
        return out

    def inner(self, buffered=False):
        """statements for the inside of a for / with / macro / set block"""
        d = self.draw
        out = []
        for _ in range(d(st.integers(1, 2))):
            k = _weighted(d, [(5, "include"), (4, "import"), (1, "probe")])
            if k == "include":
                out.append(self.include_stmt(buffered))
            elif k == "import":
                out.extend(self.import_use())
            else:
                out.append(self.probe())
        return out

    def user_body(self, uidx):
        d = self.draw
        items = [["text", "{u%d:" % uidx]]
        n = d(st.integers(1, self.size + 1))
        for _ in range(n):
            k = _weighted(d, [(3, "set"), (4, "include"), (4, "import"), (4, "for"), (3, "with"), (3, "macro"), (2, "setblock"),
                              (1, "probe"), (1, "ifset"), (1, "filter"), (1, "callblock"), (4, "block")])
            if k == "set":
                items.append(["set", d(st.sampled_from(["q", "x", "a"])), ["c", "u%d.set" % uidx]])
            elif k == "include":
                items.append(self.include_stmt())
            elif k == "import":
                items.extend(self.import_use())
            elif k == "for":
                body = []
                if d(st.booleans()):
                    body.append(["set", d(st.sampled_from(["q", "x", "w"])), ["cat", ["c", "it"], ["n", "i"]]])
                body += self.inner()
                items.append(["for", "i", d(st.sampled_from([[1], [1, 2], [1, 2], ["z"], ["z", 3], []])), body])
            elif k == "with":
                body = []
                if d(st.integers(0, 2)) == 0:
                    body.append(["set", "q", ["c", "in-with"]])
                items.append(["with", "w", self.value("W"), body + self.inner()])
            elif k == "macro":
                body = [["text", "(um:"]]
                if d(st.integers(0, 2)) == 0:
                    body.append(["set", "q", ["c", "in-macro"]])
                body += self.inner(buffered=True) + [["text", ")"]]
                items.append(["macro", "um", ["a"], body])
                items.append(["out", ["call", "um", [["c", d(_WORD)]]]])
            elif k == "setblock":
                items.append(["setblock", "sb", [["text", "<sb:"]] + self.inner(buffered=True) + [["text", ">"]]])
                items.append(["out", ["n", "sb"]])
            elif k == "block":
                # include / import from inside a block: the block sees the context (top-level assignments
                # shadow render variables and globals of the same name), not the root function's locals
                self.block_n += 1
                name = "ub%d" % self.block_n
                if d(st.integers(0, 2)) == 0:
                    items.append(["set", d(st.sampled_from(["q", "x", "a", "w", "i"])), ["c", "u%d.top" % uidx]])
                if d(st.integers(0, 3)) == 0:
                    blk = ["block", name, {"scoped": True}, [["text", "<%s:" % name]] + self.inner() + [["text", ">"]]]
                    items.append(["for", "i", [1, 2][: d(st.integers(1, 2))], [blk]])
                else:
                    items.append(["block", name, {}, [["text", "<%s:" % name]] + self.inner() + [["text", ">"]]])
            elif k == "filter":
                items.append(["filter", "upper", [["text", "<f:"]] + self.inner(buffered=True) + [["text", ">"]]])
            elif k == "callblock":
                items.append(["macro", "mc", ["a"], [["text", "(mc:"], ["out", ["caller"]], ["out", ["n", "a"]], ["text", ")"]]])
                items.append(["callblock", "mc", [["c", d(_WORD)]], self.inner(buffered=True)])
            elif k == "probe":
                items.append(self.probe())
            elif k == "ifset":
                items.append(["if", ["n", d(st.sampled_from(["c0", "x"]))], [["set", "q", ["c", "cond-q"]]], []])
        items.append(["text", "}"])
        return items


@st.composite
def module_sets(draw, max_libs=3, size=3, buffered_nocontext=True):
    """Library + user template sets (2-5 templates); users are the entries, every template is a module."""
    nlibs = draw(st.integers(1, max_libs))
    nusers = draw(st.integers(1, 2))
    g = _MGen(draw, nlibs, size, buffered_nocontext)
    templates = {}
    for i in range(nlibs):
        templates[g.libs[i]] = g.lib_body(i)
    g.nm_lib = draw(st.sampled_from(g.libs))
    g.tobj_lib = draw(st.sampled_from(g.libs))
    nms_lib = draw(st.sampled_from(g.libs))
    users = []
    for u in range(nusers):
        name = "u%d" % u
        templates[name] = g.user_body(u)
        users.append(name)
    if g.have_broken:
        templates["bad"] = dict(BROKEN)
    if g.have_deep:
        how = draw(st.sampled_from(["include", "import", "from", "extends", "list"]))
        inner = {
            "include": ["include", ["c", "nope0"], {"ctx": draw(st.sampled_from([None, True, False])), "im": False}],
            "import": ["import", ["c", "nope0"], "K", draw(st.sampled_from([None, True]))],
            "from": ["from", ["c", "nope1"], [["p0", None]], None],
            "extends": ["extends", ["c", "nope0"]],
            "list": ["include", ["names", [["c", "nope0"], ["c", "nope1"]]], {"ctx": None, "im": False}],
        }[how]
        templates["deep0"] = [["text", "<deep0:"], inner, ["text", ">"]]
        # one level deeper: an existing template that ignores nothing and includes deep0
        templates["deep1"] = [["text", "<deep1:"], ["include", ["c", "deep0"], {"ctx": None, "im": draw(st.booleans())}], ["text", ">"]]
    data = {"nm": g.nm_lib, "tobj": {"$": "template", "name": g.tobj_lib}}
    other_lib = draw(st.sampled_from(g.libs))
    data["nms"] = [draw(st.sampled_from(["nope0", nms_lib])), other_lib] if draw(st.booleans()) else ["nope0", "nope1", nms_lib]
    if draw(st.integers(0, 4)) > 0:
        data["x"] = draw(_WORD)
    for name in ("i", "w", "a", "q", "p0"):
        if draw(st.integers(0, 2)) == 0:
            data[name] = "ctx-" + name
    if draw(st.booleans()):
        data["c0"] = draw(st.booleans())
    glob = {"g": "G"}
    if draw(st.integers(0, 3)) == 0:
        glob["q"] = "glob-q"
    ir = {"kind": "modules", "templates": templates, "entries": users, "globals": glob,
          "modules": [n for n in sorted(templates) if n not in ("bad", "deep0", "deep1")]}
    # template-level globals: some entries are loaded with get_template(name, globals={"tg": ...}); entries are
    # rendered in order in one environment, so a library may already have been imported by an entry without them
    tgl = {}
    for i, u in enumerate(users):
        if draw(st.integers(0, 5)) < (3 if i else 1):
            tgl[u] = {"tg": "TG-" + u}
    if tgl:
        ir["tglobals"] = tgl
    return {"ir": ir, "data": data}
