"""Prototype: harness-owned thread scheduler for LRUCache (C26 concurrent part)."""
import sys, threading, itertools, collections
import jinja2.utils as U
from jinja2.utils import LRUCache
TARGET_FILE = U.__file__.replace(".pyc", ".py")

class Sched:
    def __init__(self, choices):
        self.choices = list(choices); self.ci = 0
        self.cv = threading.Condition()
        self.current = None          # thread id allowed to run
        self.alive = set(); self.blocked = {}   # tid -> lock it waits for
        self.preemptions = 0
    def pick(self):
        runnable = sorted(t for t in self.alive if t not in self.blocked)
        if not runnable:
            self.current = None; return
        if self.ci < len(self.choices):
            c = self.choices[self.ci]; self.ci += 1
            self.current = runnable[c % len(runnable)]
        else:
            self.current = runnable[0] if self.current not in runnable else self.current
    def yield_point(self, tid):
        with self.cv:
            self.pick(); self.cv.notify_all()
            while self.current != tid:
                self.cv.wait()
    def start(self, tid):
        with self.cv:
            while self.current != tid: self.cv.wait()
    def finish(self, tid):
        with self.cv:
            self.alive.discard(tid); self.pick(); self.cv.notify_all()

class SLock:
    def __init__(self, sched): self.s = sched; self.owner = None
    def __enter__(self):
        tid = threading.current_thread().name
        while True:
            if self.owner is None:
                self.owner = tid; return self
            with self.s.cv:
                self.s.blocked[tid] = self
                self.s.pick(); self.s.cv.notify_all()
                while self.s.current != tid: self.s.cv.wait()
    def __exit__(self, *a):
        self.owner = None
        with self.s.cv:
            for t, l in list(self.s.blocked.items()):
                if l is self: del self.s.blocked[t]

def run(ops_per_thread, choices, cap=2, init=(("a", 0), ("b", 0))):
    cache = LRUCache(cap)
    for k, v in init: cache[k] = v
    s = Sched(choices); cache._wlock = SLock(s)
    results = {}; errors = []
    names = [f"T{i}" for i in range(len(ops_per_thread))]
    s.alive = set(names)
    def tracer(frame, event, arg):
        if frame.f_code.co_filename != TARGET_FILE: return None
        def local(frame, event, arg):
            if event == "line": s.yield_point(threading.current_thread().name)
            return local
        return local
    def worker(name, ops):
        s.start(name)
        sys.settrace(tracer)
        try:
            for i, op in enumerate(ops):
                try:
                    if op[0] == "get": r = ("ok", cache.get(op[1]))
                    elif op[0] == "getitem": r = ("ok", cache[op[1]])
                    elif op[0] == "set": cache[op[1]] = op[2]; r = ("ok", None)
                    elif op[0] == "del": del cache[op[1]]; r = ("ok", None)
                    elif op[0] == "in": r = ("ok", op[1] in cache)
                    elif op[0] == "clear": cache.clear(); r = ("ok", None)
                except KeyError: r = ("KeyError",)
                except Exception as e: r = ("EXC", type(e).__name__, str(e))
                results[(name, i)] = r
        finally:
            sys.settrace(None); s.finish(name)
    ths = [threading.Thread(target=worker, args=(n, ops), name=n) for n, ops in zip(names, ops_per_thread)]
    for t in ths: t.start()
    with s.cv: s.pick(); s.cv.notify_all()
    for t in ths: t.join(10)
    assert not any(t.is_alive() for t in ths), "deadlock"
    final = (list(cache.items()), list(cache._queue), dict(cache._mapping))
    return results, final

def model_ok(ops_per_thread, results, final, cap, init):
    # brute-force linearisation ignoring real-time order across threads (ops within a thread ordered)
    idx = [0]*len(ops_per_thread)
    seqs = set()
    def interleavings(pos, acc):
        if all(p == len(o) for p, o in zip(pos, ops_per_thread)): yield list(acc); return
        for t in range(len(pos)):
            if pos[t] < len(ops_per_thread[t]):
                pos[t] += 1; acc.append((t, pos[t]-1)); yield from interleavings(pos, acc); acc.pop(); pos[t] -= 1
    for order in interleavings(idx, []):
        d = collections.OrderedDict(init); ok = True
        for t, i in order:
            op = ops_per_thread[t][i]; exp = None
            if op[0] in ("get", "getitem"):
                if op[1] in d: d.move_to_end(op[1]); exp = ("ok", d[op[1]])
                else: exp = ("ok", None) if op[0] == "get" else ("KeyError",)
            elif op[0] == "set":
                if op[1] in d: d.move_to_end(op[1])
                elif len(d) == cap: d.popitem(last=False)
                d[op[1]] = op[2]; exp = ("ok", None)
            elif op[0] == "del":
                if op[1] in d: del d[op[1]]; exp = ("ok", None)
                else: exp = ("KeyError",)
            elif op[0] == "in": exp = ("ok", op[1] in d)
            elif op[0] == "clear": d.clear(); exp = ("ok", None)
            if results[(f"T{t}", i)] != exp: ok = False; break
        if ok and [(k, d[k]) for k in reversed(d)] == final[0] and list(d) == final[1]: return True
    return False

if __name__ == "__main__":
    import random
    r = random.Random(int(sys.argv[1]) if len(sys.argv) > 1 else 1)
    keys = "abc"; bad = 0; n = 0
    for it in range(int(sys.argv[2]) if len(sys.argv) > 2 else 300):
        ops = []
        for t in range(2):
            o = []
            for _ in range(r.randrange(1, 3)):
                k = r.choice(keys); c = r.random()
                o.append(("set", k, r.randrange(9)) if c < .45 else ("getitem", k) if c < .6 else ("get", k) if c < .75 else ("del", k) if c < .9 else ("clear",))
            ops.append(o)
        choices = [r.randrange(2) for _ in range(40)]
        res, final = run(ops, choices)
        n += 1
        if not model_ok(ops, res, final, 2, (("a", 0), ("b", 0))):
            bad += 1
            if bad <= 3: print("NOT LINEARIZABLE", ops, choices[:12], res, final)
    print(n, bad)
