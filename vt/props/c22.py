"""C22 - collection filters satisfy their documented contracts.

Case (plain JSON, values in the tagged encoding of vt.ref.filterspec.dec):
  {"filter": name, "items": [...] | {"$": "d", ...} (dictsort), "args": [...], "kwargs": {...},
   "strform": bool}          # strform: the items are 1-character strings, also feed them as one str

One case is run through every applicable invocation:
  environments  sync Environment()  |  Environment(enable_async=True) driven by asyncio
  routes        Environment.call_filter  |  a rendered template ({% set r = x|f(a0, k=k_k) %}{{ sink(r) }})
  input forms   list, tuple, generator, (async env, async-aware filters) async generator
and every result is judged against the executable specification in vt.ref.filterspec (written from the
docstrings, never calling jinja2.filters).  After each invocation the input and the arguments are
deep-compared with a snapshot taken before ("without modifying their arguments").
"""
import asyncio
import inspect

from hypothesis import strategies as st

from vt import core
from vt.ref import filterspec as fs

PID = "C22"
LEVEL = "exploration"
RULE = (
    "Hypothesis-generated (filter, items, call shape) triples: 0-12 items whose sort keys come from small pools "
    "(ints, mixed-case strings incl. Markup, int pairs; duplicates frequent) carried raw or inside dicts / objects / "
    "nested dicts / tuples (addressed by 'k', 'sub.k', int index), optional missing attributes where a default is "
    "documented; arguments generated per documented signature and passed positionally or by keyword. Each case is "
    "executed via call_filter and via a rendered template, in a sync and an enable_async environment, with list / tuple / "
    "generator / async-generator inputs (up to 14 invocations). Non-trivial = at least 3 items and (a duplicate key under "
    "the filter's key, or a length not divisible by the batch/slice argument, or a missing attribute, or a selection that "
    "keeps some but not all items; for key-less filters (reverse/first/last/list/length/join/sum/map) 3 items suffice); "
    "distinct = distinct serialised case."
)
ASSUMPTIONS = [
    "expected values come from vt/ref/filterspec.py, transcribed from the filter/test docstrings and the Python built-ins they cite (sorted, min, max, sum, str.join)",
    "keys inside one input are mutually comparable (one key kind per case); strings use ASCII letters/digits/space so lower(), casefold() and upper() order agree",
    "min/max follow Python's min/max: of several items with the extreme key the first one in iteration order is returned (judged by identity / exact spelling)",
    "missing attributes are generated only where the docstring defines the outcome (groupby/map default - there also a missing intermediate segment of a dotted path -, selectattr/rejectattr with no test / defined / undefined on the final segment)",
    "async generators are fed only to filters that have an async variant (first groupby join list map reject rejectattr select selectattr slice sum unique); feeding them to the others is finding F27 (C09)",
    "float sums are judged with a rounding-sized tolerance (float addition is not associative, builtin sum compensates) plus the requirement that all invocations, sync and async, agree exactly",
    "last / length are fed sequences only ('Does not work with generators')",
]

ASYNC_AWARE = {"first", "groupby", "join", "list", "map", "reject", "rejectattr", "select", "selectattr", "slice", "sum", "unique"}
LAZY = {"batch", "slice", "unique", "reverse", "map", "select", "reject", "selectattr", "rejectattr"}
SEQ_ONLY = {"last", "length", "count"}
FILTERS = ["batch", "slice", "unique", "groupby", "sort", "dictsort", "reverse", "first", "last", "min", "max", "sum",
           "join", "list", "length", "count", "map", "select", "reject", "selectattr", "rejectattr"]
KEYLESS = {"reverse", "first", "last", "list", "length", "count", "join", "sum", "map"}

_state = {}


def _setup():
    if _state:
        return _state
    import jinja2

    _state["sync"] = jinja2.Environment()
    _state["async"] = jinja2.Environment(enable_async=True)
    _state["Undefined"] = jinja2.Undefined
    _state["tpl"] = {}
    _state["ctx"] = {m: _state[m].from_string("").new_context({}) for m in ("sync", "async")}
    return _state


def _source(name, nargs, kwnames, lazy):
    parts = ["a%d" % i for i in range(nargs)] + ["%s=k_%s" % (k, k) for k in kwnames]
    call = "x|%s(%s)" % (name, ", ".join(parts)) if parts else "x|%s" % name
    if lazy:
        call += "|list"
    return "{%% set r = %s %%}{{ sink(r) }}" % call


def _template(mode, src):
    st_ = _setup()
    key = (mode, src)
    t = st_["tpl"].get(key)
    if t is None:
        t = st_["tpl"][key] = st_[mode].from_string(src)
    return t


def _norm(r):
    """Materialise iterators, turn tuple subclasses (groupby's namedtuple) into plain tuples."""
    if isinstance(r, (str, int, float, bool, type(None), dict, fs.Obj)) or isinstance(r, _setup()["Undefined"]):
        return r
    if isinstance(r, list):
        return [_norm(x) if isinstance(x, tuple) and type(x) is not tuple else x for x in r]
    if isinstance(r, tuple):
        if type(r) is tuple:
            return r
        return tuple(_norm(x) if isinstance(x, tuple) and type(x) is not tuple else x for x in r)
    if hasattr(r, "__next__") or hasattr(r, "__iter__"):
        return _norm(list(r))
    return r


async def _resolve(r):
    if inspect.isawaitable(r):
        r = await r
    if hasattr(r, "__aiter__") and not isinstance(r, _setup()["Undefined"]):
        r = [x async for x in r]
    return r


async def _agen(items):
    for x in items:
        await asyncio.sleep(0)
        yield x


def _forms(name, items, strform, mode):
    if name == "dictsort":
        return [("dict", lambda: items)]
    out = [("list", lambda: items), ("tuple", lambda: tuple(items))]
    if strform:
        out.append(("str", lambda: "".join(items)))
    if name not in SEQ_ONLY:
        out.append(("gen", lambda: (x for x in items)))
        if mode == "async" and name in ASYNC_AWARE:
            out.append(("agen", lambda: _agen(items)))
    return out


def _expected(name, value, args, kwargs):
    if name in ("select", "reject", "selectattr", "rejectattr"):
        return fs.spec_select_family(name, value, args)
    if name == "map":
        return fs.spec_map(value, args, kwargs)
    return getattr(fs, "spec_" + name)(value, fs.bind(name, args, kwargs))


def _group_api(name, raw):
    """groupby documents namedtuples (grouper, list)."""
    if name != "groupby":
        return None
    for g in raw:
        if not (g.grouper is g[0] and g.list is g[1] and len(g) == 2):
            return "group %r does not expose .grouper/.list" % (g,)
    return None


def check_case(case):
    st_ = _setup()
    name = case["filter"]
    items = fs.dec(case["items"])
    args = fs.dec(case["args"])
    kwargs = fs.dec(case["kwargs"])
    strform = bool(case.get("strform"))
    before = (fs.snap(items), fs.snap(args), fs.snap(kwargs))
    exp_list = _expected(name, items, args, kwargs)
    exp_str = _expected(name, "".join(items), args, kwargs) if strform else None
    results = []

    def judge(mode, route, form, got_raw):
        where = "%s env, %s, %s input: x|%s(*%r, **%r) with x=%r" % (mode, route, form, name, args, kwargs, items)
        msg = _group_api(name, got_raw) if isinstance(got_raw, list) else None
        got = _norm(got_raw)
        if form == "str":
            if name == "reverse" and isinstance(got, list):
                got = "".join(got)  # the template route pipes the reversed string through |list
            msg = msg or exp_str.check(got)
        else:
            msg = msg or exp_list.check(got)
        if msg:
            raise core.Violation("%s: %s" % (where, msg))
        after = (fs.snap(items), fs.snap(args), fs.snap(kwargs))
        if after != before:
            raise core.Violation("%s: the filter modified its input or arguments: before %r, after %r" % (where, before, after))
        results.append(got)

    src = _source(name, len(args), sorted(kwargs), name in LAZY)
    tctx = {"a%d" % i: a for i, a in enumerate(args)}
    tctx.update({"k_" + k: v for k, v in kwargs.items()})

    # ---- sync environment
    env = st_["sync"]
    for form, make in _forms(name, items, strform, "sync"):
        r = env.call_filter(name, make(), list(args), dict(kwargs), context=st_["ctx"]["sync"])
        judge("sync", "call_filter", form, r)
        box = []
        _template("sync", src).render(dict(tctx, x=make(), sink=box.append))
        judge("sync", "template %s" % src, form, box[0])

    # ---- async environment
    aenv = st_["async"]

    async def main():
        for form, make in _forms(name, items, strform, "async"):
            r = await _resolve(aenv.call_filter(name, make(), list(args), dict(kwargs), context=st_["ctx"]["async"]))
            judge("async", "call_filter", form, r)
            box = []
            await _template("async", src).render_async(dict(tctx, x=make(), sink=box.append))
            judge("async", "template %s" % src, form, box[0])

    loop = asyncio.new_event_loop()
    try:
        loop.run_until_complete(main())
        loop.run_until_complete(loop.shutdown_asyncgens())
    finally:
        loop.close()

    # min/max (and float sums) are judged by a predicate: additionally all invocations must agree with each other
    if name in ("min", "max", "sum") and items:
        for got in results[1:]:
            if not (got is results[0] or fs.same(got, results[0])):
                raise core.Violation("x|%s(*%r, **%r) with x=%r: invocations disagree: %r vs %r" % (name, args, kwargs, items, results[0], got))

    return _classify(case, name, items, args, kwargs, exp_list)


def _classify(case, name, items, args, kwargs, exp):
    n = len(items)
    labels = [name, "len%s" % (n if n < 3 else "3+"), "kw" if kwargs else ("pos" if args else "noargs")]
    meta = case.get("meta") or {}
    for k in ("kind", "shape"):
        if k in meta:
            labels.append("%s_%s" % (k, meta[k]))
    interesting = False
    if name in ("batch", "slice"):
        if n % args_first(name, args, kwargs):
            labels.append("nondivisible")
            interesting = True
        else:
            labels.append("divisible")
        if fs.bind(name, args, kwargs)["fill_with"] is not None:
            labels.append("fill")
    if meta.get("dup"):
        labels.append("dupkeys")
        interesting = True
    if meta.get("missing"):
        labels.append("missing_attr")
        interesting = True
    if meta.get("missing_parent"):
        labels.append("missing_intermediate")
    if name in ("select", "reject", "selectattr", "rejectattr") and isinstance(exp, fs.Exact) and 0 < len(exp.value) < n:
        labels.append("partial_selection")
        interesting = True
    if name in KEYLESS:
        interesting = True
    if name in ASYNC_AWARE:
        labels.append("agen_input")
    return core.Outcome(n >= 3 and interesting, labels)


def args_first(name, args, kwargs):
    p = fs.bind(name, args, kwargs)
    return p["linecount"] if name == "batch" else p["slices"]


# ---------------------------------------------------------------------------------------------
# generator

INT_POOL = [-2, -1, 0, 1, 2, 3, 4, 5, 6, 12, 1.0, 2.0]  # 1 / 1.0 tie without being the same item
STR_POOL = ["a", "A", "b", "B", "ab", "Ab", "aB", "AB", "c", "C", "b a", "B a", "10", "9", "", "zz", "Zz"]
CHR_POOL = ["a", "A", "b", "B", "c", "1", " ", "z"]
G_POOL = {"int": [0, 1, 2], "str": ["x", "X", "y"], "tup": [0, 1]}


def _key_strategy(kind):
    if kind == "int":
        return st.sampled_from(INT_POOL)
    if kind == "str":
        return st.one_of(st.sampled_from(STR_POOL), st.sampled_from(STR_POOL), st.sampled_from(STR_POOL[:10]).map(lambda s: {"$": "m", "v": s}))
    if kind == "chr":
        return st.sampled_from(CHR_POOL)
    if kind == "tup":
        return st.tuples(st.integers(0, 2), st.integers(0, 2)).map(lambda t: {"$": "t", "v": list(t)})
    raise core.HarnessError(kind)


def _wrap(shape, key, g, i, missing, drop_parent=False):
    if shape == "raw":
        return key
    if shape == "seq":
        return {"$": "t", "v": [key, g, i]}
    attrs = {"g": g, "id": i}
    if not missing:
        attrs["k"] = key
    if shape == "dict":
        return attrs
    if shape == "obj":
        return {"$": "o", "v": attrs}
    if shape == "nested":
        if missing and drop_parent:
            return {"id": i}  # the intermediate segment itself is missing
        return {"sub": attrs, "id": i}
    raise core.HarnessError(shape)


def _attr(shape, which, draw):
    if shape == "seq":
        idx = {"k": 0, "g": 1, "id": 2}[which]
        return draw(st.sampled_from([idx, str(idx)]))
    if shape == "nested":
        return "sub." + which
    return which


def _plain(key):
    return key["v"] if isinstance(key, dict) and key.get("$") == "m" else key


def _foldkey(key, cs):
    key = _plain(key)
    if isinstance(key, dict):
        return tuple(key["v"])
    return key.lower() if isinstance(key, str) and not cs else key


TESTS_BY_KIND = {
    "int": [["odd"], ["even"], ["divisibleby", 2], ["divisibleby", 3], ["lt", 2], ["lessthan", 3], ["<", 1], ["gt", 1], [">", 0],
            ["greaterthan", 2], ["ge", 2], [">=", 3], ["le", 1], ["<=", 0], ["eq", 1], ["==", 2], ["equalto", 0], ["ne", 1], ["!=", 0],
            ["in", [1, 2, 12]], ["none"], ["string"], ["number"], ["integer"], []],
    "str": [["string"], ["in", ["a", "B", "zz"]], ["eq", "a"], ["equalto", "Ab"], ["ne", "b"], ["lower"], ["upper"], ["lt", "b"],
            ["ge", "B"], ["none"], ["number"], ["in", "abc"], []],
    "chr": [["string"], ["in", "ab1"], ["eq", "a"], ["lower"], ["upper"], ["lt", "b"], []],
    "tup": [["eq", {"$": "t", "v": [0, 1]}], ["in", [{"$": "t", "v": [0, 0]}, {"$": "t", "v": [1, 2]}]], ["sequence"], ["string"], []],
}
MAPS_BY_KIND = {
    "int": [["string"], ["abs"], ["int"], ["default", 7]],
    "str": [["upper"], ["lower"], ["string"], ["length"], ["replace", "a", "zz"], ["center", 5], ["list"], ["default", "q"]],
    "chr": [["upper"], ["lower"], ["length"], ["first"], ["last"], ["center", 3]],
    "tup": [["first"], ["last"], ["length"], ["list"]],
}
FILLS = [None, None, "x", 0, "", False, {"$": "t", "v": [9]}]


@st.composite
def cases(draw):
    name = draw(st.sampled_from(FILTERS))
    meta = {}
    if name == "dictsort":
        return _dictsort_case(draw)
    if name == "sum":
        return _sum_case(draw)
    needs_attr = name in ("groupby", "selectattr", "rejectattr")
    raw_only = name in ("select", "reject")
    kind = draw(st.sampled_from(["int", "str", "str", "tup", "chr"]))
    if needs_attr:
        shape = draw(st.sampled_from(["dict", "obj", "nested", "seq"]))
    elif raw_only:
        shape = "raw"
    else:
        shape = draw(st.sampled_from(["raw", "raw", "dict", "obj", "nested", "seq"]))
    if kind == "chr" and shape != "raw":
        kind = "str"
    keys = draw(st.lists(_key_strategy(kind), max_size=12))
    n = len(keys)
    gs = draw(st.lists(st.sampled_from(G_POOL.get(kind, G_POOL["str"])), min_size=n, max_size=n))
    # --- arguments
    args, kwargs = [], {}
    params = []  # ordered (name, value) of explicitly given parameters following the signature
    may_miss = False
    parent_may_miss = False  # a default is documented: an item may lack an intermediate path segment too
    key_attr = None  # attribute under which the filter looks at the key
    if name in ("batch", "slice"):
        params = [("linecount" if name == "batch" else "slices", draw(st.sampled_from([1, 2, 2, 3, 3, 4, 5, 7])))]
        fill = draw(st.sampled_from(FILLS))
        if fill is not None or draw(st.booleans()):
            params.append(("fill_with", fill))
    elif name in ("unique", "min", "max"):
        cs = draw(st.booleans())
        which = draw(st.sampled_from(["k", "k", "g"]))
        key_attr = None if shape == "raw" else _attr(shape, which, draw)
        params = _subset(draw, [("case_sensitive", cs, False), ("attribute", key_attr, None)])
        meta["cs"], meta["which"] = cs, ["k" if shape == "raw" else which]
    elif name == "sort":
        cs = draw(st.booleans())
        if shape == "raw":
            key_attr = None
        else:
            which = draw(st.sampled_from([["k"], ["g"], ["g", "k"], ["k", "g"], ["k"]]))
            key_attr = ",".join(str(_attr(shape, w, draw)) for w in which)
            if len(which) == 1 and shape == "seq":
                key_attr = _attr(shape, which[0], draw)
            meta["which"] = which
        params = _subset(draw, [("reverse", draw(st.booleans()), False), ("case_sensitive", cs, False), ("attribute", key_attr, None)])
        meta["cs"] = cs
    elif name == "groupby":
        cs = draw(st.booleans())
        which = draw(st.sampled_from(["k", "k", "g"]))
        key_attr = _attr(shape, which, draw)
        meta["which"] = [which]
        default = draw(st.sampled_from([None, "dflt"]))
        if default is not None:
            default = {"int": 3, "str": "Ab", "tup": {"$": "t", "v": [1, 1]}}[kind]
            may_miss = shape != "seq" and which == "k"
            parent_may_miss = may_miss
        params = [("attribute", key_attr)] + _subset(draw, [("default", default, None), ("case_sensitive", cs, False)])
        meta["cs"] = cs
    elif name == "join":
        d = draw(st.sampled_from(["", ", ", "|", "-", " and "]))
        key_attr = None if shape == "raw" or draw(st.integers(0, 3)) == 0 else _attr(shape, draw(st.sampled_from(["k", "g", "id"])), draw)
        params = _subset(draw, [("d", d, ""), ("attribute", key_attr, None)])
    elif name == "map":
        if shape == "raw":
            args = list(draw(st.sampled_from(MAPS_BY_KIND[kind])))
            if args[0] == "default":
                pass
        else:
            key_attr = _attr(shape, draw(st.sampled_from(["k", "g", "id"])), draw)
            kwargs = {"attribute": key_attr}
            if draw(st.booleans()):
                kwargs["default"] = draw(st.sampled_from(["anon", 0, -1]))
                may_miss = shape != "seq" and str(key_attr).endswith("k")
                parent_may_miss = may_miss
    elif name in ("select", "reject"):
        args = list(draw(st.sampled_from(TESTS_BY_KIND[kind])))
    elif name in ("selectattr", "rejectattr"):
        which = draw(st.sampled_from(["k", "k", "g", "id"]))
        key_attr = _attr(shape, which, draw)
        if which == "k" and shape != "seq" and draw(st.integers(0, 2)) == 0:
            tests = [[], ["defined"], ["undefined"]]
        elif which == "k":
            tests = TESTS_BY_KIND[kind] + [["defined"], ["undefined"]]
        elif which == "g":
            tests = TESTS_BY_KIND["int" if kind in ("int", "tup") else "str"]
        else:
            tests = TESTS_BY_KIND["int"]
        test = list(draw(st.sampled_from(tests)))
        args = [key_attr] + test
        may_miss = which == "k" and shape != "seq" and test in ([], ["defined"], ["undefined"])
    missing = [False] * n
    if may_miss and n and draw(st.booleans()):
        missing = draw(st.lists(st.sampled_from([False, False, True]), min_size=n, max_size=n))
    drops = [False] * n
    if parent_may_miss and shape == "nested" and any(missing):
        drops = draw(st.lists(st.booleans(), min_size=n, max_size=n))
    items = [_wrap(shape, k, g, i, m, d) for i, (k, g, m, d) in enumerate(zip(keys, gs, missing, drops))]
    meta["missing_parent"] = any(m and d for m, d in zip(missing, drops))
    if params:
        args, kwargs = _call_shape(draw, name, params)
    # --- classification helpers (generator-side facts, judged nowhere)
    cs = meta.pop("cs", False)
    if name in ("unique", "min", "max", "sort", "groupby"):
        cols = {"k": keys, "g": gs, "id": list(range(n))}
        used = meta.pop("which", ["k"])
        folded = [repr([_foldkey(cols[w][i], cs) for w in used]) for i in range(n)]
        meta["dup"] = len(set(folded)) < len(folded)
    meta["missing"] = any(missing)
    meta["kind"], meta["shape"] = kind, shape
    strform = kind == "chr" and shape == "raw" and name in ("list", "reverse", "first", "last", "length", "count") and all(len(k) == 1 for k in keys)
    return {"filter": name, "items": items, "args": args, "kwargs": kwargs, "strform": strform, "meta": meta}


def _subset(draw, triples):
    """Keep a parameter when it differs from its default or, at random, also when it equals it."""
    out = []
    for pname, value, default in triples:
        if value != default or type(value) is not type(default) or draw(st.integers(0, 3)) == 0:
            out.append((pname, value))
    return out


def _call_shape(draw, name, params):
    """Given explicitly specified parameters, pass a prefix positionally (filling skipped ones with their
    documented defaults) and the rest by keyword."""
    sig = fs.SIGS[name]
    given = dict(params)
    order = [p for p, _ in sig]
    last_given = max(order.index(p) for p in given)
    npos = draw(st.integers(0, last_given + 1))
    args, kwargs = [], {}
    for i, (p, d) in enumerate(sig):
        if i < npos:
            args.append(given[p] if p in given else d)
        elif p in given:
            kwargs[p] = given[p]
    return args, kwargs


def _dictsort_case(draw):
    kind = draw(st.sampled_from(["str", "int"]))
    pool = ["a", "A", "b", "B", "ab", "Ab", "c", "zz", "Zz", "10", "9"] if kind == "str" else INT_POOL
    keys = draw(st.lists(st.sampled_from(pool), unique=True, max_size=8))
    vkind = draw(st.sampled_from(["str", "int"]))
    vals = draw(st.lists(st.sampled_from(STR_POOL if vkind == "str" else INT_POOL), min_size=len(keys), max_size=len(keys)))
    cs, by, rev = draw(st.booleans()), draw(st.sampled_from(["key", "value"])), draw(st.booleans())
    params = _subset(draw, [("case_sensitive", cs, False), ("by", by, "key"), ("reverse", rev, False)])
    args, kwargs = _call_shape(draw, "dictsort", params) if params else ([], {})
    col = keys if by == "key" else vals
    folded = [_foldkey(k, cs) for k in col]
    meta = {"dup": len(set(map(repr, folded))) < len(folded), "kind": kind, "shape": "dict"}
    return {"filter": "dictsort", "items": {"$": "d", "v": [[k, v] for k, v in zip(keys, vals)]}, "args": args, "kwargs": kwargs,
            "strform": False, "meta": meta}


def _sum_case(draw):
    mode = draw(st.sampled_from(["int", "int", "attr", "lists", "float"]))
    n = draw(st.integers(0, 8))
    meta = {"kind": mode, "shape": "raw"}
    if mode == "lists":
        items = draw(st.lists(st.lists(st.integers(0, 3), max_size=2), min_size=n, max_size=n))
        params = [("start", draw(st.lists(st.integers(7, 9), max_size=2)))]
    elif mode == "float":
        items = draw(st.lists(st.sampled_from([0.1, 0.1, 0.2, 0.3, 0.7, 1.5, -0.1, 1e16, -1e16, 1e-9, 3]), min_size=n, max_size=max(n, 12)))
        params = _subset(draw, [("start", draw(st.sampled_from([0, 0, 0.5, 10])), 0)])
    else:
        vals = draw(st.lists(st.sampled_from(INT_POOL + [10 ** 20]), min_size=n, max_size=n))
        start = draw(st.sampled_from([0, 0, 5, -1]))
        if mode == "attr":
            shape = draw(st.sampled_from(["dict", "obj", "nested", "seq"]))
            meta["shape"] = shape
            items = [_wrap(shape, v, 0, i, False) for i, v in enumerate(vals)]
            params = [("attribute", _attr(shape, "k", draw))] + _subset(draw, [("start", start, 0)])
        else:
            items = vals
            params = _subset(draw, [("start", start, 0)])
    args, kwargs = _call_shape(draw, "sum", params) if params else ([], {})
    return {"filter": "sum", "items": items, "args": args, "kwargs": kwargs, "strform": False, "meta": meta}


# ---------------------------------------------------------------------------------------------


def _scaled(n):
    """VERIF_SCALE (default 1) shrinks the case count for sensitivity runs: a prefix of the same seeded search."""
    import os

    return max(50, int(n * float(os.environ.get("VERIF_SCALE", "1"))))


def shards(tier):
    return [{"i": i} for i in range(16 if tier == "quick" else 96)]


def run_shard(spec, ctx):
    return core.hyp_shard(cases(), check_case, ctx, max_examples=_scaled(ctx.pick(7000, 18000)))


def floors(total, tier):
    low = [f for f in FILTERS if total.labels.get(f, 0) < 200]
    if low:
        return "filters generated fewer than 200 times: %s" % low
    for lab, need in (("dupkeys", 2000), ("nondivisible", 500), ("missing_attr", 200), ("missing_intermediate", 20), ("partial_selection", 500), ("fill", 500), ("agen_input", 2000)):
        if total.labels.get(lab, 0) < need:
            return "label %s below floor: %d < %d" % (lab, total.labels.get(lab, 0), need)
    return None
