"""C23 - string and number filters satisfy their documented contracts.

Case (plain JSON, values in the tagged encoding of vt.ref.filterspec.dec):
  {"filter": name, "value": v, "args": [...], "kwargs": {...}, "policy_leeway": int|None (truncate),
   "parts": [[kind, text], ...] (striptags only: the value is the concatenation)}

Every case is invoked through Environment.call_filter and through a rendered template
({% set r = v|f(a0, k=k_k) %}{{ sink(r) }}), in a sync and in an enable_async environment (driven by
asyncio), and each result is judged by the executable specification / validity predicate in
vt.ref.filterspec, which is written from the docstrings and never calls jinja2.filters.
"""
import asyncio
import inspect

from hypothesis import strategies as st

from vt import core
from vt.ref import filterspec as fs

PID = "C23"
LEVEL = "exploration"
RULE = (
    "Hypothesis-generated (filter, value, arguments): strings assembled from chunk pools (ASCII/Unicode words, very long "
    "words, hyphenated words, whitespace incl. tab/NBSP and all line-break variants, markup fragments; plain and Markup) "
    "with lengths/widths drawn around the string's own length; numbers from 0, negatives, 10**400, +-inf, nan, bools, None, "
    "containers and ~45 numeric spellings (' 42 ', '4_2', '0x1f', '1e3', non-ASCII digits, '1'*5000, ...); arguments per the "
    "documented signatures, positional or keyword. Each case runs via call_filter and a rendered template in sync and async "
    "environments. Non-trivial = the input hits a boundary class: truncate with len within +-2 of length(+leeway) or actually "
    "truncated; wordwrap with a word longer than the width or a hyphenated word or several paragraphs; indent with >= 2 lines; "
    "int/float with a non-finite, huge, non-decimal-spelled or unconvertible value; round with a non-integral value; "
    "filesizeformat within 1% of a unit boundary or >= 1 kB; other filters: a non-empty value containing the characters the "
    "filter acts on; distinct = distinct serialised case."
)
ASSUMPTIONS = [
    "expected values / predicates come from vt/ref/filterspec.py, transcribed from the docstrings and the Python built-ins they cite",
    "truncate: length >= len(end) and leeway >= 0 (asserted preconditions of the filter); wordwrap width >= 1 and a wrapstring that does not occur in the text",
    "wordwrap: paragraphs containing whitespace outside textwrap's ASCII set (NBSP, EM SPACE, U+001F ...) are discarded: textwrap breaks at ASCII whitespace only but strips with str.strip(), the outcome is not a documented contract",
    "replace is additionally run in autoescape-on environments (plain and Markup values): same first-count-occurrences contract, plain replacement escaped inside a Markup value",
    "wordwrap: every output line must be a verbatim slice of its paragraph, only whitespace may disappear between lines, a line is only broken inside a word when the word is longer than the width (break_long_words) or next to a hyphen (break_on_hyphens)",
    "indent: whitespace-only lines and the empty pseudo-line after a trailing line break may or may not be indented (the docstring says 'blank'/'empty' without defining them); inputs ending in a lone carriage return are not generated (the appended newline merges with it)",
    "title: a character following punctuation may be either case (word boundaries other than whitespace are not documented); case filters use an alphabet where upper()/lower() are 1:1",
    "wordcount: strings with a joiner inside a word (don't, a-b, a_b) are discarded as undefined",
    "striptags: inputs are built from text without < > &, well-formed tags and comments without '>' inside",
    "round: method 'common' is Python's round(value, precision), compared exactly (incl. non-finite and near-max floats, which it returns unchanged); 1 ulp-scale tolerance on ceil/floor only (the filter multiplies by 10**precision in floating point); non-finite values are not generated for ceil/floor",
    "filesizeformat: non-negative values below 1000**9; at a unit boundary either unit is accepted; float values below the base are not generated",
    "format: Python's % operator is the definition",
]

_state = {}


def _setup():
    if not _state:
        import jinja2

        _state["jinja2"] = jinja2
        _state["env"] = {}
        _state["tpl"] = {}
    return _state


def _env(mode, leeway, autoescape=False):
    st_ = _setup()
    key = (mode, leeway, autoescape)
    e = st_["env"].get(key)
    if e is None:
        e = st_["jinja2"].Environment(enable_async=(mode == "async"), autoescape=autoescape)
        if leeway is not None:
            e.policies["truncate.leeway"] = leeway
        st_["env"][key] = e
    return e


def _template(mode, leeway, src, autoescape=False):
    st_ = _setup()
    key = (mode, leeway, src, autoescape)
    t = st_["tpl"].get(key)
    if t is None:
        t = st_["tpl"][key] = _env(mode, leeway, autoescape).from_string(src)
    return t


def _source(name, nargs, kwnames):
    parts = ["a%d" % i for i in range(nargs)] + ["%s=k_%s" % (k, k) for k in kwnames]
    call = "v|%s(%s)" % (name, ", ".join(parts)) if parts else "v|%s" % name
    return "{%% set r = %s %%}{{ sink(r) }}" % call


def _spec(case, value, args, kwargs):
    name = case["filter"]
    if name == "format":
        return fs.spec_format(value, args, kwargs)
    if name == "striptags":
        return fs.spec_striptags_parts(case["parts"])
    p = fs.bind(name, args, kwargs)
    if name == "truncate":
        lw = case.get("policy_leeway")
        return fs.spec_truncate(value, p, 5 if lw is None else lw)
    return getattr(fs, "spec_" + name)(value, p)


STRING_RESULT = {"truncate", "wordwrap", "indent", "center", "trim", "title", "capitalize", "upper", "lower", "replace",
                 "format", "striptags", "urlencode", "filesizeformat"}


def check_case(case):
    name = case["filter"]
    value = fs.dec(case["value"])
    args = fs.dec(case["args"])
    kwargs = fs.dec(case["kwargs"])
    leeway = case.get("policy_leeway")
    if name == "wordcount" and not fs.wordcount_defined(str(value)):
        raise core.Discard()
    try:
        spec = _spec(case, value, args, kwargs)
    except fs.Undecided:
        raise core.Discard() from None
    src = _source(name, len(args), sorted(kwargs))
    tctx = {"a%d" % i: a for i, a in enumerate(args)}
    tctx.update({"k_" + k: v for k, v in kwargs.items()})

    def judge(mode, route, got):
        try:
            msg = spec.check(got)
        except fs.Undecided:
            raise core.Discard() from None
        if msg is None and name in STRING_RESULT and not isinstance(got, str):
            msg = "expected a string result, got %r" % (got,)
        if msg:
            shown = value if not isinstance(value, (str, int)) or len(str(value)) < 300 else "%s...(%d chars)" % (str(value)[:40], len(str(value)))
            raise core.Violation("%s env, %s: %r|%s(*%r, **%r): %s" % (mode, route, shown, name, args, kwargs, msg))

    env = _env("sync", leeway)
    judge("sync", "call_filter", env.call_filter(name, value, list(args), dict(kwargs)))
    box = []
    _template("sync", leeway, src).render(dict(tctx, v=value, sink=box.append))
    judge("sync", "template " + src, box[0])

    aenv = _env("async", leeway)

    async def main():
        r = aenv.call_filter(name, value, list(args), dict(kwargs))
        if inspect.isawaitable(r):
            r = await r
        judge("async", "call_filter", r)
        abox = []
        await _template("async", leeway, src).render_async(dict(tctx, v=value, sink=abox.append))
        judge("async", "template " + src, abox[0])

    loop = asyncio.new_event_loop()
    try:
        loop.run_until_complete(main())
    finally:
        loop.close()
    if name == "replace":
        _replace_autoescape(value, args, kwargs, src, tctx)
    return _classify(case, name, value, args, kwargs, leeway)


def _replace_autoescape(value, args, kwargs, src, tctx):
    """replace is the one filter here whose code path depends on autoescaping: the same contract (first
    `count` occurrences) holds there; inside a safe (Markup) value the plain replacement text is escaped."""
    p = fs.bind("replace", args, kwargs)
    safe = hasattr(value, "__html__")
    spec = fs.spec_replace(str(value), {"old": p["old"], "new": fs.esc(p["new"]) if safe else p["new"], "count": p["count"]})

    def judge(route, got):
        msg = spec.check(got)
        if msg is None and safe and not hasattr(got, "__html__"):
            msg = "a safe value must stay safe, got plain %r" % (got,)
        if msg:
            raise core.Violation("autoescape on, %s: %r|replace(*%r, **%r): %s" % (route, value, args, kwargs, msg))

    env = _env("sync", None, True)
    judge("sync call_filter", env.call_filter("replace", value, list(args), dict(kwargs)))
    box = []
    _template("sync", None, src, True).render(dict(tctx, v=value, sink=box.append))
    judge("sync template " + src, box[0])

    async def main():
        abox = []
        await _template("async", None, src, True).render_async(dict(tctx, v=value, sink=abox.append))
        judge("async template " + src, abox[0])

    loop = asyncio.new_event_loop()
    try:
        loop.run_until_complete(main())
    finally:
        loop.close()


def _classify(case, name, value, args, kwargs, leeway):
    labels = [name, "kw" if kwargs else ("pos" if args else "noargs")]
    nt = False
    if name == "truncate":
        p = fs.bind(name, args, kwargs)
        lw = (5 if leeway is None else leeway) if p["leeway"] is None else p["leeway"]
        d = len(value) - (p["length"] + lw)
        if d > 0:
            labels.append("truncated")
            labels.append("killwords" if p["killwords"] else "wordcut")
        if abs(d) <= 2:
            labels.append("at_limit")
        nt = d > 0 or abs(d) <= 2
    elif name == "wordwrap":
        p = fs.bind(name, args, kwargs)
        words = value.split()
        longw = any(len(w) > p["width"] for w in words)
        if longw:
            labels.append("long_word")
        if any("-" in w.strip("-") for w in words):
            labels.append("hyphenated")
        if len(value.splitlines()) > 1:
            labels.append("paragraphs")
        if not p["break_long_words"]:
            labels.append("no_break_long")
        nt = longw or len(labels) > 2
    elif name == "indent":
        lines = fs.split_lines(value)
        if len(lines) > 1:
            labels.append("multiline")
        if any(ln == "" for ln in lines[1:-1]):
            labels.append("empty_line")
        if any(b in value for b in ("\r", "\x0b", "\x0c", "\x1c", "\x85", "\u2028")):
            labels.append("odd_linebreak")
        nt = len(lines) > 1
    elif name in ("int", "float"):
        cls = case.get("meta", {}).get("cls", "plain")
        labels.append("num_" + cls)
        nt = cls != "plain"
    elif name == "round":
        p = fs.bind(name, args, kwargs)
        labels.append("round_" + p["method"])
        fv = float(value)
        if fv != fv or fv in (float("inf"), float("-inf")) or abs(fv) >= 1e22:
            labels.append("round_extreme")
            nt = True
        else:
            nt = fv * 10 ** p["precision"] != int(fv * 10 ** p["precision"])
            if p["precision"] >= 1 and abs(abs(fv * 10 ** p["precision"]) % 1 - 0.5) < 1e-6:
                labels.append("round_near_tie")
        if p["precision"] < 0:
            labels.append("negative_precision")
    elif name == "filesizeformat":
        v = float(value)
        base = 1024 if fs.bind(name, args, kwargs)["binary"] else 1000
        near = any(abs(v - base ** k) <= base ** k * 0.01 for k in range(1, 9))
        if near:
            labels.append("unit_boundary")
        nt = near or v >= base
    elif name == "replace":
        p = fs.bind(name, args, kwargs)
        occ = str(value).count(str(p["old"])) if p["old"] != "" else 0
        if p["count"] is not None and occ > p["count"]:
            labels.append("count_limits")
        if hasattr(value, "__html__"):
            labels.append("replace_in_markup")
        nt = occ > 0
    else:
        nt = bool(value) or value == 0
    return core.Outcome(nt, labels)


# ---------------------------------------------------------------------------------------------
# generators

WORDS = ["a", "I", "foo", "bar", "Hello", "WORLD", "mixedCase", "x1", "42", "naïve", "ÉCOLE", "жук", "Λόγος", "well-known",
         "mother-in-law", "a-b-c", "--", "-", "non-", "supercalifragilisticexpialidocious", "0123456789012345678901234567890123456789",
         "don't", "snake_case", "e.g.", "(paren)", "[br]", "{x}", "<b>", "</b>", "&amp;", "<i class=\"q\">", "end.", "comma,", "3rd", "o'neill"]
SPACES = [" ", " ", " ", "  ", "   ", "\t", " \t ", "\xa0", "\u2003"]
BREAKS = ["\n", "\n", "\r\n", "\r", "\n\n", "\x0b", "\x0c", "\x1c", "\x85", "\u2028", "\u2029", "\n \n", "\n\t\n"]
CASE_ALPHABET = "abcXYZ019 -_.,;:!?()[]{}<'\"/éÉüÜжЖλΛ\t\n"


ASCII_SPACES = [" ", " ", " ", "  ", "   ", "\t", " \t "]


def _text(breaks=True, min_size=0, max_size=14, spaces=SPACES):
    pools = [st.sampled_from(WORDS), st.sampled_from(WORDS), st.sampled_from(spaces), st.sampled_from(spaces)]
    if breaks:
        pools.append(st.sampled_from(BREAKS))
    return st.lists(st.one_of(*pools), min_size=min_size, max_size=max_size).map("".join)


def _simple_text():
    return st.text(alphabet=CASE_ALPHABET, max_size=24)


def _maybe_markup(s, draw):
    if draw(st.integers(0, 4)) == 0:
        return {"$": "m", "v": s}
    return s


def _call_shape(draw, name, given):
    """given: {param: value} -> (args, kwargs): a positional prefix (skipped parameters get their documented
    default) and keywords for the rest."""
    sig = fs.SIGS[name]
    if not given:
        return [], {}
    order = [p for p, _ in sig]
    last = max(order.index(p) for p in given)
    npos = draw(st.integers(0, last + 1))
    args, kwargs = [], {}
    for i, (p, d) in enumerate(sig):
        if i < npos:
            args.append(given[p] if p in given else d)
        elif p in given:
            kwargs[p] = given[p]
    return args, kwargs


def _opt(draw, given, pname, strategy, always=False):
    if always or draw(st.booleans()):
        given[pname] = draw(strategy)


NUMERIC_STRINGS = [
    ("42", "plain"), ("-7", "plain"), ("+3", "spelled"), (" 42 ", "spelled"), ("4_2", "spelled"), ("0x1f", "spelled"), ("0X1F", "spelled"),
    ("1f", "spelled"), ("ff", "spelled"), ("0b101", "spelled"), ("101", "plain"), ("0o17", "spelled"), ("017", "spelled"), ("1e3", "spelled"),
    ("1E3", "spelled"), ("42.9", "spelled"), ("-42.9", "spelled"), (".5", "spelled"), ("5.", "spelled"), ("1_000.5", "spelled"),
    ("٤٢", "nonascii"), ("१२", "nonascii"), ("４２", "nonascii"), ("٤٢.٥", "nonascii"), ("inf", "nonfinite"), ("-inf", "nonfinite"),
    ("Infinity", "nonfinite"), ("nan", "nonfinite"), ("-NaN", "nonfinite"), ("1e400", "huge"), ("-1e400", "huge"), ("1e-400", "spelled"),
    ("", "unconvertible"), (" ", "unconvertible"), ("abc", "unconvertible"), ("1,5", "unconvertible"), ("0x", "unconvertible"),
    ("42\n", "spelled"), ("\t42", "spelled"), ("4 2", "unconvertible"), ("--1", "unconvertible"), ("1__0", "unconvertible"), ("_1", "unconvertible"),
    ("12abc", "unconvertible"), ("0x1.8p3", "unconvertible"), ("1e", "unconvertible"), ("²", "unconvertible"), ("½", "unconvertible"),
    ({"$": "rep", "v": "1", "n": 5000}, "huge"), ({"$": "rep", "v": "9", "n": 400}, "huge"), ({"$": "m", "v": "12"}, "plain"),
    ({"$": "m", "v": "1.5"}, "spelled"),
]
NUMBER_VALUES = [
    (0, "plain"), (1, "plain"), (-1, "plain"), (42, "plain"), (-17, "plain"), (2 ** 63, "huge"), ({"$": "pow", "b": 10, "e": 400}, "huge"),
    ({"$": "pow", "b": 10, "e": 400, "s": -1}, "huge"), ({"$": "pow", "b": 10, "e": 308}, "huge"), ({"$": "pow", "b": 2, "e": 1024}, "huge"),
    (0.0, "plain"), (-0.0, "spelled"), (1.5, "plain"), (-2.7, "plain"), (42.99, "plain"), (1e308, "huge"), (-1e308, "huge"), (5e-324, "spelled"),
    (1e22, "huge"), ({"$": "f", "v": "inf"}, "nonfinite"), ({"$": "f", "v": "-inf"}, "nonfinite"), ({"$": "f", "v": "nan"}, "nonfinite"),
    (True, "bool"), (False, "bool"), (None, "unconvertible"), ([], "unconvertible"), ([1], "unconvertible"), ([1, 2], "unconvertible"),
    ({}, "unconvertible"), ({"a": 1}, "unconvertible"), ({"$": "t", "v": []}, "unconvertible"), ({"$": "t", "v": [1]}, "unconvertible"),
    ({"$": "set", "v": [1]}, "unconvertible"), ({"$": "o", "v": {"x": 1}}, "unconvertible"),
]
FMT_PIECES = [("text ", 0), ("%s", 1), ("%d", 1), ("%5.2f", 1), ("%%", 0), ("%r", 1), ("%x", 1), ("%-6s|", 1), ("%05d", 1), (" & ", 0), ("%c", 1), ("%e", 1)]
TAGS = ["<b>", "</b>", "<br/>", "<br />", "<a href=\"http://x/?a=1\">", "</a>", "<p class='x y'>", "</p>", "<img src=x alt=\"a b\">", "<x-y>", "<B\n>"]
COMMENTS = ["<!-- c -->", "<!---->", "<!-- two words -->", "<!--\n-->"]
PLAIN_TEXT = ["foo", "bar", "Hello", "naïve", "x1", "1 2", "a.b", "q?", "(z)", "'q'", "\"dq\"", "é", "-"]
TEXT_WS = [" ", "  ", "\n", "\t", " \n ", "\r\n", "\xa0", "\u2003", "\x0c"]


@st.composite
def cases(draw):
    name = draw(st.sampled_from(FILTER_NAMES))
    return draw(_GEN[name])


@st.composite
def _g_truncate(draw):
    s = draw(_text(breaks=False, max_size=12))
    end = draw(st.sampled_from(["...", "...", "", "…", ">>", " [more]"]))
    policy = draw(st.sampled_from([None, None, 0, 2, 5, 9]))
    given = {}
    leeway = draw(st.sampled_from([None, None, 0, 1, 3, 5, 6]))
    eff = leeway if leeway is not None else (5 if policy is None else policy)
    if draw(st.booleans()):
        length = max(len(end), len(s) - eff + draw(st.integers(-6, 3)))
    else:
        length = max(len(end), draw(st.integers(0, 40)))
    given["length"] = length
    _opt(draw, given, "killwords", st.booleans())
    if end != "..." or draw(st.booleans()):
        given["end"] = end
    if leeway is not None:
        given["leeway"] = leeway
    args, kwargs = _call_shape(draw, "truncate", given)
    return {"filter": "truncate", "value": s, "args": args, "kwargs": kwargs, "policy_leeway": policy}


@st.composite
def _g_wordwrap(draw):
    # Unicode whitespace other than textwrap's ASCII set is declined by the spec: keep it rare here
    s = draw(_text(max_size=14, spaces=ASCII_SPACES if draw(st.integers(0, 9)) else SPACES))
    given = {"width": draw(st.sampled_from([1, 2, 3, 4, 5, 6, 8, 10, 12, 15, 20, 30, 40]))}
    _opt(draw, given, "break_long_words", st.booleans())
    _opt(draw, given, "wrapstring", st.sampled_from([None, "\n", "<br>\n", "|~|", "\r\n"]))
    _opt(draw, given, "break_on_hyphens", st.booleans())
    args, kwargs = _call_shape(draw, "wordwrap", given)
    return {"filter": "wordwrap", "value": s, "args": args, "kwargs": kwargs}


@st.composite
def _g_indent(draw):
    s = draw(_text(max_size=12))
    while s.endswith("\r"):
        s = s[:-1]
    given = {}
    _opt(draw, given, "width", st.sampled_from([0, 1, 2, 4, 8, "  ", "\t", ">> ", "", "-"]))
    _opt(draw, given, "first", st.booleans())
    _opt(draw, given, "blank", st.booleans())
    args, kwargs = _call_shape(draw, "indent", given)
    return {"filter": "indent", "value": s, "args": args, "kwargs": kwargs}


@st.composite
def _g_center(draw):
    s = draw(st.one_of(_simple_text(), _text(breaks=False, max_size=4)))
    given = {}
    if draw(st.integers(0, 5)):
        given["width"] = draw(st.one_of(st.integers(0, 40), st.just(len(s)), st.just(len(s) + 1), st.just(len(s) + 2)))
    args, kwargs = _call_shape(draw, "center", given)
    value = draw(st.sampled_from([s, s, s, {"$": "m", "v": s}, 42, 7]))
    return {"filter": "center", "value": value, "args": args, "kwargs": kwargs}


@st.composite
def _g_trim(draw):
    core_ = draw(_text(max_size=4))
    pad = st.lists(st.sampled_from(SPACES + BREAKS + ["x", "ab", "-", "."]), max_size=3).map("".join)
    s = draw(pad) + core_ + draw(pad)
    given = {}
    _opt(draw, given, "chars", st.sampled_from([None, " ", "x", "ab", " \n\t", ".-", "xab \n", ""]))
    args, kwargs = _call_shape(draw, "trim", given)
    return {"filter": "trim", "value": _maybe_markup(s, draw), "args": args, "kwargs": kwargs}


def _g_simple(name, strategy):
    @st.composite
    def g(draw):
        s = draw(strategy)
        value = _maybe_markup(s, draw)
        if name in ("upper", "lower", "capitalize", "title") and draw(st.integers(0, 9)) == 0:
            value = draw(st.sampled_from([42, -1, 1.5, True, None]))
        return {"filter": name, "value": value, "args": [], "kwargs": {}}

    return g()


@st.composite
def _g_replace(draw):
    s = draw(_text(max_size=10))
    if s and draw(st.integers(0, 3)):
        i = draw(st.integers(0, len(s) - 1))
        j = draw(st.integers(i + 1, min(len(s), i + 4)))
        old = s[i:j]
    else:
        old = draw(st.sampled_from(["a", "o", "oo", " ", "-", "zz", "\n", "l"]))
    new = draw(st.sampled_from(["", "X", "--", old + old, " ", "new", "é"]))
    given = {"old": old, "new": new}
    _opt(draw, given, "count", st.sampled_from([None, 0, 1, 2, 3, 100]))
    args, kwargs = _call_shape(draw, "replace", given)
    value = draw(st.sampled_from([s, s, s, s, {"$": "m", "v": s}, {"$": "m", "v": s}, 121212]))
    return {"filter": "replace", "value": value, "args": args, "kwargs": kwargs}


@st.composite
def _g_format(draw):
    if draw(st.integers(0, 3)) == 0:
        names = draw(st.lists(st.sampled_from(["a", "b", "name"]), min_size=1, max_size=3, unique=True))
        fmt = "".join(draw(st.sampled_from(["%%(%s)s", "<%%(%s)r>", "%%(%s)5s|"])) % n + draw(st.sampled_from(["", " ", "%%", "; "])) for n in names)
        kwargs = {n: draw(st.sampled_from(["x", 3, 2.5, None, "<b>", ""])) for n in names}
        return {"filter": "format", "value": fmt, "args": [], "kwargs": kwargs}
    pieces = draw(st.lists(st.sampled_from(FMT_PIECES), max_size=5))
    fmt = "".join(p for p, _ in pieces)
    args = []
    for p, n in pieces:
        if not n:
            continue
        if p[-1] in "sr":
            args.append(draw(st.sampled_from(["x", "a b", 3, 2.5, None, True, "<b>", "", {"$": "t", "v": [1]}, [1, 2]])))
        elif p[-1] in "dx":
            args.append(draw(st.sampled_from([0, 3, -12, 255, 10 ** 12, True])))
        elif p[-1] == "c":
            args.append(draw(st.sampled_from(["x", 65, "é"])))
        else:
            args.append(draw(st.sampled_from([0, 2.5, -0.125, 3, 1e10])))
    return {"filter": "format", "value": fmt, "args": args, "kwargs": {}}


@st.composite
def _g_striptags(draw):
    parts = draw(st.lists(st.one_of(
        st.sampled_from(PLAIN_TEXT).map(lambda s: ["text", s]), st.sampled_from(PLAIN_TEXT).map(lambda s: ["text", s]),
        st.sampled_from(TEXT_WS).map(lambda s: ["text", s]), st.sampled_from(TEXT_WS).map(lambda s: ["text", s]),
        st.sampled_from(TAGS).map(lambda s: ["tag", s]), st.sampled_from(COMMENTS).map(lambda s: ["comment", s])), max_size=12))
    s = "".join(p[1] for p in parts)
    return {"filter": "striptags", "value": _maybe_markup(s, draw), "args": [], "kwargs": {}, "parts": parts}


URL_TEXT = ["a", "Z", "0", "-", "_", ".", "~", "/", "//", " ", "  ", "+", "?", "&", "=", "%", "%20", "#", ":", "@", "é", "ü", "жук", "漢", "😀",
            "foo", "bar baz", "a/b", "\n", "\t", "'", "\"", "<", ">", "(", ")", "*", "!", ",", ";", "[", "]", "\x7f", "\x00"]


@st.composite
def _g_urlencode(draw):
    txt = st.lists(st.sampled_from(URL_TEXT), max_size=6).map("".join)
    mode = draw(st.sampled_from(["str", "str", "str", "dict", "pairs", "scalar"]))
    if mode == "str":
        value = _maybe_markup(draw(txt), draw)
    elif mode == "scalar":
        value = draw(st.sampled_from([42, -1, 1.5, True, None]))
    else:
        keys = draw(st.lists(txt, max_size=4, unique=True))
        vals = [draw(st.one_of(txt, st.sampled_from([1, 2.5, None, True]))) for _ in keys]
        if mode == "dict":
            value = {"$": "d", "v": [[k, v] for k, v in zip(keys, vals)]}
        else:
            value = [{"$": "t", "v": [k, v]} for k, v in zip(keys, vals)]
            if draw(st.booleans()):
                value = {"$": "t", "v": value}
    return {"filter": "urlencode", "value": value, "args": [], "kwargs": {}}


@st.composite
def _g_filesize(draw):
    binary = draw(st.booleans())
    base = 1024 if binary else 1000
    k = draw(st.integers(0, 8))
    mode = draw(st.sampled_from(["edge", "edge", "mult", "small", "any"]))
    if mode == "edge":
        v = base ** k + draw(st.sampled_from([-base ** k // 1000 if k else 0, -51 * base ** k // 100000 if k else 0, -2, -1, 0, 1, 2, base ** k // 1000, base ** k // 20]))
    elif mode == "mult":
        v = base ** k * draw(st.integers(1, base - 1)) + draw(st.integers(0, base ** k - 1 if k else 0))
    elif mode == "small":
        v = draw(st.integers(0, 1100))
    else:
        v = draw(st.integers(0, 1000 ** 9 - 1))
    v = max(0, min(v, 1000 ** 9 - 1))
    form = draw(st.sampled_from(["int", "int", "float", "str"]))
    if form == "float":
        value = float(v) if v >= 1024 or float(v) == v else v
    elif form == "str":
        value = str(v)
    else:
        value = v
    given = {}
    if binary or draw(st.booleans()):
        given["binary"] = binary
    args, kwargs = _call_shape(draw, "filesizeformat", given)
    return {"filter": "filesizeformat", "value": value, "args": args, "kwargs": kwargs}


@st.composite
def _g_round(draw):
    mode = draw(st.sampled_from(["half", "float", "float", "int", "big", "tiny", "decimal", "decimal", "extreme"]))
    prec = draw(st.sampled_from([0, 0, 1, 2, 3, 6, -1, -2, -3, 4, 5]))
    method = draw(st.sampled_from(["common", "common", "ceil", "floor", "ceil", "floor"]))
    if mode == "decimal":
        # decimal literals next to a rounding boundary at precision >= 1 (0.45, 1.115, 2.675, ...): the binary
        # value lies just above or below the tie
        prec = draw(st.sampled_from([1, 1, 2, 2, 3, 4]))
        n = draw(st.integers(-3000, 3000)) * 10 + draw(st.sampled_from([5, 5, 5, 4, 6]))
        value = float("%de%d" % (n, -(prec + 1)))
    elif mode == "extreme":
        # non-finite and near-max floats are only defined for 'common' (round returns them unchanged)
        method = "common"
        value = draw(st.sampled_from([{"$": "f", "v": "inf"}, {"$": "f", "v": "-inf"}, {"$": "f", "v": "nan"}, 1e308, -1e308,
                                      1.7976931348623157e308, 1e300, 9007199254740993.0, 1e22, 5e-324]))
    elif mode == "half":
        value = (draw(st.integers(-2000, 2000)) + 0.5) / 10 ** max(prec, 0) * (10 ** -min(prec, 0))
    elif mode == "float":
        value = draw(st.floats(min_value=-1e6, max_value=1e6, allow_nan=False, allow_infinity=False))
    elif mode == "int":
        value = draw(st.integers(-100000, 100000))
    elif mode == "big":
        value = draw(st.floats(min_value=-1e15, max_value=1e15, allow_nan=False, allow_infinity=False))
    else:
        value = draw(st.floats(min_value=-1e-3, max_value=1e-3, allow_nan=False, allow_infinity=False))
    given = {}
    if prec or draw(st.booleans()):
        given["precision"] = prec
    if method != "common" or draw(st.booleans()):
        given["method"] = method
    args, kwargs = _call_shape(draw, "round", given)
    return {"filter": "round", "value": value, "args": args, "kwargs": kwargs}


def _g_number(name):
    @st.composite
    def g(draw):
        if draw(st.booleans()):
            value, cls = draw(st.sampled_from(NUMERIC_STRINGS))
        else:
            value, cls = draw(st.sampled_from(NUMBER_VALUES))
        given = {}
        if name == "int":
            _opt(draw, given, "default", st.sampled_from([0, 7, -1, "dflt", None]))
            _opt(draw, given, "base", st.sampled_from([2, 8, 10, 16, 16]))
        else:
            _opt(draw, given, "default", st.sampled_from([0.0, 1.5, -1.0, "dflt", None]))
        args, kwargs = _call_shape(draw, name, given)
        return {"filter": name, "value": value, "args": args, "kwargs": kwargs, "meta": {"cls": cls}}

    return g()


_GEN = {
    "truncate": _g_truncate(), "wordwrap": _g_wordwrap(), "indent": _g_indent(), "center": _g_center(), "trim": _g_trim(),
    "title": _g_simple("title", _simple_text()), "capitalize": _g_simple("capitalize", _simple_text()),
    "upper": _g_simple("upper", st.one_of(_simple_text(), _text(max_size=5))), "lower": _g_simple("lower", st.one_of(_simple_text(), _text(max_size=5))),
    "wordcount": _g_simple("wordcount", st.one_of(_simple_text(), _text(max_size=8))),
    "replace": _g_replace(), "format": _g_format(), "striptags": _g_striptags(), "urlencode": _g_urlencode(),
    "filesizeformat": _g_filesize(), "round": _g_round(), "int": _g_number("int"), "float": _g_number("float"),
}
# weights: the filters with boundary arithmetic get more of the budget
FILTER_NAMES = (["truncate"] * 4 + ["wordwrap"] * 4 + ["indent"] * 3 + ["int"] * 3 + ["float"] * 2 + ["round"] * 3 + ["filesizeformat"] * 2
                + ["center", "trim", "title", "capitalize", "upper", "lower", "wordcount", "replace", "replace", "format", "format",
                   "striptags", "striptags", "urlencode", "urlencode"])


def _scaled(n):
    """VERIF_SCALE (default 1) shrinks the case count for sensitivity runs: a prefix of the same seeded search."""
    import os

    return max(50, int(n * float(os.environ.get("VERIF_SCALE", "1"))))


def shards(tier):
    return [{"i": i} for i in range(16 if tier == "quick" else 96)]


def run_shard(spec, ctx):
    return core.hyp_shard(cases(), check_case, ctx, max_examples=_scaled(ctx.pick(9000, 22000)))


def floors(total, tier):
    low = [f for f in _GEN if total.labels.get(f, 0) < 300]
    if low:
        return "filters generated fewer than 300 times: %s" % low
    for lab, need in (("truncated", 1000), ("at_limit", 500), ("long_word", 1000), ("hyphenated", 500), ("multiline", 1000),
                      ("num_nonfinite", 300), ("num_huge", 300), ("num_nonascii", 100), ("unit_boundary", 200), ("round_ceil", 300), ("round_floor", 300), ("round_common", 500), ("round_near_tie", 300),
                      ("round_extreme", 100), ("count_limits", 300), ("replace_in_markup", 300)):
        if total.labels.get(lab, 0) < need:
            return "label %s below floor: %d < %d" % (lab, total.labels.get(lab, 0), need)
    return None
