import sys, random, collections, itertools
sys.path.insert(0, __import__("os").path.dirname(__file__))
from ws_model import *
from jinja2 import Environment
r = random.Random(int(sys.argv[1]))
def align(src_norm, tokens):
    """Greedy alignment: each token value must occur at/after pos; skipped chars must be whitespace (left-stripped)."""
    pos = 0; res = []; skipped = []
    for lineno, typ, val in tokens:
        if val == "":
            res.append((lineno, typ, val, pos)); continue
        if src_norm.startswith(val, pos):
            start = pos
        else:
            # skip whitespace run
            j = pos
            while j < len(src_norm) and src_norm[j].isspace() and not src_norm.startswith(val, j): j += 1
            if not src_norm.startswith(val, j): return None, "cannot align %r at %d" % (val, pos)
            skipped.append((pos, j)); start = j
        res.append((lineno, typ, val, start)); pos = start + len(val)
    rest = src_norm[pos:]
    if rest.strip() != "" : return None, "rest %r" % rest
    return res, skipped
bad = collections.Counter(); ex = {}; n = 0
envs = {(t,l): Environment(trim_blocks=t, lstrip_blocks=l) for t in (0,1) for l in (0,1)}
for it in range(int(sys.argv[2])):
    sk = gen_skeleton(r)
    # make some block tags multi-line
    sk = [("block", s[1], s[2], r.choice(["set z = 1", "set z =\n 1", "set z = [1,\n\n2]", "set z = 'a\nb'"])) if s[0]=="block" else s for s in sk]
    src = source(sk); sn = norm(src)
    if sn.endswith("\n"): sn = sn[:-1]
    for key, env in envs.items():
        n += 1
        try: toks = list(env.lex(src))
        except Exception as e:
            bad[("exc", type(e).__name__)] += 1; ex.setdefault(("exc", type(e).__name__), (src, str(e))); continue
        res, info = align(sn, toks)
        if res is None:
            bad[("align",)] += 1; ex.setdefault(("align",), (src, key, info, toks)); continue
        for lineno, typ, val, start in res:
            exp = 1 + sn.count("\n", 0, start)
            if lineno != exp:
                k = ("lineno", typ, key); bad[k] += 1
                if k not in ex or len(src) < len(ex[k][0]): ex[k] = (src, key, typ, val, lineno, exp)
                break
print(n, sum(bad.values()))
for k, v in sorted(bad.items(), key=lambda kv: -kv[1])[:20]: print(v, k, ex[k])
