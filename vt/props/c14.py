"""C14 - template literals denote the same values as Python literals.

Cases (plain JSON):
  {"kind": "str", "parts": [{"q": "'" | '"', "pieces": [[codepoint, mode], ...]}, ...], "seps": ["", " ", ...]}
      one or more adjacent string literals; every character is spelled in the given mode
      (raw, simple escape, \\xNN, \\uNNNN, \\UNNNNNNNN, 3-digit octal, shortest octal, \\N{NAME}; a mode that
      does not apply to the code point falls back to the next applicable one, so every case is a valid spelling)
  {"kind": "int", "spelling": "0x_1F"}            decimal / 0b / 0o / 0x, either case, legal underscores
  {"kind": "float", "spelling": "1_0.5E+0_3", "neg": false}     digits[.digits][e[+-]digits] with legal underscores
  {"kind": "multi", "lits": [{"s": "1", "neg": false}, {"s": "1.0", "neg": false}, {"s": "true"}, ...]}
      2-4 number (or true/false) literals in ONE template, drawn so that equal-valued literals of different type
      (1 / 1.0 / true, 0 / 0.0 / -0.0 / false, 255 / 0xff / 255.0) co-occur: each must keep its own value, type and sign
  {"kind": "num", "s": "1e5"}                     one string of the exhaustive enumeration over 0-9 _ . e E x X o O b B + -

Oracle: the value Python itself assigns to the spelling (ast.literal_eval of each literal; for string cases
additionally the code points the case was built from), compared with compile_expression(src)() (value and exact
type, floats by repr) and with the rendered text of "{{ src }}" / "{% set v = src %}{{ v }}".
For "num": whenever Jinja's lexer reads the whole string as exactly one integer/float token, Python must accept the
same spelling and give the same value.
"""
import ast
import itertools
import unicodedata

from vt import core

PID = "C14"
LEVEL = "exploration"
EXHAUSTIVE = ("number spellings: every string of length <= 4 (quick) / <= 5 (thorough) over the 22 characters "
              "0-9 _ . e E x X o O b B + - is enumerated in every run of the tier")
RULE = (
    "Hypothesis: strings over all code points (incl. quotes, backslash, line breaks, controls, surrogates, astral) spelled per "
    "character as raw / simple escape / \\x / \\u / \\U / octal / \\N{name}, in both quote styles, split into 1-4 adjacent "
    "literals; integers < 10**40 in decimal/0b/0o/0x of either case with random legal underscores; float spellings drawn from "
    "the grammar digits[.digits][e[+-]digits] with underscores plus boundary values (5e-324, 1.7976931348623157e308, 1e999, "
    "-0.0 via unary minus); templates with 2-4 number / boolean literals of equal value but different type or sign (1, 1.0, true; 0.0, -0.0; 255, 0xff, 255.0) as call, keyword and filter arguments, set values, operands and display items; plus the exhaustive number-spelling enumeration. Non-trivial = the spelling differs from "
    "repr(value) (an escape, an alternative base, an underscore, a split literal...), or for enumerated strings: the lexer reads "
    "the string as one number token; distinct = distinct case."
)
ASSUMPTIONS = [
    "expected values come from Python's own literal semantics (ast.literal_eval) - 'the value Python assigns to the same spelling'",
    "only valid Python escape sequences are generated; raw line breaks inside quotes are excluded (the lexer documents normalising them)",
    "integer magnitudes stay below 10**40 (the int/str digit limit, F18, is C01's subject)",
]

ALPHABET = "0123456789_.eExXoObB+-"
SIMPLE = {0x5C: "\\\\", 0x27: "\\'", 0x22: '\\"', 0x07: "\\a", 0x08: "\\b", 0x0C: "\\f", 0x0A: "\\n", 0x0D: "\\r",
          0x09: "\\t", 0x0B: "\\v"}
MODES = ["raw", "simple", "x", "u", "U", "oct3", "oct", "N"]
_state = {}


def _setup():
    if not _state:
        import jinja2

        _state.update(env=jinja2.Environment(), TemplateSyntaxError=jinja2.TemplateSyntaxError)
    return _state


def _raw_ok(cp, quote):
    # a raw quote of the literal's own kind, a backslash or a line break cannot stand for itself; NUL and lone
    # surrogates are kept out of raw position so that Python can read the same source text
    return not (cp in (0x5C, 0x0A, 0x0D, 0x00) or chr(cp) == quote or 0xD800 <= cp <= 0xDFFF)


def spell_piece(cp, mode, quote, next_cp):
    """Spelling of one character in the requested mode (or the next applicable one)."""
    order = MODES[MODES.index(mode):] + ["U"] if mode in MODES else ["U"]
    for m in order:
        if m == "raw" and _raw_ok(cp, quote):
            return chr(cp)
        if m == "simple" and cp in SIMPLE:
            return SIMPLE[cp]
        if m == "x" and cp < 0x100:
            return "\\x%02x" % cp
        if m == "u" and cp < 0x10000:
            return "\\u%04X" % cp
        if m == "U":
            return "\\U%08x" % cp
        if m == "oct3" and cp < 0o400:       # \400..\777 are deprecated ("invalid octal escape") in Python 3.12
            return "\\%03o" % cp
        if m == "oct" and cp < 0o400 and not (next_cp is not None and 0x30 <= next_cp <= 0x37):
            return "\\%o" % cp
        if m == "N":
            try:
                return "\\N{%s}" % unicodedata.name(chr(cp))
            except ValueError:
                pass
    return "\\U%08x" % cp


def spell_part(part):
    q = part["q"]
    pieces = part["pieces"]
    out = [q]
    for idx, (cp, mode) in enumerate(pieces):
        nxt = pieces[idx + 1] if idx + 1 < len(pieces) else None
        # "next character" matters for the shortest octal form only when the next piece is printed raw
        next_cp = nxt[0] if nxt is not None and nxt[1] == "raw" else None
        out.append(spell_piece(cp, mode, q, next_cp))
    out.append(q)
    return "".join(out)


def _py_literal(src):
    """Python's value of the spelling, or raises ValueError/SyntaxError when Python does not accept it."""
    return ast.literal_eval(src)


def _observe(src, kind):
    """-> (value from compile_expression, rendered text of {{ src }}, rendered text through a set block)"""
    st = _setup()
    env = st["env"]
    value = env.compile_expression(src, undefined_to_none=False)()
    text = env.from_string("{{ " + src + " }}").render()
    text2 = env.from_string("{% set v = " + src + " %}{{ v }}").render()
    return value, text, text2


def _same(a, b):
    if type(a) is not type(b):
        return False
    if isinstance(a, float):
        return repr(a) == repr(b)
    return a == b


def _check_value(src, expected, label):
    try:
        value, text, text2 = _observe(src, label)
    except _setup()["TemplateSyntaxError"] as e:
        raise core.Violation("%s literal %r (Python value %r) is rejected: %s" % (label, src, expected, e))
    if not _same(value, expected):
        raise core.Violation("%s literal %r: compile_expression gives %r (%s), Python's value is %r (%s)"
                             % (label, src, value, type(value).__name__, expected, type(expected).__name__))
    want = expected if isinstance(expected, str) else (repr(expected) if isinstance(expected, float) else str(expected))
    if text != want or text2 != want:
        raise core.Violation("%s literal %r: rendered %r / via set %r, expected %r" % (label, src, text, text2, want))


def _show(v):
    return "%s:%s" % (type(v).__name__, repr(v))


def _check_multi(case):
    """Several literals in one template: every literal keeps its own value, type and sign although an equal
    number of another type was written earlier in the same template."""
    st = _setup()
    env = st["env"]
    srcs, expected = [], []
    for lit in case["lits"]:
        s = lit["s"]
        if s in ("true", "false"):
            v = s == "true"
        else:
            try:
                v = _py_literal(s)
            except (SyntaxError, ValueError):
                raise core.Discard()
            if type(v) not in (int, float):
                raise core.Discard()
        if lit.get("neg"):
            s, v = "-" + s, -v
        srcs.append(s)
        expected.append(v)
    want = [_show(v) for v in expected]
    seen = []

    def rec(*args, **kwargs):
        seen.append([_show(a) for a in args] + [_show(kwargs[k]) for k in sorted(kwargs)])
        return ""

    n = len(srcs)
    templates = {
        "call arguments": "{{ rec(" + ", ".join(srcs) + ") }}",
        "keyword arguments": "{{ rec(" + ", ".join("k%d=%s" % (i, x) for i, x in enumerate(srcs)) + ") }}",
        "set values": "".join("{%% set a%d = %s %%}" % (i, x) for i, x in enumerate(srcs)) + "{{ rec(" + ", ".join("a%d" % i for i in range(n)) + ") }}",
        "filter arguments": "{{ rec(" + ", ".join("nothing|default(%s)" % x for x in srcs) + ") }}",
        "operands": "{{ rec(" + ", ".join("z + %s" % x for x in srcs) + ") }}",
    }
    for name, src in templates.items():
        del seen[:]
        try:
            env.from_string(src).render(rec=rec, z=0)
        except st["TemplateSyntaxError"] as e:
            raise core.Violation("literals %r as %s are rejected: %s\n  %s" % (srcs, name, e, src))
        got = seen[0] if seen else None
        exp = want if name != "operands" else [_show(0 + v) for v in expected]
        if got != exp:
            raise core.Violation("literals %r as %s denote %r, Python's values are %r\n  %s" % (srcs, name, got, exp, src))
    # printed through set blocks (no data function involved) and as a display through compile_expression
    text = env.from_string("".join("{%% set a%d = %s %%}" % (i, x) for i, x in enumerate(srcs)) + "|".join("{{ a%d }}" % i for i in range(n))).render()
    if text != "|".join(repr(v) for v in expected):
        raise core.Violation("literals %r printed through set blocks: %r, expected %r" % (srcs, text, "|".join(repr(v) for v in expected)))
    for disp in ("[%s]", "(%s,)"):
        value = env.compile_expression(disp % ", ".join(srcs), undefined_to_none=False)()
        if [_show(v) for v in value] != want:
            raise core.Violation("display %r denotes %r, Python's values are %r" % (disp % ", ".join(srcs), [_show(v) for v in value], want))
    pairs = [(a, b) for i, a in enumerate(expected) for b in expected[i + 1:]]
    clash = any(a == b and (type(a) is not type(b) or repr(a) != repr(b)) for a, b in pairs)
    labels = ["multi"] + (["multi_equal_values_differ_in_type_or_sign"] if clash else [])
    if any(a == 0 and b == 0 and repr(a) != repr(b) and type(a) is float and type(b) is float for a, b in pairs):
        labels.append("multi_signed_zero_pair")
    return core.Outcome(clash, labels)


def check_case(case):
    kind = case["kind"]
    if kind == "str":
        parts = case["parts"]
        seps = case.get("seps") or []
        srcs = [spell_part(p) for p in parts]
        expected = "".join(chr(cp) for p in parts for cp, _ in p["pieces"])
        try:
            py = "".join(_py_literal(s) for s in srcs)
        except (SyntaxError, ValueError) as e:
            raise core.HarnessError("generated string spelling %r is not a Python literal: %s" % (srcs, e))
        if py != expected:
            raise core.HarnessError("spelling %r denotes %r in Python, built from %r" % (srcs, py, expected))
        src = srcs[0]
        for i, s in enumerate(srcs[1:]):
            src += (seps[i] if i < len(seps) else " ") + s
        _check_value(src, expected, "string")
        plain = len(parts) == 1 and all(m == "raw" or spell_piece(cp, m, parts[0]["q"], None) == chr(cp) for cp, m in parts[0]["pieces"])
        labels = ["str", "adjacent" if len(parts) > 1 else "single"]
        labels += sorted({"mode_" + m for p in parts for _, m in p["pieces"]})
        if any(0xD800 <= cp <= 0xDFFF for p in parts for cp, _ in p["pieces"]):
            labels.append("surrogate")
        if any(cp > 0xFFFF for p in parts for cp, _ in p["pieces"]):
            labels.append("astral")
        return core.Outcome(not plain, labels)
    if kind == "int":
        s = case["spelling"]
        try:
            expected = _py_literal(s)
        except (SyntaxError, ValueError):
            raise core.Discard()
        if type(expected) is not int or expected < 0 or expected >= 10**40:
            raise core.Discard()
        _check_value(s, expected, "integer")
        base = "dec" if s[:2].lower() not in ("0b", "0o", "0x") else s[:2].lower()
        return core.Outcome(s != repr(expected), ["int", "int_" + base] + (["underscore"] if "_" in s else []))
    if kind == "float":
        s = case["spelling"]
        try:
            expected = _py_literal(s)
        except (SyntaxError, ValueError):
            raise core.Discard()
        if type(expected) is not float:
            raise core.Discard()
        src = s
        if case.get("neg"):
            src, expected = "-" + s, -expected
        _check_value(src, expected, "float")
        labels = ["float"] + (["underscore"] if "_" in s else []) + (["exponent"] if "e" in s.lower() else [])
        if expected in (float("inf"), float("-inf")):
            labels.append("float_inf")
        if expected == 0.0:
            labels.append("float_zero")
        return core.Outcome(src != repr(expected), labels)
    if kind == "multi":
        return _check_multi(case)
    if kind == "num":
        s = case["s"]
        st = _setup()
        try:
            toks = list(st["env"].lex("{{ " + s + " }}"))
        except st["TemplateSyntaxError"]:
            return core.Outcome(False, ["enum_not_lexable"])
        if not (len(toks) == 5 and toks[2][1] in ("integer", "float") and toks[2][2] == s):
            return core.Outcome(False, ["enum_not_one_number"])
        tok = toks[2][1]
        try:
            expected = _py_literal(s)
        except (SyntaxError, ValueError) as e:
            raise core.Violation("the lexer reads %r as one %s token, Python rejects the spelling (%s)" % (s, tok, e))
        if type(expected) not in (int, float):
            raise core.Violation("the lexer reads %r as one %s token, Python reads %r" % (s, tok, expected))
        _check_value(s, expected, "enumerated " + tok)
        return core.Outcome(True, ["enum_" + tok])
    raise core.HarnessError("unknown case kind %r" % (kind,))


# ---------------------------------------------------------------------------------------------------
# generators

SPECIAL_CPS = [0x27, 0x22, 0x5C, 0x0A, 0x0D, 0x09, 0x00, 0x07, 0x08, 0x0B, 0x0C, 0x1B, 0x7F, 0x85, 0xA0, 0xE9, 0xDF, 0xFF,
               0x100, 0x1FF, 0x200, 0x2028, 0x2029, 0xFEFF, 0xFFFF, 0x10000, 0x1F600, 0x10FFFF, 0xD800, 0xDC80, 0xDFFF,
               0x61, 0x20, 0x7B, 0x7D, 0x25, 0x23, 0x30, 0x37, 0x38, 0x4E, 0x78, 0x75]


def _decode_pieces(nums):
    """One drawn integer per character: code point class / code point / spelling mode / literal break / quote.
    (A flat list of integers costs a fraction of nested list-of-tuple strategies and shrinks towards 'a' printed raw.)"""
    parts, seps = [], []
    modes = ["raw"] + MODES + ["raw"]
    for n in nums:
        n = (n * 2654435761) % 2**32   # spread Hypothesis' small-number bias over all fields; 0 stays 0
        n, a = divmod(n, 8)
        n, b = divmod(n, 0x110000)
        n, m = divmod(n, len(modes))
        n, brk = divmod(n, 6)
        q = "'\""[n % 2]
        if a in (1, 2):
            cp = SPECIAL_CPS[b % len(SPECIAL_CPS)]
        elif a in (0, 3):
            cp = 0x61 + b % 26 if a == 0 else 0x20 + b % 95
        elif a == 4:
            cp = b % 0x300
        else:
            cp = b
        if not parts or (brk == 5 and len(parts) < 4):
            if parts:
                seps.append(["", " ", "  ", "\n", "\t"][b % 5])
            parts.append({"q": q, "pieces": []})
        parts[-1]["pieces"].append([cp, modes[m]])
    if not parts:
        parts.append({"q": "'", "pieces": []})
    return {"kind": "str", "parts": parts, "seps": seps}


def str_cases():
    import hypothesis.strategies as st

    return st.lists(st.integers(0, 2**31 - 1), max_size=10).map(_decode_pieces)


def _underscored(digits, flags, lead=False):
    """Insert '_' between digits (and after a base prefix when lead) where the flag bits say so."""
    out = []
    for i, ch in enumerate(digits):
        if (i > 0 or lead) and (flags >> (i % 24)) & 1:
            out.append("_")
        out.append(ch)
    return "".join(out)


def _build_int(t):
    n, k = t
    k = (k * 0x9E3779B97F4A7C15) % 2**64
    k, base = divmod(k, 5)
    base = [10, 10, 16, 2, 8][base]
    k, up_prefix = divmod(k, 2)
    k, up_digits = divmod(k, 2)
    k, zeros = divmod(k, 3)
    k, dense = divmod(k, 4)
    flags = k & (k >> 1) if dense else 0   # sparse underscores, none at all in 1 of 4
    if base == 10:
        digits = str(n) if n else "0" * (1 + zeros)
        return {"kind": "int", "spelling": _underscored(digits, flags)}
    prefix = {2: "0b", 8: "0o", 16: "0x"}[base]
    digits = "0" * zeros + {2: "{:b}", 8: "{:o}", 16: "{:x}"}[base].format(n)
    if up_digits:
        digits = digits.upper()
    return {"kind": "int", "spelling": (prefix.upper() if up_prefix else prefix) + _underscored(digits, flags, lead=True)}


def int_cases():
    import hypothesis.strategies as st

    value = st.one_of(st.integers(0, 300), st.integers(0, 10**40 - 1), st.sampled_from([0, 1, 7, 8, 9, 10, 255, 256, 2**31, 2**63, 2**64, 10**39]))
    return st.tuples(value, st.integers(0, 2**40)).map(_build_int)


BOUNDARY_FLOATS = ["5e-324", "4.9e-324", "2.2250738585072014e-308", "1.7976931348623157e308", "1.7976931348623158e308",
                   "1.7976931348623159e308", "1e999", "1e308", "1e309", "0.0", "0.1", "1e22", "1e23", "9007199254740993.0",
                   "0.30000000000000004", "1e-400", "2.5e-324", "123456789012345678901234567890.0", "00.5", "1E5", "1e+5",
                   "1_0.0_1", "0e0", "1_000e1_0"]


def _build_float(t):
    a, b, c, k = t
    k = (k * 0x9E3779B97F4A7C15) % 2**64
    k, kind = divmod(k, 8)
    k, neg = divmod(k, 4)
    if kind == 0:
        return {"kind": "float", "spelling": BOUNDARY_FLOATS[a % len(BOUNDARY_FLOATS)], "neg": neg == 3}
    k, has_frac = divmod(k, 2)
    k, has_exp = divmod(k, 2)
    k, sign = divmod(k, 4)
    k, upper = divmod(k, 2)
    k, pad = divmod(k, 3)
    k, dense = divmod(k, 3)
    flags = k & (k >> 1) if dense else 0
    if not has_frac and not has_exp:
        has_frac = 1
    s = _underscored("0" * (pad == 2) + str(a), flags)
    if has_frac:
        s += "." + _underscored("0" * pad + str(b), flags >> 5)
    if has_exp:
        s += ("E" if upper else "e") + ["", "+", "-", "-"][sign] + _underscored("0" * (pad == 1) + str(c), flags >> 11)
    return {"kind": "float", "spelling": s, "neg": neg == 3}


def float_cases():
    import hypothesis.strategies as st

    digits = st.one_of(st.integers(0, 99), st.integers(0, 10**9), st.integers(0, 10**18))
    gen = st.tuples(digits, digits, st.one_of(st.integers(0, 30), st.integers(0, 400)), st.integers(0, 2**40)).map(_build_float)
    reprs = st.builds(lambda f, neg: {"kind": "float", "spelling": repr(f), "neg": neg},
                      st.floats(min_value=0.0, allow_nan=False, allow_infinity=False), st.booleans())
    return st.one_of(gen, gen, gen, reprs)


_MULTI_BASES = [0, 0, 0, 0, 1, 1, 1, 2, 3, 7, 10, 16, 100, 255, 1000, 65536, 10**6, 10**15]


def _build_multi(t):
    """2-4 literals around one base value: the same number spelled as int (decimal / hex / binary / underscored), as
    float (fraction / exponent), as true/false when it is 0 or 1, with and without a unary minus, and a neighbour."""
    k0, ks = t
    k0 = (k0 * 0x9E3779B97F4A7C15) % 2**64 >> 20
    b = _MULTI_BASES[k0 % len(_MULTI_BASES)]
    lits = []
    for k in ks:
        k = (k * 0x9E3779B97F4A7C15) % 2**64 >> 20
        k, form = divmod(k, 10)
        k, neg = divmod(k, 4)
        k, other = divmod(k, 8)
        v = b + 1 if other == 0 else b
        if form == 0:
            s = str(v)
        elif form == 1:
            s = hex(v)
        elif form == 2:
            s = bin(v) if v < 2**20 else "%d_%03d" % divmod(v, 1000)
        elif form in (3, 4):
            s = "%d.0" % v
        elif form == 5:
            s = "%de0" % v
        elif form == 6:
            s = "%d.00E+0" % v
        elif form == 7:
            s = repr(float(v))
        elif form == 8 and v in (0, 1):
            lits.append({"s": "true" if v else "false"})
            continue
        else:
            s = "%d.0" % v if k & 1 else str(v)
        lits.append({"s": s, "neg": neg == 3 or (v == 0 and neg == 2)})
    return {"kind": "multi", "lits": lits}


def multi_cases():
    import hypothesis.strategies as st

    big = st.integers(0, 2**40)
    return st.tuples(big, st.lists(big, min_size=2, max_size=4)).map(_build_multi)


def enum_cases(maxlen):
    for n in range(1, maxlen + 1):
        for tup in itertools.product(ALPHABET, repeat=n):
            yield {"kind": "num", "s": "".join(tup)}


def shards(tier):
    return [{"i": i} for i in range(16)]


def run_shard(spec, ctx):
    rec = core.Rec()
    core.hyp_shard(str_cases(), check_case, ctx, ctx.pick(5000, 80000), rec=rec, tag="str")
    core.hyp_shard(int_cases(), check_case, ctx, ctx.pick(2500, 40000), rec=rec, tag="int")
    core.hyp_shard(float_cases(), check_case, ctx, ctx.pick(2500, 40000), rec=rec, tag="float")
    core.hyp_shard(multi_cases(), check_case, ctx, ctx.pick(1200, 20000), rec=rec, tag="multi")
    core.enum_shard(core.sliced(enum_cases(ctx.pick(4, 5)), ctx.index, ctx.nshards), check_case, ctx, rec=rec)
    return rec


def floors(total, tier):
    need = {"surrogate": 50, "astral": 50, "adjacent": 500, "mode_N": 200, "mode_oct": 200, "int_0x": 100, "int_0b": 100,
            "int_0o": 100, "underscore": 200, "float_inf": 5, "multi_equal_values_differ_in_type_or_sign": 500,
            "multi_signed_zero_pair": 50, "enum_integer": 1000, "enum_float": 1000}
    for lab, n in need.items():
        if total.labels.get(lab, 0) < n:
            return "label %s seen %d times (< %d)" % (lab, total.labels.get(lab, 0), n)
    return None
