"""C30 - template compilation is deterministic (same generated Python source on every compilation, in every
process, under every PYTHONHASHSEED).

Case (plain JSON):  {"source": template source,
                     "env": {"extensions": [import names], "async": bool, "autoescape": bool, "newstyle": bool}}

Oracle (differential, by design between runs of the implementation): ``Environment(**env).compile(source,
raw=True)`` is executed twice in each of 7 fresh interpreter processes started with PYTHONHASHSEED = 0, 1, 2, 3,
4, 5, 12345; all 14 results must be the same string (a template that does not compile must fail with the same
exception class everywhere).

Batching: starting an interpreter and importing jinja2 costs ~0.15 s, so a shard first *generates* all its
templates (seeded Hypothesis, generate phase only), writes them to /verif/.work/c30-<pid>/batch.json, starts one
worker process per hash seed which compiles every template twice and prints two digests per template, and then
judges every template from the digests.  A template whose digests differ is re-run alone through ``check_case``
(which transfers the full generated sources and reports a unified diff) and shrunk by batched delta debugging of
the template source (each round = one batch of candidates = 7 processes).  ``check_case`` on one case is what
replays / known findings / --replay use.
"""
import difflib
import hashlib
import json
import os
import re
import shutil
import subprocess
import sys

from hypothesis import strategies as st

from vt import core
from vt.gen import expr as GE
from vt.gen import stmt as G
from vt.gen import tsets
from vt.props import c32 as L  # local source-level shape generator

PID = "C30"
LEVEL = "exploration"
HASH_SEEDS = ("0", "1", "2", "3", "4", "5", "12345")
RULE = (
    "Hypothesis-generated template sources from six streams -- G-stmt programs printed after a random bijective "
    "renaming into ASCII / keyword / generated-code-like / dunder / Unicode identifiers; every template of G-inherit "
    "hierarchies and G-modules include/import sets; the local scoping-shape generator over a 16-name pool (tuple and "
    "nested targets, branch stores, macros with defaults / varargs / kwargs / caller, imports, scoped blocks, trans "
    "blocks with up to 4 free variables and plurals, filter/test chains); 'dense' templates (3-8 distinct names stored "
    "in one frame by set / tuple set / block set / import / from-import / macro / loop target inside toplevel / for / "
    "macro / block / with / if-branches, followed by a construct that dumps the frame's stores: include / import with "
    "context, scoped block, call block; chains of 3-8 distinct filters and tests; trans blocks with 3-8 variables; filters "
    "applied to literals, which the optimizer evaluates so that their result text lands in the source: urlize with rel / "
    "nofollow / target / extra_schemes on texts with URLs, xmlattr / tojson / dictsort / groupby / unique / items / string / "
    "list / sort / pprint ... on literal dicts and lists; `name in / not in` a literal list or tuple of 2-6 distinct strings in "
    "if tests, outputs, loop filters, assignments and conditional expressions; block / macro / import-alias names drawn "
    "from the NFKC-stable Unicode, keyword, generated-code-like and dunder identifier pools); "
    "G-expr expression trees in output / if / set positions; and srcgen grammar sources when that generator exists -- "
    "each compiled twice in 7 fresh processes (PYTHONHASHSEED 0,1,2,3,4,5,12345) under a drawn environment "
    "(extensions i18n/do/loopcontrols, sync/async, autoescape, old/new style gettext). Non-trivial = the template "
    "compiles and has >= 3 names stored in one frame, or >= 3 distinct filters/tests, or a trans block with >= 3 free "
    "variables (places where the compiler iterates a set); distinct = distinct (source, environment)."
)
ASSUMPTIONS = [
    "determinism is judged on Environment.compile(source, raw=True), i.e. the generated Python source; two processes "
    "with different PYTHONHASHSEED stand for 'interpreter processes with different hash seeds'",
    "templates that do not compile must raise the same exception class in every process (messages are not compared)",
    "the worker processes import jinja2 from the same directory as the harness process (asserted)",
]

_WORKER = r'''
import hashlib, json, os, sys
path, expect, mode = sys.argv[1:4]
import jinja2
if os.path.dirname(os.path.dirname(os.path.abspath(jinja2.__file__))) != expect:
    sys.stdout.write("WRONG-JINJA " + jinja2.__file__)
    sys.exit(3)
with open(path) as f:
    cases = json.load(f)
envs = {}
def env_for(o):
    key = json.dumps(o, sort_keys=True)
    e = envs.get(key)
    if e is None:
        ext = list(o.get("extensions") or [])
        e = jinja2.Environment(extensions=ext, enable_async=bool(o.get("async")), autoescape=bool(o.get("autoescape")))
        if "jinja2.ext.i18n" in ext:
            e.install_null_translations(newstyle=bool(o.get("newstyle")))
        envs[key] = e
    return e
out = []
for c in cases:
    env = env_for(c["env"])
    r = []
    for k in range(2):
        try:
            r.append(env.compile(c["source"], raw=True))
        except jinja2.TemplateSyntaxError as e:
            r.append("!syntax:" + type(e).__name__)
        except RecursionError:
            r.append("!RecursionError")
        except Exception as e:
            r.append("!other:" + type(e).__name__)
    if mode == "hash":
        r = [x if x.startswith("!") else hashlib.blake2b(x.encode("utf-8", "surrogatepass"), digest_size=12).hexdigest() for x in r]
    out.append(r)
json.dump(out, sys.stdout)
'''


def _jinja_root():
    import jinja2

    return os.path.dirname(os.path.dirname(os.path.abspath(jinja2.__file__)))


def run_workers(cases, mode, parallel):
    """-> {hash seed: [[first, second], ...] per case}; mode "hash" (digests) or "source" (full text)."""
    root = _jinja_root()
    d = os.path.join(core.VERIF, ".work", "c30-%d" % os.getpid())
    os.makedirs(d, exist_ok=True)
    path = os.path.join(d, "batch.json")
    try:
        with open(path, "w") as f:
            json.dump(cases, f)
        base = dict(os.environ)
        base["PYTHONPATH"] = os.pathsep.join([root] + ([base["PYTHONPATH"]] if base.get("PYTHONPATH") else []))
        base["PYTHONDONTWRITEBYTECODE"] = "1"
        argv = [sys.executable, "-W", "ignore", "-c", _WORKER, path, root, mode]

        def start(seed):
            return subprocess.Popen(argv, env=dict(base, PYTHONHASHSEED=seed), stdout=subprocess.PIPE, stderr=subprocess.PIPE)

        def finish(seed, p):
            o, e = p.communicate()
            if p.returncode != 0:
                raise core.HarnessError("C30 worker (PYTHONHASHSEED=%s) exited %s: %s %s" % (seed, p.returncode, o[-300:], e[-1500:]))
            res = json.loads(o)
            if len(res) != len(cases):
                raise core.HarnessError("C30 worker returned %d results for %d cases" % (len(res), len(cases)))
            return res

        out = {}
        if parallel:
            procs = [(s, start(s)) for s in HASH_SEEDS]
            for s, p in procs:
                out[s] = finish(s, p)
        else:
            for s in HASH_SEEDS:
                out[s] = finish(s, start(s))
        return out
    finally:
        shutil.rmtree(d, ignore_errors=True)


# ---------------------------------------------------------------------------------------------------------
# classification (labels and the non-triviality rule; never the verdict)

_envs = {}


def _env_for(o):
    import jinja2

    key = json.dumps(o, sort_keys=True)
    e = _envs.get(key)
    if e is None:
        ext = list(o.get("extensions") or [])
        e = jinja2.Environment(extensions=ext, enable_async=bool(o.get("async")), autoescape=bool(o.get("autoescape")))
        if "jinja2.ext.i18n" in ext:
            e.install_null_translations(newstyle=bool(o.get("newstyle")))
        _envs[key] = e
    return e


_TRANS_RE = re.compile(r"\{%-?\s*trans\b(.*?)-?%\}(.*?)\{%-?\s*endtrans\s*-?%\}", re.S)
_VAR_RE = re.compile(r"\{\{-?\s*([^\W\d]\w*)\s*-?\}\}")
_HEAD_RE = re.compile(r"(?:^|,)\s*([^\W\d]\w*)")


EXCLUDED_LABEL = "excluded_folded_address_text"
_ADDR_RE = re.compile(r"(?i) at 0x[0-9a-f]+")


def _folds_address_text(ast, env, nodes):
    """Known finding F50b (known_findings.d/C30.json): a constant subexpression that evaluates to an object with
    Python's default repr (the iterator of ``[1]|reverse`` / ``|batch`` / ``|select`` / ``|unique``, the bound method
    ``'a'.upper``) and is turned into *text* at compile time (``~``, ``|string``, ``|e``, ``|join``, ``|format``,
    ``|upper`` ...) is folded into the generated source, memory address included.  True when
      * some expression of the template is a compile-time constant *string*, and one of its direct operands is a
        compile-time constant that is not text and whose repr carries an address (the text may be mangled afterwards
        by ``|upper`` / ``|title`` / ``|reverse`` ..., so the operand is inspected, not only the result), or
      * some compile-time constant is itself a string holding an address;
    these templates are excluded from the generated search.  (An output / assignment whose constant value is the
    object itself is F50, fixed, and is *not* excluded.)"""
    eval_ctx = nodes.EvalContext(env, None)
    memo = {}

    def const_of(node):
        k = id(node)
        if k not in memo:
            try:
                memo[k] = (True, node.as_const(eval_ctx))
            except Exception:  # noqa: BLE001 - not a compile-time constant (Impossible) or not evaluable: never folded
                memo[k] = (False, None)
        return memo[k]

    def operands(node):
        for child in node.iter_child_nodes():
            if isinstance(child, nodes.Expr):
                yield child
            else:  # Keyword / Pair / Operand helpers
                yield from operands(child)

    def unstable(v):
        if isinstance(v, str):
            return False
        try:
            return _ADDR_RE.search(repr(v)) is not None
        except Exception:  # noqa: BLE001
            return True

    for node in ast.find_all(nodes.Expr):
        if isinstance(node, (nodes.Const, nodes.TemplateData, nodes.Name)):
            continue
        ok, v = const_of(node)
        if not ok:
            continue
        if isinstance(v, str):
            if _ADDR_RE.search(v):
                return True
            for c in operands(node):
                okc, vc = const_of(c)
                if okc and unstable(vc):
                    return True
    return False


def classify(case):
    """-> (nontrivial, labels) from the source text and Jinja's parse tree."""
    import jinja2
    from jinja2 import nodes
    from jinja2.idtracking import symbols_for_node

    src, o = case["source"], case["env"]
    labels = set()
    if o.get("async"):
        labels.add("env_async")
    if o.get("autoescape"):
        labels.add("env_autoescape")
    if "jinja2.ext.i18n" in (o.get("extensions") or []):
        labels.add("env_i18n_newstyle" if o.get("newstyle") else "env_i18n_oldstyle")
    if not src.isascii():
        labels.add("non_ascii_source")
    try:
        ast = _env_for(o).parse(src)
    except jinja2.TemplateSyntaxError:
        labels.add("does_not_parse")
        return False, labels
    except RecursionError:
        labels.add("does_not_parse")
        return False, labels
    if _folds_address_text(ast, _env_for(o), nodes):
        labels.add(EXCLUDED_LABEL)
    nt = False
    names = {n.name for n in ast.find_all(nodes.Filter)} | {"is " + n.name for n in ast.find_all(nodes.Test)}
    if len(names) >= 3:
        labels.add("filters_tests_3plus")
        nt = True
    most = 0
    frames = [ast] + list(ast.find_all((nodes.For, nodes.Macro, nodes.CallBlock, nodes.With, nodes.AssignBlock, nodes.FilterBlock, nodes.Block)))
    for fr in frames:
        try:
            most = max(most, len(symbols_for_node(fr).stores))
        except Exception:  # noqa: BLE001 - labelling only
            pass
    if most >= 3:
        labels.add("stores_3plus_in_frame")
        nt = True
    if most >= 6:
        labels.add("stores_6plus_in_frame")
    for m in _TRANS_RE.finditer(src):
        labels.add("trans_block")
        head = m.group(1)
        declared = set(_HEAD_RE.findall(re.sub(r"=[^,]*", "", head)))
        free = set(_VAR_RE.findall(m.group(2))) - declared
        if len(free) >= 3:
            labels.add("trans_free_3plus")
            nt = True
        if "pluralize" in m.group(2):
            labels.add("trans_plural")
    for n in ast.find_all(nodes.Filter):
        if isinstance(n.node, (nodes.Const, nodes.List, nodes.Dict, nodes.Tuple)):
            labels.add("filter_on_literal")
            if n.name == "urlize" and any(kw.key in ("rel", "nofollow") for kw in n.kwargs):
                labels.add("urlize_rel_on_literal")
    for n in ast.find_all(nodes.Operand):
        if n.op in ("in", "notin") and isinstance(n.expr, (nodes.List, nodes.Tuple)) and len(n.expr.items) >= 2 \
                and all(isinstance(x, nodes.Const) and isinstance(x.value, str) for x in n.expr.items):
            labels.add("in_literal_strings")
            break
    if any(isinstance(n.target, nodes.Tuple) for n in ast.find_all((nodes.Assign, nodes.For))):
        labels.add("tuple_unpacking")
    if next(ast.find_all((nodes.Import, nodes.FromImport)), None) is not None:
        labels.add("imports")
    if next(ast.find_all(nodes.Include), None) is not None:
        labels.add("include")
    for n in ast.find_all((nodes.Macro, nodes.CallBlock)):
        labels.add("macro")
        used = {x.name for x in n.find_all(nodes.Name)}
        if used & {"varargs", "kwargs", "caller"}:
            labels.add("macro_special_params")
    if any(not b.name.isascii() for b in ast.find_all(nodes.Block)):
        labels.add("non_ascii_block_name")
    if any(not m.name.isascii() for m in ast.find_all(nodes.Macro)) or any(not i.target.isascii() for i in ast.find_all(nodes.Import)):
        labels.add("non_ascii_macro_or_alias")
    if any(b.scoped for b in ast.find_all(nodes.Block)):
        labels.add("scoped_block")
    for n in ast.find_all(nodes.If):
        st_ = set()
        for b in (n.body, n.else_):
            for x in b:
                for a in [x] + list(x.find_all((nodes.Assign, nodes.AssignBlock))):
                    if isinstance(a, (nodes.Assign, nodes.AssignBlock)):
                        st_.update(t.name for t in ([a.target] + list(a.target.find_all(nodes.Name))) if isinstance(t, nodes.Name))
        if len(st_) >= 2:
            labels.add("branch_stores_2plus")
            break
    return nt, labels


# ---------------------------------------------------------------------------------------------------------
# the oracle


def _verdict(case, per_seed, full):
    """per_seed: {seed: [first, second]} for this case.  Raises Violation when they are not all equal."""
    ref_seed = HASH_SEEDS[0]
    ref = per_seed[ref_seed][0]
    for s in HASH_SEEDS:
        for k in (0, 1):
            got = per_seed[s][k]
            if got != ref:
                where = "compilation #%d under PYTHONHASHSEED=%s vs compilation #1 under PYTHONHASHSEED=%s" % (k + 1, s, ref_seed)
                if full:
                    diff = "\n".join(list(difflib.unified_diff(ref.splitlines(), got.splitlines(), "seed" + ref_seed, "seed" + s, lineterm="", n=1))[:60])
                else:
                    diff = "(digests differ)"
                raise core.Violation("generated source differs: %s\n  environment: %r\n  template: %s\n%s" % (where, case["env"], case["source"], diff))
    return ref


def check_case(case, judge_excluded=False):
    nt, labels = classify(case)
    if EXCLUDED_LABEL in labels and not judge_excluded:
        raise core.Excluded()
    res = run_workers([case], "source", parallel=True)
    ref = _verdict(case, {s: res[s][0] for s in HASH_SEEDS}, True)
    if ref.startswith("!"):
        labels.add("compile_error_" + ref[1:].split(":")[0])
        nt = False
    else:
        labels.add("compiles")
    return core.Outcome(nt, sorted(labels))


def check_known(entry):
    """Known findings are replayed without the exclusion of their input class."""
    return check_case(entry["case"], judge_excluded=True)


def _mismatch(per_seed):
    ref = per_seed[HASH_SEEDS[0]][0]
    return any(per_seed[s][k] != ref for s in HASH_SEEDS for k in (0, 1))


_TOKEN_RE = re.compile(r"\{%.*?%\}|\{\{.*?\}\}|\{#.*?#\}", re.S)


def _tokens(src):
    out, pos = [], 0
    for m in _TOKEN_RE.finditer(src):
        if m.start() > pos:
            out.append(src[pos:m.start()])
        out.append(m.group())
        pos = m.end()
    if pos < len(src):
        out.append(src[pos:])
    return out


def _shrink(case, max_rounds=10):
    """Batched delta debugging of the template source: first over tag / text tokens, then over characters.  Every
    round tries all chunk deletions of the current granularity in one batch (7 worker processes) and keeps the
    shortest candidate that still compiles (under hash seed 0) and still differs between hash seeds."""
    env = case["env"]

    def still_fails(cands):
        res = run_workers([{"source": c, "env": env} for c in cands], "hash", parallel=True)
        best = None
        for j, c in enumerate(cands):
            per = {s: res[s][j] for s in HASH_SEEDS}
            if _mismatch(per) and not per[HASH_SEEDS[0]][0].startswith("!") and (best is None or len(c) < len(best)):
                if EXCLUDED_LABEL not in classify({"source": c, "env": env})[1]:  # do not drift into the known finding
                    best = c
        return best

    def ddmin(items, rounds):
        n = 2
        while len(items) >= 2 and rounds > 0:
            rounds -= 1
            size = max(1, len(items) // n)
            cands = []
            for i in range(0, len(items), size):
                c = "".join(items[:i] + items[i + size:])
                if c and c not in cands:
                    cands.append(c)
            hit = still_fails(cands[:300])
            if hit is not None:
                items = _tokens(hit) if tokenwise[0] else list(hit)
                n = max(n - 1, 2)
            elif size == 1:
                break
            else:
                n = min(n * 2, len(items))
        return "".join(items)

    tokenwise = [True]
    src = ddmin(_tokens(case["source"]), max_rounds)
    tokenwise[0] = False
    if len(src) <= 300:
        src = ddmin(list(src), 4)
    return {"source": src, "env": env}


def judge_batch(cases, rec):
    """Run the batch oracle on the cases and record one evaluation per case in ``rec``."""
    if not cases:
        return
    res = run_workers(cases, "hash", parallel=False)
    for i, case in enumerate(cases):
        per = {s: res[s][i] for s in HASH_SEEDS}

        def one(c, per=per):
            nt, labels = classify(c)
            if EXCLUDED_LABEL in labels:
                raise core.Excluded()
            if _mismatch(per):
                small = _shrink(c)
                try:
                    check_case(small)
                except core.Violation as v:
                    raise _Shrunk(small, v) from None
                check_case(c)
                raise core.Violation("digests of the generated source differ between hash seeds but the single-case run did not reproduce it: %r" % (c,))
            first = per[HASH_SEEDS[0]][0]
            if first.startswith("!"):
                labels.add("compile_error_" + first[1:].split(":")[0])
                nt = False
            else:
                labels.add("compiles")
            return core.Outcome(nt, sorted(labels))

        before = len(rec.violations)
        rec.run(one, case)
        # Rec.run files a violation under the *original* case; file it under the shrunk one when there is one
        for v in rec.violations[before:]:
            small = (v.get("details") or {}).pop("shrunk", None)
            if small:
                v["case"] = small
        if rec.violations:
            break  # one (shrunk) violation per shard is enough; shrinking costs worker processes


class _Shrunk(core.Violation):
    def __init__(self, small, v):
        core.Violation.__init__(self, str(v), shrunk=small)


# ---------------------------------------------------------------------------------------------------------
# generators of template sources

EXT_I18N, EXT_DO, EXT_LOOP = "jinja2.ext.i18n", "jinja2.ext.do", "jinja2.ext.loopcontrols"
ALL_EXT = [EXT_I18N, EXT_DO, EXT_LOOP]

DENSE_POOL = ("a", "b", "c", "d", "e1", "f1", "g1", "h", "i", "j", "k", "x", "y", "z", "item", "value", "total", "idx", "name",
              "key", "alpha", "beta", "gamma", "_p", "_q", "Q", "R2", "aa", "ab", "ba", "n0", "n1", "n2", "n3", "row", "col",
              "é", "ñ", "α", "Ω", "名", "l_0_a", "t_1", "context", "loop_", "class", "def")


@st.composite
def env_options(draw, need=()):
    ext = [e for e in ALL_EXT if e in need or draw(st.booleans())]
    return {"extensions": ext, "async": draw(st.integers(0, 3)) == 0, "autoescape": draw(st.integers(0, 3)) == 0,
            "newstyle": draw(st.booleans())}


@st.composite
def stmt_sources(draw, max_depth, max_nodes):
    prog = draw(G.programs(max_depth, max_nodes, autoescape=True))
    rename = draw(G.renamings(prog)) if draw(st.integers(0, 3)) else None
    return [{"source": G.print_program(prog, rename), "env": draw(env_options(need=(EXT_LOOP,)))}]


@st.composite
def set_sources(draw, which, size):
    c = draw(tsets.hierarchies(3, 4, size) if which == "inherit" else tsets.module_sets(3, size))
    env = draw(env_options())
    return [{"source": src, "env": env} for _, src in sorted(tsets.print_set(c["ir"]).items())]


@st.composite
def local_sources(draw, budget):
    s = draw(L.local_sets(L.WIDE_POOL, budget, rich=True))
    env = draw(env_options(need=ALL_EXT))
    return [{"source": s["templates"][n], "env": env} for n in ("main", "side")]


@st.composite
def expr_sources(draw, depth):
    es = [GE.print_expr(draw(GE.exprs(depth, "any", nonfinite_literals=False)), draw(st.integers(0, 3))) for _ in range(3)]
    shape = draw(st.integers(0, 3))
    if shape == 0:
        src = "{{ %s }}{{ %s }}{{ %s }}" % tuple(es)
    elif shape == 1:
        src = "{%% if (%s) %%}{{ %s }}{%% else %%}{{ %s }}{%% endif %%}" % tuple(es)
    elif shape == 2:
        src = "{%% set r = %s %%}{%% for q in (%s) %%}{{ %s }}{%% endfor %%}" % tuple(es)
    else:
        src = "{%% macro m(p=%s) %%}{{ %s }}{%% endmacro %%}{{ m(%s) }}" % tuple(es)
    return [{"source": src, "env": draw(env_options())}]


class _Dense:
    def __init__(self, draw):
        self.draw = draw

    def i(self, lo, hi):
        return self.draw(st.integers(lo, hi))

    def pick(self, seq):
        return seq[self.i(0, len(seq) - 1)]

    def ident(self, plain):
        """A name for a block / macro / import alias: the plain ASCII one or an identifier of the alpha-renaming pools
        of vt/gen/stmt.py (NFKC-stable Unicode, Python keywords, generated-code look-alikes, dunders)."""
        k = self.i(0, 5)
        if k <= 1:
            return plain
        if k <= 3:
            return self.pick(G.IDENT_CLASSES["unicode"])
        return self.pick(G.ALL_IDENTS)

    def names(self, k):
        idx = self.draw(st.lists(st.integers(0, len(DENSE_POOL) - 1), min_size=k, max_size=k, unique=True))
        return [DENSE_POOL[j] for j in idx]

    def value(self, ns):
        return self.pick(("1", "'v'", "[1, 2]", self.pick(ns), "%s ~ %s" % (self.pick(ns), self.pick(ns)), "%s|default(0)" % self.pick(ns)))

    def stores(self, ns):
        """Statements that store every name of ns once (in a drawn order and with drawn store kinds)."""
        out = []
        todo = list(ns)
        while todo:
            k = self.pick(("set", "set", "tset", "tset", "setblock", "import", "from", "macro", "for", "ifset", "with_"))
            n = todo.pop(self.i(0, len(todo) - 1))
            if k == "set":
                out.append("{%% set %s = %s %%}" % (n, self.value(ns)))
            elif k == "tset":
                grp = [n]
                while todo and len(grp) < 5 and self.i(0, 3):
                    grp.append(todo.pop(self.i(0, len(todo) - 1)))
                if len(grp) == 1:
                    out.append("{%% set %s = %s %%}" % (n, self.value(ns)))
                else:
                    out.append("{%% set %s = %s %%}" % (", ".join(grp), ", ".join(self.value(ns) for _ in grp)))
            elif k == "setblock":
                out.append("{%% set %s %%}t{{ %s }}{%% endset %%}" % (n, self.pick(ns)))
            elif k == "import":
                out.append("{%% import 'lib' as %s%s %%}" % (n, self.pick(("", " with context"))))
            elif k == "from":
                grp = [n]
                while todo and len(grp) < 4 and self.i(0, 2):
                    grp.append(todo.pop(self.i(0, len(todo) - 1)))
                items = ", ".join(g if self.i(0, 1) else "w%d as %s" % (j, g) for j, g in enumerate(grp))
                out.append("{%% from 'lib' import %s%s %%}" % (items, self.pick(("", " with context"))))
            elif k == "macro":
                out.append("{%% macro %s(%s) %%}{{ varargs }}{{ kwargs }}{{ caller() }}{%% endmacro %%}" % (n, ", ".join("%s=%s" % (p, p) for p in self.names(self.i(0, 3)) if p != n)))
            elif k == "for":
                grp = [n]
                while todo and len(grp) < 3 and self.i(0, 1):
                    grp.append(todo.pop(self.i(0, len(todo) - 1)))
                # a loop's targets are stores of the loop frame; the following statements join that frame
                out.append(("for", grp))
            elif k == "ifset":
                grp = [n]
                while todo and len(grp) < 4 and self.i(0, 2):
                    grp.append(todo.pop(self.i(0, len(todo) - 1)))
                half = max(1, len(grp) // 2)
                a = "".join("{%% set %s = %s %%}" % (g, self.value(ns)) for g in grp[:half])
                b = "".join("{%% set %s = %s %%}" % (g, self.value(ns)) for g in grp[half:] + grp[: self.i(0, 1)])
                out.append("{%% if %s %%}%s{%% else %%}%s{%% endif %%}" % (self.pick(ns), a, b))
            else:
                out.append("{%% set %s = namespace(%s=1) %%}{%% set %s.%s = 2 %%}" % (n, self.pick(ns), n, self.pick(ns)))
        return out

    def dump(self, ns):
        k = self.pick(("include", "include", "import_ctx", "from_ctx", "scoped_block", "callblock", "reads", "macro_closure"))
        if k == "include":
            return "{%% include %s%s %%}" % (self.pick(("'lib'", "['a', 'lib']", self.pick(ns))), self.pick(("", " with context", " ignore missing")))
        if k == "import_ctx":
            return "{%% import 'lib' as %s with context %%}" % self.ident("lib_")
        if k == "from_ctx":
            return "{% from 'lib' import w0, w1 as w9 with context %}"
        if k == "scoped_block":
            return "{%% block %s scoped %%}%s{%% endblock %%}" % (self.ident("blk%d" % self.i(0, 99)), "".join("{{ %s }}" % n for n in ns[:3]))
        if k == "callblock":
            return "{%% call(%s) %s() %%}%s{%% endcall %%}" % (self.pick(ns), self.pick(ns), "".join("{{ %s }}" % n for n in ns[:3]))
        if k == "macro_closure":
            return "{%% macro %s() %%}%s{%% include 'lib' %%}{%% endmacro %%}" % (self.ident("mc"), "".join("{{ %s }}" % n for n in ns[:4]))
        return "".join("{{ %s }}" % n for n in ns)

    def frame(self, ns):
        parts = self.stores(ns)
        body = []
        closers = []
        for p in parts:
            if isinstance(p, tuple):
                body.append("{%% for %s in %s %%}" % (", ".join(p[1]), self.pick(("seq", "[[1, 2, 3]]", self.pick(ns)))))
                closers.append("{% endfor %}")
            else:
                body.append(p)
        for _ in range(self.i(1, 3)):
            body.insert(self.i(0, len(body)), self.dump(ns))
        body.append(self.dump(ns))
        inner = "".join(body) + "".join(reversed(closers))
        k = self.pick(("top", "top", "for", "macro", "block", "with", "if", "setblock", "callblock", "filter"))
        if k == "top":
            return inner
        if k == "for":
            return "{%% for %s in seq %%}%s{%% else %%}%s{%% endfor %%}" % (self.pick(DENSE_POOL), inner, self.dump(ns))
        if k == "macro":
            ps = self.names(self.i(0, 4))
            mk = self.ident("mk")
            return "{%% macro %s(%s) %%}%s{%% endmacro %%}{{ %s() }}" % (mk, ", ".join(ps), inner, mk)
        if k == "block":
            return "{%% block %s%s %%}%s{%% endblock %%}" % (self.ident("outer"), self.pick(("", " scoped")), inner)
        if k == "with":
            ws = self.names(self.i(1, 4))
            return "{%% with %s %%}%s{%% endwith %%}" % (", ".join("%s = %s" % (w, self.value(ns)) for w in ws), inner)
        if k == "if":
            return "{%% if %s %%}%s{%% elif %s %%}%s{%% endif %%}" % (self.pick(ns), inner, self.pick(ns), self.dump(ns))
        if k == "setblock":
            return "{%% set captured %%}%s{%% endset %%}" % inner
        if k == "callblock":
            return "{%% call %s() %%}%s{%% endcall %%}" % (self.ident("mk2"), inner)
        return "{%% filter upper %%}%s{%% endfilter %%}" % inner

    def chains(self, ns):
        fs = self.draw(st.lists(st.sampled_from(L.FILTERS + ("batch(2)", "map('upper')", "select('odd')", "groupby('k')", "min", "max",
                                                            "sum", "round", "wordcount", "urlencode", "striptags", "center(9)")),
                                min_size=3, max_size=8, unique=True))
        ts = self.draw(st.lists(st.sampled_from(L.TESTS), min_size=0, max_size=5, unique=True))
        k = self.i(0, 3)
        if k == 0:
            s = "{{ %s|%s }}" % (self.pick(ns), "|".join(fs))
        elif k == 1:
            s = "".join("{{ %s|%s }}" % (self.pick(ns), f) for f in fs)
        elif k == 2:
            s = "{%% if %s %%}%s{%% endif %%}" % (" or ".join("%s is %s" % (self.pick(ns), t) for t in ts) or "x",
                                                  "".join("{{ %s|%s }}" % (self.pick(ns), f) for f in fs))
        else:
            s = "{%% filter %s %%}{{ %s if %s is %s }}{%% endfilter %%}" % ("|".join(fs[:3]), self.pick(ns), self.pick(ns), self.pick(L.TESTS))
            s += "".join("{{ %s|%s }}" % (self.pick(ns), f) for f in fs[3:])
        return s + "".join("{%% if %s is %s %%}y{%% endif %%}" % (self.pick(ns), t) for t in ts)

    # -- filters applied to literals: evaluated by the optimizer, their *result text* lands in the generated source
    _WORDS = ("external", "author", "nofollow", "noopener", "noreferrer", "me", "tag", "help", "ugc", "sponsored", "alpha",
              "beta", "k2", "Zed", "id", "class", "data-x", "title", "b", "a", "c", "x y", "é")
    _URL_TEXTS = ("see http://example.com/a?b=1&c=2 now", "www.example.org and https://x.y/z", "mail me@example.com or ftp://h/p",
                  "go to http://a.b/c, http://a.b/d.", "<b>http://e.f</b> tel:123 x.org")

    def words(self, lo, hi):
        idx = self.draw(st.lists(st.integers(0, len(self._WORDS) - 1), min_size=lo, max_size=hi, unique=True))
        return [self._WORDS[j] for j in idx]

    def lit_scalar(self):
        return self.pick(("1", "2", "0", "'v'", "'a b'", "none", "true", "[1, 2]", "'<i>'", "3.5", "-1"))

    def lit_dict(self):
        ks = self.words(2, 6)
        return "{%s}" % ", ".join("'%s': %s" % (k, self.lit_scalar()) for k in ks)

    def lit_list(self):
        k = self.i(0, 2)
        if k == 0:
            return "[%s]" % ", ".join("'%s'" % w for w in self.words(2, 6) + self.words(0, 2))
        if k == 1:
            return "[%s]" % ", ".join(str(self.i(0, 9)) for _ in range(self.i(2, 7)))
        ks = self.words(2, 3)
        return "[%s]" % ", ".join("{%s}" % ", ".join("'%s': %s" % (q, self.pick(("1", "2", "'u'", "'w'"))) for q in ks) for _ in range(self.i(2, 4)))

    def folded_expr(self):
        k = self.pick(("urlize", "urlize", "urlize", "xmlattr", "tojson", "dictsort", "groupby", "unique", "items", "string", "list",
                       "misc", "misc"))
        if k == "urlize":
            args = []
            if self.i(0, 3):
                args.append("rel='%s'" % " ".join(w for w in self.words(1, 4) if " " not in w))
            if self.i(0, 1):
                args.append("nofollow=%s" % self.pick(("true", "false")))
            if self.i(0, 2) == 0:
                args.append("target='%s'" % self.pick(("_blank", "_top")))
            if self.i(0, 2) == 0:
                args.append("extra_schemes=[%s]" % ", ".join("'%s'" % x for x in self.pick((("tel:",), ("ftp:", "tel:"), ("x-a:", "ftp:", "tel:")))))
            if self.i(0, 3) == 0:
                args.insert(0, "trim_url_limit=%d" % self.i(5, 20))
            return "'%s'|urlize%s" % (self.pick(self._URL_TEXTS), "(%s)" % ", ".join(args) if args else "")
        if k == "xmlattr":
            return "%s|xmlattr%s" % (self.lit_dict(), self.pick(("", "(false)")))
        if k == "tojson":
            return "%s|tojson%s" % (self.pick((self.lit_dict(), self.lit_list())), self.pick(("", "(indent=2)")))
        if k == "dictsort":
            return "%s|dictsort%s|list%s" % (self.lit_dict(), self.pick(("", "(true)", "(by='value')", "(reverse=true)", "(false, 'key', true)")),
                                            self.pick(("", "|string", "|length")))
        if k == "groupby":
            ks = self.words(2, 3)
            lst = "[%s]" % ", ".join("{%s}" % ", ".join("'%s': %s" % (q, self.pick(("1", "2", "'u'"))) for q in ks) for _ in range(self.i(2, 4)))
            return "%s|groupby('%s')|list%s" % (lst, ks[0], self.pick(("", "|string", "|length")))
        if k == "unique":
            return "%s|unique%s|list%s" % (self.lit_list(), self.pick(("", "(true)", "(case_sensitive=true)")), self.pick(("", "|string", "|join(' ')")))
        if k == "items":
            return "%s|items|list%s" % (self.lit_dict(), self.pick(("", "|string", "|sort|string")))
        if k == "string":
            return "%s|string" % self.pick((self.lit_dict(), self.lit_list(), "(%s, %s)" % (self.lit_dict(), self.lit_list())))
        if k == "list":
            return "%s|list%s" % (self.pick((self.lit_dict(), self.lit_list(), "'%s'" % " ".join(self.words(1, 3)))), self.pick(("", "|string", "|sort", "|join(',')")))
        f = self.pick(("sort|join(' ')", "sort(reverse=true)|string", "pprint", "length", "max", "min", "first", "last", "batch(2)|list|string",
                       "slice(2)|list|string", "join(', ')", "reverse|list|string", "map('string')|list", "select|list", "random", "sum",
                       "urlencode", "string|upper", "string|title", "string|wordwrap(7)", "string|center(40)", "string|truncate(12)",
                       "string|replace('a', 'A')", "string|e", "string|striptags", "string|indent(2)", "string|wordcount",
                       "string|filesizeformat", "string|forceescape", "string|trim", "count", "tojson|safe", "default('d')"))
        return "%s|%s" % (self.pick((self.lit_dict(), self.lit_list())), f)

    def member(self, ns):
        """``name in ('a', 'b', ...)`` / ``not in [...]`` with 2-6 distinct string constants and a non-constant left
        operand, in if tests, outputs, loop filters, assignments, conditional expressions and filter arguments."""
        out = []
        for _ in range(self.i(1, 3)):
            ws = self.draw(st.lists(st.sampled_from(L.MEMBER_WORDS), min_size=2, max_size=6, unique=True))
            seq = ", ".join("'%s'" % w for w in ws)
            seq = self.pick(("(%s)", "[%s]", "(%s,)", "[%s, ]")) % seq
            left = self.pick((self.pick(ns), "%s|lower" % self.pick(ns), "%s.k" % self.pick(ns), "loop_v", "%s ~ ''" % self.pick(ns)))
            e = "%s %s %s" % (left, self.pick(("in", "not in")), seq)
            k = self.i(0, 6)
            if k == 0:
                out.append("{%% if %s %%}y{%% elif %s in %s %%}z{%% endif %%}" % (e, self.pick(ns), seq))
            elif k == 1:
                out.append("{{ %s }}" % e)
            elif k == 2:
                out.append("{%% for loop_v in %s if %s %%}{{ loop_v }}{%% endfor %%}" % (self.pick(ns), e))
            elif k == 3:
                out.append("{%% set %s = %s %%}" % (self.pick(ns), e))
            elif k == 4:
                out.append("{{ 'y' if %s else %s }}" % (e, self.pick(ns)))
            elif k == 5:
                out.append("{{ %s|select('in', %s)|list }}{{ %s|default(%s) }}" % (self.pick(ns), seq, self.pick(ns), e))
            else:
                out.append("{%% if %s and %s == 1 or not (%s) %%}w{%% endif %%}" % (e, self.pick(ns), e))
        return "".join(out)

    def folded(self, ns):
        out = []
        for _ in range(self.i(1, 4)):
            e = self.folded_expr()
            k = self.i(0, 5)
            if k <= 2:
                out.append("{{ %s }}" % e)
            elif k == 3:
                out.append("{%% set %s = %s %%}" % (self.pick(ns), e))
            elif k == 4:
                out.append("{%% if %s %%}%s{%% endif %%}" % (e, self.pick(ns)))
            else:
                out.append("{{ (%s) ~ %s }}" % (e, self.pick((self.pick(ns), "'|'"))))
        return "".join(out)

    def trans(self, ns):
        k = self.i(3, min(8, len(ns)))
        body = ns[:k]
        decl = [n for n in body if self.i(0, 3) == 0]
        head = ", ".join(self.pick((n, "%s=%s" % (n, self.value(ns)))) for n in decl)
        trim = self.pick(("", "", "trimmed ", "notrimmed "))
        ctx = self.pick(("", "", '"ctx" '))
        s = "{%% trans %s%s%s %%}%s" % (ctx, trim, head, "".join(" w%d {{ %s }}" % (j, n) for j, n in enumerate(body)))
        if self.i(0, 2) == 0:
            pn = " " + self.pick(decl) if decl and self.i(0, 1) else ""
            s += "{%% pluralize%s %%}%s" % (pn, "".join(" p%d {{ %s }}" % (j, n) for j, n in enumerate(reversed(body + ns[k:k + 2]))))
        return s + "{% endtrans %}"


@st.composite
def dense_sources(draw):
    g = _Dense(draw)
    ns = g.names(g.i(3, 8))
    parts = []
    need = []
    for _ in range(g.i(1, 3)):
        k = g.pick(("frame", "frame", "frame", "chains", "trans", "folded", "folded", "member"))
        if k == "frame":
            parts.append(g.frame(ns))
        elif k == "member":
            parts.append(g.member(ns))
        elif k == "folded":
            parts.append(g.folded(ns))
        elif k == "chains":
            parts.append(g.chains(ns))
        else:
            parts.append(g.trans(ns))
            need = [EXT_I18N]
    src = "".join(parts)
    # block names must be unique in a template
    seen = {}

    def uniq(m):
        seen[m.group(1)] = seen.get(m.group(1), 0) + 1
        return "{% block " + m.group(1) + ("_%d" % seen[m.group(1)] if seen[m.group(1)] > 1 else "")

    src = re.sub(r"\{% block (\w+)", uniq, src)
    if g.i(0, 5) == 0:
        src = "{%% extends %s %%}" % g.pick(("'base'", g.pick(ns))) + src
    return [{"source": src, "env": draw(env_options(need=need))}]


def _srcgen_stream():
    from vt.gen import srcgen

    f = getattr(srcgen, "templates", None)
    if f is None:
        return None

    @st.composite
    def grammar_sources(draw):
        env = draw(st.sampled_from(["default", "ext", "async"]))
        o = {"extensions": list(srcgen.ENVS[env].get("extensions", [])), "async": env == "async", "autoescape": False, "newstyle": False}
        src = draw(f(env))
        # sources outside C01's decided domain (CPython nesting limits F2, unbounded constant folding F19) are dropped
        if srcgen.excluded_reason(srcgen.measure(src, env)) is not None:
            return []
        return [{"source": src, "env": o}]

    return grammar_sources()


# ---------------------------------------------------------------------------------------------------------
# runner

N_SHARDS = 16
# draws per shard (quick, thorough); a draw yields 1-5 templates (quick ~ 1 250 templates per shard, thorough ~ 20 000).
# Measured CPU cost per template on a quiet machine, everything included (generation 4-8 ms, classification 2-5 ms,
# 7 x 2 compilations in the workers, worker start-up 7 x 0.15 s per batch): ~ 27 ms, i.e. quick ~ 550 CPU-s and
# thorough ~ 9 000 CPU-s; on the saturated machine the same work took up to 110 ms per template.
SIZES = {
    "stmt": (225, 2400),
    "inherit": (72, 800),
    "modules": (86, 950),
    "local": (208, 2250),
    "dense": (360, 4000),
    "expr": (120, 1300),
    "grammar": (120, 1300),
}


def shards(tier):
    return [{"i": i} for i in range(N_SHARDS)]


def _collect(strat, ctx, n, tag, out, seen):
    sink = core.Rec()

    def grab(batch):
        for c in batch:
            key = core.canon(c)
            if key not in seen:
                seen.add(key)
                out.append(c)
        return None

    done = 0
    while done < n:
        m = min(4000, n - done)
        core.hyp_shard(strat, grab, ctx, m, rec=sink, shrink=False, tag="%s-%d" % (tag, done))
        done += m
    if sink.violations:
        raise core.HarnessError("generator failed: %s" % sink.violations[0]["msg"])


def run_shard(spec, ctx):
    big = 0 if ctx.quick else 1
    streams = [
        ("stmt", stmt_sources(ctx.pick(4, 5), ctx.pick(25, 45))),
        ("inherit", set_sources("inherit", ctx.pick(3, 4))),
        ("modules", set_sources("modules", ctx.pick(3, 4))),
        ("local", local_sources(ctx.pick(16, 24))),
        ("dense", dense_sources()),
        ("expr", expr_sources(ctx.pick(3, 4))),
    ]
    g = _srcgen_stream()
    if g is not None:
        streams.append(("grammar", g))
    rec = core.Rec()
    cases, seen = [], set()
    for tag, strat in streams:
        _collect(strat, ctx, SIZES[tag][big], tag, cases, seen)
    # bounded batches keep the worker files small and give early exits on violations
    for i in range(0, len(cases), 3000):
        judge_batch(cases[i:i + 3000], rec)
        if rec.violations:
            break
    return rec


FLOORS = {
    "stores_3plus_in_frame": 0.15, "stores_6plus_in_frame": 0.02, "filters_tests_3plus": 0.08, "trans_free_3plus": 0.02,
    "tuple_unpacking": 0.08, "imports": 0.08, "macro_special_params": 0.05, "scoped_block": 0.03, "branch_stores_2plus": 0.03,
    "filter_on_literal": 0.05, "urlize_rel_on_literal": 0.005, "in_literal_strings": 0.02, "non_ascii_block_name": 0.01, "non_ascii_macro_or_alias": 0.01, "env_async": 0.08, "env_i18n_newstyle": 0.05, "env_i18n_oldstyle": 0.05, "compiles": 0.7,
}


def floors(total, tier):
    n = max(total.evaluations, 1)
    low = ["%s=%d" % (k, total.labels.get(k, 0)) for k, f in FLOORS.items() if total.labels.get(k, 0) < f * n * 0.5]
    if low:
        return "classes below floor: " + ", ".join(low)
    return None
