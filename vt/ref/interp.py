"""Reference interpreter for G-stmt programs (vt/gen/stmt.py): a chain of dict scopes.

    interpret(prog, data) -> str                  raises RefError (the program must fail; .kind = error family),
                                                  Ambiguous / Budget / Unsupported (all subclasses of Declined)
    interpret_ex(prog, data, guard=True) -> Result   .kind in {"ok", "error", "declined"}, .value, .labels, .why
                                                  guard=False switches the first declined region below off (used to
                                                  replay known finding F38 and as a resource probe)

Written from the template documentation (docs/templates.rst: "Assignments", "Scoping Behavior", "For",
"Macros", "Call", "With Statement", "Block Assignments"), not from jinja2's compiler:

  * ``if`` bodies run in the enclosing scope; every loop iteration, loop ``else`` branch, ``with``, ``filter``
    block, block ``set`` body, macro body and call block body gets a fresh child scope; assignments write the
    innermost scope; reads walk outward and finally reach the render data;
  * ``with`` values and a loop's iterable are evaluated in the enclosing scope; the loop filter sees the target;
  * macros and call blocks capture their defining scope *by reference*; macro defaults are evaluated at call time
    in the macro's scope (earlier parameters visible);
  * namespace objects are shared mutable cells;
  * values follow Python's operators; an undefined value behaves like the documented default ``Undefined``.

Declined regions (counted by the caller as ``discarded_ambiguous``) -- shapes whose outcome the documentation
does not define, see DESIGN.md section 3.2 "Ambiguity guard":
  * a read from a nested scope that passes through an enclosing scope in which the name is assigned
    unconditionally *later* (its first mention in that scope's own statement list is an unconditional store that
    has not executed yet) while a binding exists further out (outer scope or render data);
  * a macro default that reads its own or a later, not yet bound parameter -- unless the caller asks for one of the two
    readings the documentation allows (interpret_ex(param_mode="undefined" | "outer")) and accepts either;
  * a keyword argument naming an already bound parameter, or a call block, for a macro that reads ``kwargs``; ``varargs``
    / ``kwargs`` mentioned only in a nested macro;
  * a call block invoking a macro that mentions ``caller`` only inside a nested macro;
  * printing a container that holds an undefined value (its repr is not documented);
  * step / recursion / value-size budget exceeded (Budget), ``autoescape`` blocks (Unsupported).
"""
from vt.gen import stmt as G


class Declined(Exception):
    """The reference model does not decide this (program, data)."""


class Ambiguous(Declined):
    pass


class Budget(Declined):
    pass


class Unsupported(Declined):
    pass


class RefError(Exception):
    """The program must fail with an error of family ``kind``:
    undefined (UndefinedError) | type (TypeError) | value (ValueError) | runtime (TemplateRuntimeError)."""

    def __init__(self, kind, msg=""):
        super().__init__("%s: %s" % (kind, msg))
        self.kind = kind


class _Break(Exception):
    pass


class _Continue(Exception):
    pass


def _undef_fail(self, *a, **k):
    raise RefError("undefined", self.hint)


class Undef:
    """The documented default Undefined: prints as '', is false, iterates empty, len 0, equal only to another
    undefined; every other operation fails with UndefinedError."""

    __slots__ = ("hint",)

    def __init__(self, hint=""):
        self.hint = hint

    def __eq__(self, other):
        return type(other) is Undef

    def __ne__(self, other):
        return not self.__eq__(other)

    def __hash__(self):
        return 0

    def __bool__(self):
        return False

    def __len__(self):
        return 0

    def __iter__(self):
        return iter(())

    __add__ = __radd__ = __sub__ = __rsub__ = __mul__ = __rmul__ = _undef_fail
    __lt__ = __le__ = __gt__ = __ge__ = _undef_fail
    __int__ = __float__ = __call__ = __getitem__ = _undef_fail


class MacroV:
    __slots__ = ("node", "scope", "seq", "direct_caller", "deep_caller", "varargs", "kwargs", "special_unclear")

    def __init__(self, node, scope, seq):
        self.node, self.scope, self.seq = node, scope, seq
        self.direct_caller = _mentions_caller(node[4], deep=False)
        self.deep_caller = self.direct_caller or _mentions_caller(node[4], deep=True)
        # the documented special variables: surplus positional / keyword arguments of the call
        self.varargs = _mentions_special(node[4], "varargs", deep=False)
        self.kwargs = _mentions_special(node[4], "kwargs", deep=False)
        self.special_unclear = (self.varargs != _mentions_special(node[4], "varargs", deep=True)
                                or self.kwargs != _mentions_special(node[4], "kwargs", deep=True))


class CallerV:
    __slots__ = ("node", "scope", "seq")

    def __init__(self, node, scope, seq):
        self.node, self.scope, self.seq = node, scope, seq


class NsV:
    __slots__ = ("attrs",)

    def __init__(self, attrs):
        self.attrs = attrs


class LoopV:
    __slots__ = ("index0", "length", "depth0", "node", "scope")

    def __init__(self, index0, length, depth0, node, scope):
        self.index0, self.length, self.depth0, self.node, self.scope = index0, length, depth0, node, scope

    def attr(self, a):
        i, n = self.index0, self.length
        return {"index": i + 1, "index0": i, "revindex": n - i, "revindex0": n - i - 1, "first": i == 0,
                "last": i == n - 1, "length": n, "depth": self.depth0 + 1, "depth0": self.depth0}[a]


def _mentions_special(body, which, deep):
    for s in body:
        for e in G.stmt_exprs(s):
            for x in G.walk_expr(e):
                if x[0] == "special" and x[1] == which:
                    return True
        for kind, b in G.sub_bodies(s):
            if kind in ("macro", "callblock") and not deep:
                continue
            if _mentions_special(b, which, deep):
                return True
    return False


def _mentions_caller(body, deep):
    for s in body:
        for e in G.stmt_exprs(s):
            for x in G.walk_expr(e):
                if x[0] == "caller":
                    return True
        for kind, b in G.sub_bodies(s):
            if kind in ("macro", "callblock") and not deep:
                continue
            if _mentions_caller(b, deep):
                return True
    return False


# -- static analysis of one scope's own statement list -------------------------------------------------------


def _own_stores(body, out):
    """Names assigned by the statements of this scope itself (if-branches included, nested scopes not)."""
    for s in body:
        k = s[0]
        if k == "set":
            out.update(s[1])
        elif k in ("setblock", "nsnew", "macro"):
            out.add(s[1])
        elif k == "if":
            for _, b in s[1]:
                _own_stores(b, out)
            if s[2] is not None:
                _own_stores(s[2], out)
    return out


def _own_mentions(body, out):
    for s in body:
        k = s[0]
        if k == "for":
            out.update(G.expr_names(s[2]))  # the iterable belongs to the enclosing scope, the filter does not
        elif k == "macro":
            out.add(s[1])  # defaults belong to the macro's scope
        else:
            for e in G.stmt_exprs(s):
                out.update(G.expr_names(e))
            if k == "set":
                out.update(s[1])
            elif k in ("setblock", "nsnew", "nsset"):
                out.add(s[1])
            elif k == "if":
                for _, b in s[1]:
                    _own_mentions(b, out)
                if s[2] is not None:
                    _own_mentions(s[2], out)
    return out


def _store_first(body, mentioned, hard):
    """Names whose first mention in this scope's own statements (in source order) is an unconditional store."""
    for s in body:
        k = s[0]
        if k == "set":
            for e in s[2]:
                mentioned.update(G.expr_names(e))
            for t in s[1]:
                if t not in mentioned:
                    hard.add(t)
                mentioned.add(t)
        elif k in ("setblock", "macro"):
            if s[1] not in mentioned:
                hard.add(s[1])
            mentioned.add(s[1])
        elif k == "nsnew":
            for _, e in s[2]:
                mentioned.update(G.expr_names(e))
            if s[1] not in mentioned:
                hard.add(s[1])
            mentioned.add(s[1])
        elif k == "if":
            for c, _ in s[1]:
                mentioned.update(G.expr_names(c))
            sub = set()
            for _, b in s[1]:
                _own_mentions(b, sub)
            if s[2] is not None:
                _own_mentions(s[2], sub)
            mentioned.update(sub)
        else:
            _own_mentions([s], mentioned)
    return hard


class Scope:
    __slots__ = ("vars", "parent", "hard", "decl", "leaked", "cond", "seqs", "blocked", "closure_seq")

    def __init__(self, parent, body, pre=(), pre_exprs=(), closure_seq=None):
        self.vars = {}
        self.parent = parent
        mentioned = set(pre)
        for e in pre_exprs:
            mentioned.update(G.expr_names(e))
        self.hard = _store_first(body, mentioned, set()) if body is not None else set()
        self.decl = _own_stores(body, set(pre)) if body is not None else set(pre)
        self.leaked = set()
        self.cond = set()
        self.seqs = {}
        self.blocked = None
        self.closure_seq = closure_seq


class Result:
    __slots__ = ("kind", "value", "labels", "why", "param_amb")

    def __init__(self, kind, value, labels, why="", param_amb=False):
        self.kind, self.value, self.labels, self.why = kind, value, labels, why
        self.param_amb = param_amb  # a macro default read its own / a later unbound parameter (see interpret_ex)

    def __repr__(self):
        return "Result(%s, %r, %s)" % (self.kind, self.value, sorted(self.labels))


def _contains_undef(v):
    if isinstance(v, Undef):
        return True
    if isinstance(v, list):
        return any(_contains_undef(x) for x in v)
    return False


class Interp:
    MAX_STEPS = 4000
    MAX_OUT = 20000
    MAX_VALUE = 2000
    MAX_CALL_DEPTH = 12
    MAX_LOOP_DEPTH = 6

    def __init__(self, data, guard=True, param_mode=None):
        self.data = data
        self.guard = guard  # False: also decide the "assigned later in an enclosing scope" reads (known finding F38)
        # a macro default that names its own or a later, not yet bound parameter: the documentation does not say
        # whether it sees an undefined value ("undefined") or the enclosing variable ("outer"); None = decline
        self.param_mode = param_mode
        self.param_amb = False
        self.steps = 0
        self.seq = 0
        self.labels = set()
        self.call_depth = 0
        self.outlen = 0

    # -- plumbing
    def tick(self):
        self.steps += 1
        if self.steps > self.MAX_STEPS:
            raise Budget("steps")

    def emit(self, out, s):
        self.outlen += len(s)
        if self.outlen > self.MAX_OUT:
            raise Budget("output")
        out.append(s)

    def sized(self, v):
        """Values that keep doubling (``a ~ a`` in nested loops) are outside the budget."""
        if isinstance(v, (str, list)) and len(v) > self.MAX_VALUE:
            raise Budget("value size")
        return v

    def to_str(self, v):
        if isinstance(v, Undef):
            return ""
        if isinstance(v, list):
            if _contains_undef(v):
                raise Ambiguous("repr of an undefined value inside a container")
            return str(v)
        if isinstance(v, (str, int, bool)):
            return str(v)
        raise Ambiguous("printing %s" % type(v).__name__)

    # -- names
    def lookup(self, name, scope):
        s, first, crossed, closure_seq = scope, True, False, None
        found, val, fseq = False, None, None
        while s is not None:
            if name in s.leaked:
                self.labels.add("leak_probe")
            if name in s.cond:
                self.labels.add("cond_store")
            if name in s.vars:
                found, val, fseq = True, s.vars[name], s.seqs.get(name)
                break
            if s.blocked is not None and name in s.blocked:
                self.param_amb = True
                if self.param_mode is None:
                    raise Ambiguous("macro default reads its own or a later parameter")
                if self.param_mode == "undefined":
                    return Undef(name)
                s, first = s.parent, False  # "outer": the unbound parameter does not hide the enclosing variable
                continue
            if name in s.decl:
                if first:
                    self.labels.add("read_before_write")
                else:
                    self.labels.add("read_before_outer_write")
            if not first and name in s.hard:
                crossed = True
            if s.closure_seq is not None and closure_seq is None:
                closure_seq = s.closure_seq
            s, first = s.parent, False
        if not found and name in self.data:
            found, val = True, self.data[name]
        if crossed and found and self.guard:
            raise Ambiguous("read of %r through a scope that assigns it later" % name)
        if not found:
            return Undef(name)
        if closure_seq is not None and fseq is not None and fseq > closure_seq:
            self.labels.add("late_closure")
        return val

    def bound_outside(self, name, scope):
        s = scope.parent
        while s is not None:
            if name in s.vars:
                return True
            s = s.parent
        return name in self.data

    def assign(self, name, val, scope):
        if name not in scope.vars and self.bound_outside(name, scope):
            self.labels.add("shadow")
        self.seq += 1
        scope.vars[name] = val
        scope.seqs[name] = self.seq

    def end_scope(self, child, parent):
        if child.vars or child.leaked:
            parent.leaked.update(child.vars)
            parent.leaked.update(child.leaked)
            parent.leaked.discard("loop")
            parent.leaked.discard("caller")

    # -- expressions
    def ev(self, e, sc):
        k = e[0]
        if k == "name":
            return self.lookup(e[1], sc)
        if k in ("int", "str", "bool"):
            return e[1]
        if k == "list":
            return [self.ev(x, sc) for x in e[1]]
        if k in ("add", "sub"):
            a = self.ev(e[1], sc)
            b = self.ev(e[2], sc)
            try:
                return self.sized(a + b if k == "add" else a - b)
            except TypeError as ex:
                raise RefError("type", str(ex)) from None
        if k == "cat":
            a = self.ev(e[1], sc)
            b = self.ev(e[2], sc)
            return self.sized(self.to_str(a) + self.to_str(b))
        if k == "cmp":
            a = self.ev(e[2], sc)
            b = self.ev(e[3], sc)
            op = e[1]
            try:
                if op == "==":
                    return a == b
                if op == "!=":
                    return a != b
                if op == "<":
                    return a < b
                if op == "<=":
                    return a <= b
                if op == ">":
                    return a > b
                return a >= b
            except TypeError as ex:
                raise RefError("type", str(ex)) from None
        if k == "not":
            return not self.ev(e[1], sc)
        if k == "and":
            a = self.ev(e[1], sc)
            return self.ev(e[2], sc) if a else a
        if k == "or":
            a = self.ev(e[1], sc)
            return a if a else self.ev(e[2], sc)
        if k == "cond":
            if self.ev(e[2], sc):
                return self.ev(e[1], sc)
            return self.ev(e[3], sc) if e[3] is not None else Undef("cond")
        if k == "defined":
            d = not isinstance(self.lookup(e[1], sc), Undef)
            return (not d) if e[2] else d
        if k == "nsattr":
            ns = self.lookup(e[1], sc)
            if isinstance(ns, NsV):
                return ns.attrs.get(e[2], Undef(e[2]))
            if isinstance(ns, Undef):
                raise RefError("undefined", "attribute of undefined")
            raise Ambiguous("attribute of a non-namespace value")
        if k == "filt":
            v = self.ev(e[2], sc)
            args = [self.ev(x, sc) for x in e[3]]
            return self.filt(e[1], v, args)
        if k == "loopattr":
            lp = self.lookup("loop", sc)
            if not isinstance(lp, LoopV):
                raise Ambiguous("loop.* without a visible loop")
            return lp.attr(e[1])
        if k == "call":
            m = self.lookup(e[1], sc)
            args = [self.ev(x, sc) for x in e[2]]
            kwargs = [(kw, self.ev(x, sc)) for kw, x in e[3]]
            return self.call_macro(m, args, kwargs, None)
        if k == "caller":
            c = self.lookup("caller", sc)
            args = [self.ev(x, sc) for x in e[1]]
            return self.call_caller(c, args)
        if k == "special":
            return self.lookup(e[1], sc)
        if k == "looprec":
            v = self.lookup(e[1], sc)
            if not isinstance(v, list):
                return ""
            lp = self.lookup("loop", sc)
            if not isinstance(lp, LoopV) or not lp.node[6]:
                raise Ambiguous("loop() without a visible recursive loop")
            if lp.depth0 + 1 > self.MAX_LOOP_DEPTH:
                raise Budget("loop recursion")
            out = []
            self.run_loop(lp.node, list(v), lp.scope, lp.depth0 + 1, out)
            return "".join(out)
        raise Unsupported("expression %r" % (k,))

    def filt(self, name, v, args):
        if name == "default":
            d = args[0] if args else ""
            boolean = bool(args[1]) if len(args) > 1 else False
            if isinstance(v, Undef) or (boolean and not v):
                return d
            return v
        if name == "length":
            if isinstance(v, (bool, int)):
                raise RefError("type", "len of int")
            return len(v)
        if name in ("upper", "lower"):
            s = self.to_str(v)
            return s.upper() if name == "upper" else s.lower()
        if name == "join":
            items = self.iterate(v)
            return self.to_str(args[0]).join(self.to_str(x) for x in items)
        if name == "first":
            items = self.iterate(v)
            return items[0] if items else Undef("first")
        raise Unsupported("filter %s" % name)

    def iterate(self, v):
        if isinstance(v, (list, str, tuple, dict)):
            return list(v)
        if isinstance(v, Undef):
            return []
        if isinstance(v, (bool, int)):
            raise RefError("type", "not iterable")
        raise Ambiguous("iterating %s" % type(v).__name__)

    # -- macros
    def call_macro(self, m, args, kwargs, caller):
        if isinstance(m, Undef):
            raise RefError("undefined", "call of undefined")
        if not isinstance(m, MacroV):
            raise Ambiguous("call of a non-macro value")
        _, name, params, defaults, body = m.node
        if caller is not None and m.direct_caller != m.deep_caller:
            raise Ambiguous("caller mentioned only in a nested macro")
        if m.special_unclear:
            raise Ambiguous("varargs / kwargs mentioned only in a nested macro")
        # argument binding as documented for macros: surplus positional arguments end up in ``varargs``, unconsumed
        # keyword arguments in ``kwargs`` -- when the body uses that special variable; otherwise they are errors
        bound = dict(zip(params, args))
        extra_kw = {}
        bad_kw = False
        for kw, v in kwargs:
            if kw in params and kw not in bound:
                bound[kw] = v
            elif m.kwargs:
                if kw in bound:
                    raise Ambiguous("keyword argument naming an already bound parameter of a macro that reads kwargs")
                extra_kw[kw] = v
            else:
                bad_kw = True
        if caller is not None and not m.direct_caller:
            if m.kwargs:
                raise Ambiguous("call block invoking a macro that reads kwargs but not caller")
            raise RefError("type", "macro takes no caller")
        if bad_kw:
            raise RefError("type", "unexpected keyword argument")
        if len(args) > len(params) and not m.varargs:
            raise RefError("type", "too many positional arguments")
        self.call_depth += 1
        if self.call_depth > self.MAX_CALL_DEPTH:
            raise Budget("call depth")
        sc = Scope(m.scope, body, pre=list(params) + ["caller", "varargs", "kwargs"], pre_exprs=defaults, closure_seq=m.seq)
        if m.varargs:
            sc.vars["varargs"] = tuple(args[len(params):])
        if m.kwargs:
            sc.vars["kwargs"] = extra_kw
        for p in params:
            if p in bound:
                sc.vars[p] = bound[p]
                sc.seqs[p] = self.seq
        nd = len(params) - len(defaults)
        for i, p in enumerate(params):
            if p in sc.vars:
                continue
            if i >= nd:
                sc.blocked = {q for q in params[i:] if q not in sc.vars}
                v = self.ev(defaults[i - nd], sc)
                sc.blocked = None
            else:
                v = Undef(p)
            sc.vars[p] = v
            sc.seqs[p] = self.seq
        if m.direct_caller:
            sc.vars["caller"] = caller if caller is not None else Undef("caller")
        out = []
        self.block(body, sc, out)
        self.end_scope(sc, m.scope)
        self.call_depth -= 1
        return "".join(out)

    def call_caller(self, c, args):
        if isinstance(c, Undef):
            raise RefError("undefined", "no caller")
        if not isinstance(c, CallerV):
            raise Ambiguous("caller is not a call block")
        _, params, _call, body = c.node
        if len(args) > len(params):
            if _mentions_special(body, "varargs", deep=True):
                # a call block whose body (here: a macro nested in it) mentions varargs: undocumented
                raise Ambiguous("surplus caller() arguments for a call block that mentions varargs")
            raise RefError("type", "too many arguments for the call block")
        self.call_depth += 1
        if self.call_depth > self.MAX_CALL_DEPTH:
            raise Budget("call depth")
        sc = Scope(c.scope, body, pre=list(params) + ["caller"], closure_seq=c.seq)
        for i, p in enumerate(params):
            sc.vars[p] = args[i] if i < len(args) else Undef(p)
            sc.seqs[p] = self.seq
        out = []
        self.block(body, sc, out)
        self.end_scope(sc, c.scope)
        self.call_depth -= 1
        return "".join(out)

    # -- statements
    def block(self, body, sc, out):
        for s in body:
            self.stmt(s, sc, out)

    def apply_block_filter(self, f, text):
        return self.filt(f[0], text, [x[1] for x in f[1]])

    def stmt(self, s, sc, out):
        self.tick()
        k = s[0]
        if k == "text":
            self.emit(out, s[1])
        elif k == "out":
            self.emit(out, self.to_str(self.ev(s[1], sc)))
        elif k == "if":
            names = set()
            for _, b in s[1]:
                _own_stores(b, names)
            if s[2] is not None:
                _own_stores(s[2], names)
            sc.cond.update(names)
            for cond, body in s[1]:
                if self.ev(cond, sc):
                    self.block(body, sc, out)
                    break
            else:
                if s[2] is not None:
                    self.block(s[2], sc, out)
        elif k == "for":
            it = self.ev(s[2], sc)
            items = self.iterate(it)
            self.run_loop(s, items, sc, 0, out)
        elif k == "break":
            raise _Break()
        elif k == "continue":
            raise _Continue()
        elif k == "set":
            vals = [self.ev(e, sc) for e in s[2]]
            for t, v in zip(s[1], vals):
                self.assign(t, v, sc)
        elif k == "setblock":
            child = Scope(sc, s[3])
            buf = []
            self.block(s[3], child, buf)
            self.end_scope(child, sc)
            v = "".join(buf)
            if s[2] is not None:
                v = self.apply_block_filter(s[2], v)
            self.assign(s[1], v, sc)
        elif k == "nsnew":
            attrs = {}
            for a, e in s[2]:
                attrs[a] = self.ev(e, sc)
            self.assign(s[1], NsV(attrs), sc)
        elif k == "nsset":
            ns = self.lookup(s[1], sc)
            if not isinstance(ns, NsV):
                raise RefError("runtime", "cannot assign attribute on non-namespace object")
            ns.attrs[s[2]] = self.ev(s[3], sc)
        elif k == "with":
            vals = [self.ev(e, sc) for _, e in s[1]]
            child = Scope(sc, s[2], pre=[n for n, _ in s[1]])
            for (n, _), v in zip(s[1], vals):
                self.assign(n, v, child)
            self.block(s[2], child, out)
            self.end_scope(child, sc)
        elif k == "macro":
            self.seq += 1
            self.assign(s[1], MacroV(s, sc, self.seq), sc)
        elif k == "callblock":
            self.seq += 1
            caller = CallerV(s, sc, self.seq)
            call = s[2]
            m = self.lookup(call[1], sc)
            args = [self.ev(x, sc) for x in call[2]]
            kwargs = [(kw, self.ev(x, sc)) for kw, x in call[3]]
            self.emit(out, self.call_macro(m, args, kwargs, caller))
        elif k == "filter":
            child = Scope(sc, s[2])
            buf = []
            self.block(s[2], child, buf)
            self.end_scope(child, sc)
            self.emit(out, self.to_str(self.apply_block_filter(s[1], "".join(buf))))
        elif k == "autoescape":
            raise Unsupported("autoescape block")
        else:
            raise Unsupported("statement %r" % (k,))

    def bind_targets(self, targets, item, sc):
        if len(targets) == 1:
            sc.vars[targets[0]] = item
            sc.seqs[targets[0]] = self.seq
            return
        if isinstance(item, (bool, int)):
            raise RefError("type", "cannot unpack non-iterable")
        if isinstance(item, (list, str, Undef)):
            vals = list(item)
        else:
            raise Ambiguous("unpacking %s" % type(item).__name__)
        if len(vals) != len(targets):
            raise RefError("value", "unpack length mismatch")
        for t, v in zip(targets, vals):
            sc.vars[t] = v
            sc.seqs[t] = self.seq

    def run_loop(self, node, items, sc, depth0, out):
        _, targets, _it, body, else_, test, _rec = node
        if test is not None:
            kept = []
            for item in items:
                self.tick()
                ts = Scope(sc, None, pre=targets)
                try:
                    self.bind_targets(targets, item, ts)
                    keep = self.ev(test, ts)
                except RefError:
                    if kept:
                        # the engine filters while it iterates: the body has already run for the kept items, so
                        # which error surfaces first (this one or one from such a body) is an evaluation-order
                        # artefact the documentation does not define
                        raise Ambiguous("loop filter or unpacking fails on a later item after an earlier item was kept")
                    raise
                if keep:
                    kept.append(item)
            items = kept
        n = len(items)
        for idx, item in enumerate(items):
            self.tick()
            ls = Scope(sc, body, pre=list(targets) + ["loop"])
            self.bind_targets(targets, item, ls)
            for t in targets:
                if self.bound_outside(t, ls):
                    self.labels.add("shadow")
            ls.vars["loop"] = LoopV(idx, n, depth0, node, sc)
            try:
                self.block(body, ls, out)
            except _Break:
                self.end_scope(ls, sc)
                break
            except _Continue:
                pass
            self.end_scope(ls, sc)
        if n == 0 and else_ is not None:
            es = Scope(sc, else_)
            self.block(else_, es, out)
            self.end_scope(es, sc)

    def run(self, prog):
        root = Scope(None, prog)
        out = []
        self.block(prog, root, out)
        return "".join(out)


def interpret_ex(prog, data, guard=True, param_mode=None):
    """param_mode: how a macro default that names its own / a later unbound parameter is read -- None: declined
    (Ambiguous); "undefined" / "outer": the two readings the documentation allows.  Result.param_amb tells whether
    such a read happened, i.e. whether the two modes can differ at all."""
    it = Interp(data, guard, param_mode)
    try:
        return Result("ok", it.run(prog), it.labels, "", it.param_amb)
    except RefError as e:
        it.labels.add("error")
        return Result("error", e.kind, it.labels, str(e), it.param_amb)
    except Declined as e:
        return Result("declined", type(e).__name__, it.labels, str(e), it.param_amb)
    except (_Break, _Continue):
        return Result("declined", "Unsupported", it.labels, "break/continue outside a loop")


def interpret(prog, data):
    """Reference output of the program on the data; raises RefError when the program must fail, a
    Declined subclass (Ambiguous, Budget, Unsupported) when the reference does not decide the case."""
    it = Interp(data)
    try:
        return it.run(prog)
    except (_Break, _Continue):
        raise Unsupported("break/continue outside a loop") from None
