"""C10 - all rendering entry points produce the same text.

Case: {"templates": {name: source}, "main": name, "data": {...}, "encodings": [[codec, errors], ...],
       "rounds": [environment globals dict, ...] (optional), "autoescape": bool (optional, default false)}

For the main template of a DictLoader set (a G-stmt program, or a small include/import or extends set built
around G-stmt programs) and one data dict, in a sync and in an async environment:
  render == ''.join(generate) == ''.join(stream) == ''.join(stream buffered with size 2..8) == dumped text
  (path / BytesIO with encoding / StringIO, unbuffered and buffered) == str(make_module(data)) == __html__()
  and str(template.module) == render() without data; async: render_async, generate_async, make_module_async.
Chunk rule: walking generate()'s pieces, every buffered chunk except the last is the concatenation of consecutive
pieces holding exactly ``size`` non-empty ones; the last holds at most ``size``.
When render raises, every other entry point must raise the same exception type.
Rounds: afterwards the same Template objects are rendered again with empty data once per "round", each round after
replacing the round's names in environment.globals; all entry points of a round (incl. make_module() / make_module({}))
must agree with that round's render -- only template.module is documented as cached.
"""
import asyncio
import io
import os
import shutil

from markupsafe import Markup

from vt import core
from vt.gen import stmt as G
from vt.ref import interp

PID = "C10"
LEVEL = "exploration"
RULE = (
    "Hypothesis-generated template sets in a DictLoader: a G-stmt program (depth<=3, <=14 statements; thorough depth<=4, <=30) "
    "alone, or interleaved with include (with/without context, name lists, ignore missing, inside loops) / import / from-import "
    "of a macro library, or as block bodies of a 2-3 level extends chain with super()/self.block() calls; data makes some "
    "pieces empty and some non-ASCII. Every entry point (render, generate, stream unbuffered and buffered with every size "
    "2..8, dump to path / BytesIO / StringIO with 2 codecs drawn from 18 codec/error-handler pairs incl. BOM and stateful (iso2022, hz, utf-7) codecs; one case in ten is a template that yields no piece, make_module, template.module; the async "
    "counterparts in an async environment) is compared with render, and the buffered chunks with the chunk rule; then two "
    "rounds with empty data and changed environment globals on the same Template objects (every entry point incl. "
    "make_module() / make_module({}) must follow the change). Half of the cases run in autoescaping environments (pieces "
    "are then Markup objects next to plain template text with HTML metacharacters); half of the single-template cases are "
    "alpha-renamed into the G-stmt identifier pools plus the attribute names of a TemplateModule object. "
    "Non-trivial = the piece list of generate() has at least 3 non-empty pieces and at least one empty piece (so that for "
    "size 2 a non-final chunk exists and empty pieces matter); distinct = distinct case."
)
ASSUMPTIONS = [
    "generate() itself defines the pieces (the chunk rule is checked relative to them); render is the reference text",
    "templates are deterministic (no random / time / id in output), so separate renderings are comparable",
    "dumped bytes must equal render().encode(codec, errors) (incl. the BOM of an empty rendering and the closing escape "
    "sequence of stateful codecs); only for utf-7, whose incremental encoder in Python is stateless per call, the bytes are "
    "compared after decoding",
    "error agreement is by exception type",
]

SIZES = (2, 3, 4, 5, 6, 7, 8)
CODECS = (("utf-8", "strict"), ("utf-16-le", "strict"), ("utf-16-be", "strict"), ("utf-32-be", "strict"),
          ("latin-1", "xmlcharrefreplace"), ("ascii", "replace"), ("ascii", "ignore"), ("cp1252", "backslashreplace"),
          ("utf-16", "strict"), ("utf-32", "strict"), ("utf-8-sig", "strict"),
          # stateful codecs: escape sequences / shift state must be closed at the end of the stream
          ("iso2022_jp", "replace"), ("iso2022_jp", "strict"), ("iso2022_kr", "replace"), ("hz", "replace"),
          ("iso2022_jp_2", "replace"), ("shift_jis", "replace"), ("utf-7", "strict"))
# The dumped BYTES must equal render().encode(codec, errors): the file is the encoded rendering, incl. the BOM of an
# empty rendering and the closing escape sequence of a stateful codec.  (Python's own incremental encoders produce
# exactly the one-shot bytes for every split of the text for all codecs above except utf-7.)
# utf-7: Python's incremental utf-7 encoder is stateless per call, so piecewise encoding legitimately differs from the
# one-shot bytes ('+ZeU-+Zyw-' vs '+ZeVnLA-'); only there the bytes are compared after decoding.
DECODE_ONLY_CODECS = ("utf-7",)

_state = {}


def _jinja():
    if not _state:
        import jinja2

        _state["j"] = jinja2
    return _state["j"]


def _envs(templates, autoescape=False):
    j = _jinja()
    ext = ["jinja2.ext.loopcontrols"]
    return (j.Environment(loader=j.DictLoader(dict(templates)), extensions=ext, autoescape=autoescape),
            j.Environment(loader=j.DictLoader(dict(templates)), extensions=ext, autoescape=autoescape, enable_async=True))


def _outcome(fn):
    """-> ("ok", value) | ("raise", exception type name)."""
    try:
        return ("ok", fn())
    except Exception as e:  # noqa: BLE001 - the *type* is compared with render's; nothing is swallowed
        return ("raise", type(e).__name__)


def expected_chunks(pieces, size):
    """The documented chunking: groups of consecutive pieces with exactly `size` non-empty ones; the rest last."""
    out, buf, n = [], [], 0
    for p in pieces:
        buf.append(p)
        if p:
            n += 1
        if n == size:
            out.append("".join(buf))
            buf, n = [], 0
    if n:
        out.append("".join(buf))
    return out


def _check_chunks(pieces, chunks, size, where, src):
    if "".join(chunks) != "".join(pieces):
        raise core.Violation("%s size %d: concatenated chunks %r differ from the pieces %r\n template: %s"
                             % (where, size, chunks, pieces, src))
    exp = expected_chunks(pieces, size)
    got = list(chunks)
    # the documentation fixes every chunk but the last; an implementation may or may not emit an empty last chunk
    if got and got[-1] == "" and (not exp or len(got) == len(exp) + 1):
        got = got[:-1]
    if got != exp:
        raise core.Violation(
            "%s size %d: chunks %r, expected %r (pieces %r): every chunk but the last must combine exactly %d non-empty pieces\n"
            " template: %s" % (where, size, chunks, exp, pieces, size, src))


def check_case(case):
    templates, main, data = case["templates"], case["main"], case["data"]
    encodings = [tuple(e) for e in case.get("encodings", [["utf-8", "strict"]])]
    src = templates[main]
    senv, aenv = _envs(templates, bool(case.get("autoescape", False)))
    if case.get("autoescape"):
        labels_pre = ("autoescape",)
    else:
        labels_pre = ()
    labels = set()
    workdir = os.path.join(core.VERIF, ".work", "c10-%d" % os.getpid())

    # ---------------- sync environment
    t = senv.get_template(main)
    ref = _outcome(lambda: t.render(dict(data)))
    labels.add("render_" + ref[0])
    labels.update(labels_pre)
    if case.get("renamed"):
        labels.add("renamed")

    def same(name, got, want=None):
        want = ref if want is None else want
        if got != want:
            raise core.Violation("%s gives %r, render gives %r\n template %r: %s\n all templates: %r\n data: %r"
                                 % (name, got, want, main, src, templates, data), entry=name)

    pieces_o = _outcome(lambda: list(t.generate(dict(data))))
    if ref[0] == "ok":
        if pieces_o[0] != "ok":
            same("generate", pieces_o)
        pieces = pieces_o[1]
        if any(not isinstance(p, str) for p in pieces):
            raise core.Violation("generate yielded a non-string piece: %r\n template: %s" % (pieces, src))
        same("''.join(generate)", ("ok", "".join(pieces)))
    else:
        pieces = None
        same("generate", pieces_o)
    partial = []  # what the template yields before it raises (an encoded dump may fail on this text first)
    if ref[0] != "ok":
        try:
            for piece in t.generate(dict(data)):
                partial.append(piece)
        except Exception:  # noqa: BLE001 - the type was compared just above
            pass
    joined = lambda it: "".join(it)  # noqa: E731
    same("''.join(stream)", _outcome(lambda: joined(t.stream(dict(data)))))
    for size in SIZES:
        def buffered(size=size):
            s = t.stream(dict(data))
            s.enable_buffering(size)
            return list(s)

        o = _outcome(buffered)
        if ref[0] == "ok":
            if o[0] != "ok":
                same("stream buffered %d" % size, o)
            _check_chunks(pieces, o[1], size, "sync stream", src)
        else:
            same("stream buffered %d" % size, o)
    # dump targets
    try:
        os.makedirs(workdir, exist_ok=True)
        for k, (codec, errors) in enumerate(encodings):
            soft = codec in DECODE_ONLY_CODECS
            fin = (lambda b: b.decode(codec)) if soft else (lambda b: b)  # noqa: E731
            also = None
            if ref[0] != "ok":
                want = ref
                # the pieces before the template error may be unencodable: whether the encoder or the template fails
                # first depends on buffering, both are correct
                if _outcome(lambda: "".join(p for p in partial if isinstance(p, str)).encode(codec, errors))[0] == "raise":
                    also = ("raise", "UnicodeEncodeError")
            elif soft:
                want = ("ok", ref[1])
            else:
                # a text the codec cannot encode under this error handler: dump must raise the same exception type
                want = _outcome(lambda: ref[1].encode(codec, errors))
            bufsize = SIZES[(len(src) + k) % len(SIZES)] if k % 2 else None
            path = os.path.join(workdir, "dump-%d.bin" % k)

            def to_path():
                s = t.stream(dict(data))
                if bufsize:
                    s.enable_buffering(bufsize)
                s.dump(path, encoding=codec, errors=errors)
                with open(path, "rb") as f:
                    return fin(f.read())

            got = _outcome(to_path)
            same("dump(path, encoding=%r, errors=%r, buffer=%r)" % (codec, errors, bufsize), want if got == also else got, want)

            def to_bytesio():
                fp = io.BytesIO()
                s = t.stream(dict(data))
                if not bufsize:
                    s.enable_buffering(SIZES[(len(src) + k) % len(SIZES)])
                s.dump(fp, encoding=codec, errors=errors)
                return fin(fp.getvalue())

            got = _outcome(to_bytesio)
            same("dump(BytesIO, encoding=%r, errors=%r)" % (codec, errors), want if got == also else got, want)
        path = os.path.join(workdir, "dump-default.bin")

        def to_path_default():
            t.stream(dict(data)).dump(path)
            with open(path, "rb") as f:
                return f.read().decode("utf-8")

        same("dump(path) read back as utf-8", _outcome(to_path_default))
    finally:
        shutil.rmtree(workdir, ignore_errors=True)

    def to_stringio():
        fp = io.StringIO()
        t.stream(dict(data)).dump(fp)
        return fp.getvalue()

    same("dump(StringIO)", _outcome(to_stringio))

    class _WriteOnly:
        def __init__(self):
            self.parts = []

        def write(self, x):
            self.parts.append(x)

    def to_writeonly():
        fp = _WriteOnly()
        t.stream(dict(data)).dump(fp, encoding="utf-8")
        return b"".join(fp.parts).decode("utf-8")

    same("dump(object with write only)", _outcome(to_writeonly))
    same("str(make_module(data))", _outcome(lambda: str(t.make_module(dict(data)))))
    mo = _outcome(lambda: t.make_module(dict(data)).__html__())
    if mo[0] == "ok" and not isinstance(mo[1], Markup):
        raise core.Violation("make_module().__html__() is not Markup: %r" % (mo[1],))
    same("make_module(data).__html__()", (mo[0], str(mo[1])) if mo[0] == "ok" else mo)
    nodata = _outcome(lambda: t.render())
    t2 = senv.get_template(main)
    same("str(template.module) vs render()", _outcome(lambda: str(t2.module)), nodata)

    # ---------------- async environment
    ta = aenv.get_template(main)
    aref = _outcome(lambda: ta.render(dict(data)))

    def asame(name, got):
        if got != aref:
            raise core.Violation("async environment: %s gives %r, render gives %r\n template %r: %s\n all templates: %r\n data: %r"
                                 % (name, got, aref, main, src, templates, data), entry="async " + name)

    apieces_o = _outcome(lambda: list(ta.generate(dict(data))))
    if aref[0] == "ok":
        if apieces_o[0] != "ok":
            asame("generate", apieces_o)
        apieces = apieces_o[1]
        asame("''.join(generate)", ("ok", "".join(apieces)))
    else:
        apieces = None
        asame("generate", apieces_o)
    for size in (SIZES[len(src) % len(SIZES)], SIZES[(len(src) + 3) % len(SIZES)]):
        def abuffered(size=size):
            s = ta.stream(dict(data))
            s.enable_buffering(size)
            return list(s)

        o = _outcome(abuffered)
        if aref[0] == "ok":
            if o[0] != "ok":
                asame("stream buffered %d" % size, o)
            _check_chunks(apieces, o[1], size, "async stream", src)
        else:
            asame("stream buffered %d" % size, o)

    async def native():
        async def collect():
            return [x async for x in ta.generate_async(dict(data))]

        async def module():
            return str(await ta.make_module_async(dict(data)))

        async def wrap(coro):
            try:
                return ("ok", await coro)
            except Exception as e:  # noqa: BLE001 - type compared below
                return ("raise", type(e).__name__)

        return [await wrap(ta.render_async(dict(data))), await wrap(collect()), await wrap(module())]

    r_async, g_async, m_async = asyncio.run(native())
    asame("render_async", r_async)
    if aref[0] == "ok" and g_async[0] == "ok":
        if g_async[1] != apieces:
            raise core.Violation("async environment: generate_async pieces %r differ from generate pieces %r\n template: %s"
                                 % (g_async[1], apieces, src))
    else:
        asame("generate_async", g_async)
    asame("str(make_module_async(data))", m_async)

    # ---------------- rounds: the SAME Template objects again, with empty data, after the values the templates see
    # through the environment globals changed; every entry point of a round must agree with that round's render
    # (template.module is documented as cached and is not part of a round)
    prev_keys = []
    round_texts = []
    for rno, gl in enumerate(case.get("rounds") or []):
        for env_ in (senv, aenv):
            for k in prev_keys:
                env_.globals.pop(k, None)
            env_.globals.update(gl)
        prev_keys = list(gl)
        rref = _outcome(lambda: t.render())
        round_texts.append(rref)

        def rsame(name, got, want=rref, rno=rno, gl=gl):
            if got != want:
                raise core.Violation(
                    "round %d (same Template object, empty data, environment globals now %r): %s gives %r, render gives %r\n"
                    " template %r: %s\n all templates: %r" % (rno, gl, name, got, want, main, src, templates), entry="round " + name)

        rsame("''.join(generate())", _outcome(lambda: joined(t.generate())))
        rsame("''.join(stream())", _outcome(lambda: joined(t.stream({}))))
        for size in (SIZES[(len(src) + rno) % len(SIZES)], 2):
            def rbuf(size=size):
                s = t.stream()
                s.enable_buffering(size)
                return joined(s)

            rsame("stream buffered %d" % size, _outcome(rbuf))

        def r_stringio():
            fp = io.StringIO()
            t.stream().dump(fp)
            return fp.getvalue()

        def r_bytesio():
            fp = io.BytesIO()
            t.stream({}).dump(fp, encoding="utf-8")
            return fp.getvalue().decode("utf-8")

        rsame("dump(StringIO)", _outcome(r_stringio))
        rsame("dump(BytesIO, utf-8)", _outcome(r_bytesio))
        rsame("str(make_module())", _outcome(lambda: str(t.make_module())))
        rsame("str(make_module({}))", _outcome(lambda: str(t.make_module({}))))
        rsame("str(make_module(None, False, None))", _outcome(lambda: str(t.make_module(None, False, None))))
        rsame("str(make_module().__html__())", _outcome(lambda: str(t.make_module().__html__())))
        # async environment, same Template object as above
        raref = _outcome(lambda: ta.render())

        async def rnative():
            async def module():
                return str(await ta.make_module_async())

            async def wrap(coro):
                try:
                    return ("ok", await coro)
                except Exception as e:  # noqa: BLE001 - type compared below
                    return ("raise", type(e).__name__)

            return [await wrap(ta.render_async()), await wrap(module())]

        ra, rm = asyncio.run(rnative())
        rsame("async render_async()", ra, raref)
        rsame("async str(make_module_async())", rm, raref)
        rsame("async ''.join(generate())", _outcome(lambda: joined(ta.generate())), raref)
    if case.get("rounds"):
        labels.add("rounds")
        oks = [x[1] for x in round_texts if x[0] == "ok"]
        if len(set(oks)) > 1 or (oks and nodata[0] == "ok" and any(x != nodata[1] for x in oks)):
            labels.add("rounds_differ")

    nontrivial = False
    if pieces is not None:
        ne = sum(1 for p in pieces if p)
        em = len(pieces) - ne
        labels.add("pieces_%s" % ("0" if not pieces else "1-2" if ne < 3 else "3-8" if ne <= 8 else "9+"))
        if em:
            labels.add("has_empty_piece")
        if any(ord(ch) > 127 for p in pieces for ch in p):
            labels.add("non_ascii")
        if any(ord(ch) > 0x2e80 for p in pieces for ch in p):
            labels.add("cjk_text")
        nontrivial = ne >= 3 and em >= 1
        if nontrivial:
            labels.add("nontrivial")
    labels.add("shape_" + case.get("shape", "replay"))
    return core.Outcome(nontrivial, sorted(labels))


# ---------------------------------------------------------------------------------------------------------
# generators


def _strategies():
    from hypothesis import strategies as st

    strs = st.sampled_from(["", "", "", "p", "q", "é€", "名", "<b>", "x y", "日本", "語", "한글", "中文"])
    scalar = st.one_of(strs, strs, st.integers(0, 3), st.lists(st.one_of(strs, st.integers(0, 2)), max_size=3))
    seq = st.one_of(st.lists(st.one_of(strs, st.integers(0, 2)), max_size=4),
                    st.lists(st.lists(st.one_of(strs, st.integers(0, 2)), min_size=2, max_size=2), max_size=3),
                    st.lists(st.recursive(st.integers(0, 2), lambda c: st.lists(c, max_size=2), max_leaves=4), max_size=3))

    @st.composite
    def data(draw):
        d = {}
        for n in G.SCALARS:
            if draw(st.integers(0, 4)):
                d[n] = draw(scalar)
        for n in ("s", "t"):
            if draw(st.integers(0, 6)):
                d[n] = draw(seq)
        return d

    # Identifiers a template-level name may collide with: the attribute names of a TemplateModule object (whatever the
    # code under test defines; names starting with an underscore are never exported, the others must not be clobbered
    # by exported template variables) plus the generic identifier pools of G-stmt.
    probe = _jinja().Environment().from_string("").module
    attr_pool = sorted(n for n in set(dir(probe)) | set(vars(probe)) if n.isidentifier() and G.nfkc_stable(n) and n not in G.RESERVED)

    @st.composite
    def finish(draw, case, prog):
        """Draw the autoescape flag and, for single-template shapes, a bijective renaming of the program's identifiers
        (template source, data and round globals are renamed consistently)."""
        case["autoescape"] = draw(st.booleans())
        if prog is not None and draw(st.booleans()):
            ids = sorted(set(G.identifiers(prog)) | set(G.VARS))
            pool = G.ALL_IDENTS + ids
            rename, used = {}, set()
            for n in ids:
                src_pool = attr_pool if (attr_pool and draw(st.integers(0, 3)) == 0) else pool
                j = draw(st.integers(0, len(src_pool) - 1))
                while src_pool[j] in used:
                    j = (j + 1) % len(src_pool)
                    if src_pool is attr_pool and all(x in used for x in attr_pool):
                        src_pool, j = pool, 0
                used.add(src_pool[j])
                rename[n] = src_pool[j]
            tail = case["templates"]["main"][len(G.print_program(prog)):]
            case["templates"]["main"] = G.print_program(prog, rename) + tail
            case["data"] = G.rename_data(case["data"], rename)
            case["rounds"] = [G.rename_data(g, rename) for g in case["rounds"]]
            case["renamed"] = True
        return case

    LIB = ("{% macro lm(x) %}<{{ x }}{{ a }}>{% endmacro %}{% macro lc() %}({{ caller() }}){% endmacro %}"
           "{% set lk = b ~ 'K' %}L{{ b }}{{ '' }}")
    MODULE_STMTS = [
        "{% include 'inc' %}", "{% include 'inc' without context %}", "{% include ['nope', 'inc'] %}",
        "{% include 'nope' ignore missing %}", "{% import 'lib' as L %}{{ L.lm(a) }}{{ L.lk }}",
        "{% from 'lib' import lm, lk as kk with context %}{{ lm(b) }}{{ kk }}",
        "{% for q in s %}{% include 'inc' %}{{ q }}{% endfor %}", "{% include 'lib' %}",
        "{% from 'lib' import lc %}{% call lc() %}{{ c }}{% include 'inc' %}{% endcall %}",
        "{% with a = '' %}{% include 'inc' %}{% endwith %}", "{% include inc_name %}",
    ]

    def bounded(prog, d):
        """Resource probe (reference interpreter without its ambiguity guard): a program that leaves the step /
        recursion / value-size budget on this data is replaced by a trivial one, nothing unbounded is rendered."""
        r = interp.interpret_ex(prog, d, guard=False)
        return [["text", "x"], ["out", ["name", "a"]]] if (r.kind == "declined" and r.value == "Budget") else prog

    @st.composite
    def tsets(draw, depth, nodes):
        shape = draw(st.sampled_from(["plain", "plain", "plain", "modules", "modules", "modules", "inherit", "inherit", "inherit", "silent"]))
        prog = draw(G.programs(depth, nodes, errors=False))
        if shape == "silent":
            # a template that yields no piece at all: empty source, or only assignments / definitions / comments
            prog = [s for s in prog if s[0] in ("set", "nsnew", "macro", "setblock")][: draw(st.integers(0, 3))]
            d = draw(data())
            encs = draw(st.lists(st.sampled_from(CODECS), min_size=2, max_size=2))
            prog = bounded(prog, d)
            src = G.print_program(prog) + draw(st.sampled_from(["", "{# c #}", "{% if false %}x{% endif %}"]))
            return draw(finish({"shape": shape, "templates": {"main": src}, "main": "main", "data": d,
                                "encodings": [list(e) for e in encs], "rounds": [draw(data())]}, prog))
        # a few plain outputs of pool names / constants so that most templates have several pieces, some of them empty
        for _ in range(draw(st.integers(0, 6))):
            e = draw(st.sampled_from([["name", "a"], ["name", "b"], ["name", "c"], ["name", "d"], ["str", ""], ["str", "q"],
                                      ["filt", "join", ["name", "s"], [["str", ""]]], ["int", 7]]))
            prog.insert(draw(st.integers(0, len(prog))), ["out", e])
        d = draw(data())
        prog = bounded(prog, d)
        encs = draw(st.lists(st.sampled_from(CODECS), min_size=2, max_size=2))
        templates = {}
        small = G.programs(2, 6, errors=False).map(lambda p: bounded(p, d))
        if shape == "plain":
            templates["main"] = G.print_program(prog)
        elif shape == "modules":
            templates["inc"] = G.print_program(draw(small))
            templates["lib"] = LIB
            d["inc_name"] = "inc"
            parts = [G.print_program([s]) for s in prog]
            for _ in range(draw(st.integers(1, 4))):
                parts.insert(draw(st.integers(0, len(parts))), draw(st.sampled_from(MODULE_STMTS)))
            templates["main"] = "".join(parts)
        else:
            names = ["b1", "b2", "b3"]
            bodies = {n: G.print_program(draw(small)) for n in names}
            base = ["T0", "{{ a }}", "{% block b1 %}B1" + bodies["b1"] + "{% endblock %}", "{{ '' }}", "T1",
                    "{% for a in s %}{% block b2 scoped %}" + bodies["b2"] + "{{ a }}{% endblock %}{% endfor %}",
                    "{% block b3 %}{{ self.b1() }}" + bodies["b3"] + "{% block b4 %}N{{ b }}{% endblock %}{% endblock %}", "{{ b }}T2"]
            templates["base"] = "".join(base)
            levels = draw(st.integers(1, 2))
            parent = "base"
            for lv in range(levels):
                name = "main" if lv == levels - 1 else "mid"
                ext = draw(st.sampled_from(["{% extends '" + parent + "' %}", "{% extends layout" + str(lv) + " %}"]))
                d["layout" + str(lv)] = parent
                parts = [ext, "stray{{ a }}"]
                for n in names + ["b4"]:
                    if draw(st.integers(0, 2)):
                        body = G.print_program(draw(small))
                        # self.b4() only from b1/b2 (b3 contains b4 and calls b1): no cycle between blocks
                        sups = ["", "{{ super() }}", "{{ super() }}{{ super() }}"] + (["{{ self.b4() }}"] if n in ("b1", "b2") else [])
                        sup = draw(st.sampled_from(sups))
                        if n == "b2":
                            parts.append("{% block b2 scoped %}" + sup + body + "{% endblock %}")
                        else:
                            parts.append("{% block " + n + " %}" + sup + body + "{% endblock %}")
                parts.insert(draw(st.integers(1, len(parts))), G.print_program(prog[:2]))
                templates[name] = "".join(parts)
                parent = name
        # two rounds of environment globals over the same names the programs read (render data is empty in a round)
        rounds = []
        for _ in range(2):
            g = draw(data())
            for k, v in d.items():
                if k.startswith("layout") or k == "inc_name":
                    g[k] = v
            rounds.append(g)
        return draw(finish({"shape": shape, "templates": templates, "main": "main", "data": d,
                            "encodings": [list(e) for e in encs], "rounds": rounds}, prog if shape == "plain" else None))

    return tsets


# development knob (sensitivity runs on a loaded machine); 1 in every registered run
_SCALE = float(os.environ.get("VERIF_SCALE", "1"))


def shards(tier):
    return [{"i": i} for i in range(16)]


def run_shard(spec, ctx):
    tsets = _strategies()
    n = max(16, int(ctx.pick(420, 7000) * _SCALE))
    rec = core.Rec()
    core.hyp_shard(tsets(3, 14), check_case, ctx, n // 2, rec=rec, tag="small")
    if rec.violations:
        return rec
    d, k = ctx.pick((3, 14), (4, 30))
    core.hyp_shard(tsets(d, k), check_case, ctx, n - n // 2, rec=rec, tag="large")
    return rec


def floors(total, tier):
    lab = total.labels
    n = max(1, total.evaluations)
    msgs = []
    for name, lo in (("nontrivial", 0.3), ("has_empty_piece", 0.3), ("non_ascii", 0.1), ("shape_modules", 0.15), ("shape_inherit", 0.15),
                     ("render_ok", 0.6), ("rounds_differ", 0.3), ("shape_silent", 0.04), ("cjk_text", 0.05), ("autoescape", 0.2), ("renamed", 0.05)):
        if lab.get(name, 0) < lo * n:
            msgs.append("%s %d/%d < %d%%" % (name, lab.get(name, 0), n, lo * 100))
    return "; ".join(msgs) or None
