"""C29 - rendering is repeatable and does not modify its inputs.

Case (plain JSON)::

    {"kind": "frag" | "stmt" | "tset",
     "templates": {name: [[tags, source], ...]}     kind frag: fragments (tags = space separated class names)
     "progs": {name: G-stmt program}                kind stmt (plus a generated wrapper "pu" that imports / includes p0)
     "ir": tset IR                                   kind tset (vt/gen/tsets.py, hierarchies or module sets)
     "data": [enc d1, enc d2]                        two data assignments (tagged encoding below)
     "globals": enc dict                             extra environment globals (containers)
     "tglobals": {name: enc dict}                    template-level globals passed to get_template(name, globals=...)
     "tglobals_late": [names]                        these are first loaded without globals and then requested again with them
     "history": [[name, entry, data index], ...]     every rendered template occurs >= 3 times
     "async": bool, "autoescape": false | true | "fn" (decided by template name, select_autoescape style)
     "threads": None | {"n": 8..16, "reps": int, "preload": bool}}

Encoding of data: JSON scalars / lists as themselves, {"$": "dict"|"set"|"tuple"|"deque", "v": [...]},
{"$": "obj", "id": str, "attrs": {name: value}} (plain attribute holder without methods),
{"$": "template", "name": str} (Template object of the environment that renders),
{"$": "fn", "kind": "pause"|"raise"|"empty"} (harmless callable: yields to other threads / raises ValueError / returns '').

Oracle, per case:

1. *isolated reference*: for every distinct (template, entry point, data index) of the history a fresh
   environment with freshly decoded data renders that template once -> expected text or exception class
   (+ the text produced before the exception for the streaming entry points).
2. *history*: one shared environment, data decoded ONCE (so any modification accumulates), all templates
   preloaded; the history is executed step by step through the entry points render(dict), render(**kw),
   generate, stream, make_module(vars), new_context(vars) / new_context(vars, shared=True, locals=...) +
   root_render_func, Template.module (sync) and the *_async variants in enable_async environments.  After every
   step: result == the isolated reference, and the deep snapshots (type + structure + repr of leaves) of both
   data dicts, the extra globals, ``env.globals``, and every loaded template's own globals layer equal the
   snapshots taken before the first step; ``env.policies`` and ``jinja2.defaults.DEFAULT_POLICIES`` (whose nested
   dicts all environments share) equal a deep copy taken when this module was imported - this is also checked
   after every isolated reference render, so a reference cannot be computed under policies an earlier render
   changed (on a difference the shared dicts are restored before the violation is raised).
3. *threads* (cases with "threads"): a second fresh environment (with preload=false nothing is loaded, so loading,
   compiling and module caching race as well), 8-16 threads started behind a barrier under ``sys.setswitchinterval(1e-6)``,
   each executing the distinct steps ``reps`` times in a rotated order on the same shared data objects;
   every result must equal the isolated reference and the snapshots must be unchanged afterwards.  Equal
   outputs are required on every schedule, so this part cannot give a false alarm; which schedules happen
   is up to the interpreter.  A counting ``context_class`` reports how often consecutive variable lookups
   came from different threads, and the harness counts the renders that began while another thread was inside a
   render (Rec.extra: thread_switches_observed, thread_renders_overlapping / thread_renders, thread_cases).
"""
from __future__ import annotations

import asyncio
import collections
import copy
import re
import sys
import threading
import time

from vt import core

PID = "C29"
LEVEL = "exploration"
RULE = (
    "Hypothesis-generated template sets of three kinds: (frag) 1-2 library templates (top-level container constants, "
    "macros with own namespaces / cyclers / joiners / mutable literal defaults, sum/sort with caller-supplied containers) "
    "and 1-3 user templates that import them without context (cached default module), with context, from-import, "
    "include with/without context, and are built from typed fragments: every collection filter with container arguments "
    "(sum start=list, default, batch/slice fill values, sort, map, groupby, unique, reverse, list, items, dictsort, "
    "select/reject, join, min/max, tojson, xmlattr, ...), copy-then-mutate of filter results, namespaces (also "
    "namespace(dict)), cyclers, joiners, loop.cycle/changed/previtem, recursive loops, macros with varargs/kwargs and "
    "*/** call arguments, call blocks, set/filter blocks, plus 'wild' one-expression templates applying any built-in "
    "filter (except random) with container arguments to any data variable; (stmt) 1-2 G-stmt programs plus a wrapper "
    "importing/including them; (tset) G-inherit / G-modules sets. Data: lists, nested lists, dicts, sets, tuples, "
    "deques, attribute objects holding containers, container-valued environment and template-level globals; two data "
    "assignments. History: every template >= 3 times in a generated interleaving over 8 sync / 7 async entry points and "
    "both data assignments; autoescape off / on / decided by template name; tojson with and without indent, truncate "
    "and urlize (policy-reading filters); {% autoescape true|false|FLAG %} blocks around eval-context-sensitive content "
    "(join, replace, xmlattr, urlize, macro result ~ string) with a yielding data callable and a data callable that raises for "
    "one of the two data assignments; a quarter of the cases add 8-16 threads x 2-3 repetitions of up to 6 distinct steps. Non-trivial = some template of "
    "the case has an import or include-without-context (module cache), a namespace, or a filter with a container "
    "argument, and is rendered >= 3 times; distinct = distinct serialised case."
)
ASSUMPTIONS = [
    "the reference output is the tree's own first render in a fresh environment (differential in time, not a model)",
    "the data callables PAUSE / BOOM (time.sleep(0) / raise ValueError / return '') modify nothing",
    "templates never call methods of objects that came from the data or from globals (mutation through callables the "
    "data provides is allowed by the property); methods are only called on objects the template created itself "
    "(results of list/sort/reverse|list/unique|list/map|list/select|list/batch/slice/dictsort/items|list/dict(), literals)",
    "known finding excluded by construction: objects created at the top level of a template that is imported without "
    "context (namespace, cycler, joiner, list) are never modified from its macros or by importers (the cached module "
    "would carry the change into later renders)",
    "errors are outcomes compared by class: TemplateError, TypeError, ValueError, ArithmeticError, LookupError, AttributeError, "
    "AssertionError (truncate's argument assertion), RecursionError (unbounded template recursion; partial output not compared)",
    "random filter and lipsum are not used; set-valued output is sorted in the template; object addresses inside rendered "
    "text (repr of a lazy filter result) are normalised before comparing",
    "thread part: chance-driven schedule exploration, sound on every schedule; switches reported are a lower bound "
    "observed at variable-lookup granularity",
]

SYNC_ENTRIES = ("render", "render_kw", "generate", "stream", "make_module", "new_context", "new_context_shared", "default_module")
ASYNC_ENTRIES = ("render", "render_async", "generate_async", "generate", "make_module_async", "new_context", "new_context_shared")


# ---------------------------------------------------------------------------------------
# data


class Obj:
    """Attribute holder from the data: no methods, deterministic repr."""

    def __init__(self, ident, attrs):
        self.__dict__.update(attrs)
        self.__dict__["_id"] = ident

    def __repr__(self):
        return "Obj<%s>" % self.__dict__["_id"]


class Fn:
    """Callable from the data: "pause" gives other threads a chance to run and returns '', "raise" raises ValueError,
    "empty" returns ''.  None of them touches anything."""

    def __init__(self, kind):
        self.kind = kind

    def __call__(self):
        if self.kind == "pause":
            time.sleep(0)
        elif self.kind == "raise":
            raise ValueError("data callable raised")
        return ""

    def __repr__(self):
        return "Fn<%s>" % self.kind


def dec(x, env):
    if isinstance(x, list):
        return [dec(i, env) for i in x]
    if isinstance(x, dict):
        t = x.get("$")
        if t == "dict":
            return {_key(k): dec(v, env) for k, v in x["v"]}
        if t == "set":
            return {_key(i) for i in x["v"]}
        if t == "tuple":
            return tuple(dec(i, env) for i in x["v"])
        if t == "deque":
            return collections.deque(dec(i, env) for i in x["v"])
        if t == "obj":
            return Obj(x["id"], {k: dec(v, env) for k, v in x["attrs"].items()})
        if t == "template":
            return env.get_template(x["name"])
        if t == "fn":
            return Fn(x["kind"])
        if t is None:
            return {k: dec(v, env) for k, v in x.items()}
        raise core.HarnessError("bad encoding %r" % (x,))
    return x


def _key(k):
    if isinstance(k, (list, dict)):
        raise core.HarnessError("unhashable key %r" % (k,))
    return k


def snap(v):
    """Deep snapshot: type, structure, repr of leaves."""
    if v is None or isinstance(v, (str, int, float, bool, bytes)):
        return (type(v).__name__, repr(v))
    if isinstance(v, (list, tuple, collections.deque)):
        return (type(v).__name__, [snap(x) for x in v])
    if isinstance(v, collections.ChainMap):
        return ("ChainMap", [snap(m) for m in v.maps])
    if isinstance(v, dict):
        return (type(v).__name__, [(snap(k), snap(x)) for k, x in v.items()])
    if isinstance(v, (set, frozenset)):
        return (type(v).__name__, sorted((snap(x) for x in v), key=repr))
    if isinstance(v, Obj):
        return ("Obj", snap(v.__dict__))
    return (type(v).__name__, repr(v))


def snap_diff(a, b, path):
    """Human-readable first difference between two snapshots (None when equal)."""
    if a == b:
        return None
    if a[0] != b[0] or not isinstance(a[1], list) or not isinstance(b[1], list):
        return "%s: %s became %s" % (path, _show(a), _show(b))
    if a[0] in ("dict", "Obj", "OrderedDict") or (a[1] and isinstance(a[1][0], tuple) and isinstance(a[1][0][0], tuple)):
        ka, kb = [k for k, _ in a[1]], [k for k, _ in b[1]]
        if ka != kb:
            return "%s: keys %s became %s" % (path, [k[1] for k in ka], [k[1] for k in kb])
        for (k, x), (_, y) in zip(a[1], b[1]):
            if x != y:
                return snap_diff(x, y, "%s[%s]" % (path, k[1]))
    if a[0] == "Obj":
        return snap_diff(a[1], b[1], path + ".__dict__")
    if len(a[1]) == len(b[1]) and a[0] in ("list", "tuple", "deque", "ChainMap"):
        for i, (x, y) in enumerate(zip(a[1], b[1])):
            if x != y:
                return snap_diff(x, y, "%s[%d]" % (path, i))
    return "%s: %s became %s" % (path, _show(a), _show(b))


def _show(s):
    t, v = s
    if t == "Obj":
        return "Obj" + _show(v)
    if isinstance(v, list):
        if v and isinstance(v[0], tuple) and isinstance(v[0][0], tuple):
            return "%s{%s}" % (t, ", ".join("%s: %s" % (k[1], _show(x)) for k, x in v))
        return "%s[%s]" % (t, ", ".join(_show(x) for x in v))
    return v


# ---------------------------------------------------------------------------------------
# sources


def _stmt_wrapper(progs):
    macros = sorted({s[1] for s in progs["p0"] if s[0] == "macro"})
    parts = ["{% import 'p0' as P %}<{{ P }}>", "{% for q in [1, 2] %}{% include 'p0' %}{% endfor %}|",
             "{% include 'p0' without context %}|"]
    for m in macros:
        parts.append("{%% if P.%s is defined %%}{{ P.%s() }}{%% endif %%}|" % (m, m))
    if macros:
        parts.append("{%% from 'p0' import %s as mm with context %%}{{ mm() }}|" % macros[0])
    return "".join(parts)


def build_sources(case):
    """-> (sources, tags per template name)"""
    kind = case["kind"]
    sources, tags = {}, {}
    if kind == "frag":
        for name, frags in case["templates"].items():
            sources[name] = "".join(src for _, src in frags)
            tags[name] = set(" ".join(t for t, _ in frags).split())
    elif kind == "stmt":
        from vt.gen import stmt as G

        for name, prog in case["progs"].items():
            sources[name] = G.print_program(prog)
            tags[name] = {"namespace"} if any(s[0] == "nsnew" for s in G.walk(prog)) else set()
        sources["pu"] = _stmt_wrapper(case["progs"])
        tags["pu"] = {"import"}
    elif kind == "tset":
        from vt.gen import tsets

        for name, src in tsets.print_set(case["ir"]).items():
            sources[name] = src
            tags[name] = set()
            if "{% import" in src or "{% from" in src or "without context" in src:
                tags[name].add("import")
    else:
        raise core.HarnessError("unknown kind %r" % kind)
    for name, src in sources.items():
        if "namespace(" in src:
            tags[name].add("namespace")
    return sources, tags


# ---------------------------------------------------------------------------------------
# environments and entry points

_ALLOWED = None


def _allowed():
    global _ALLOWED
    if _ALLOWED is None:
        import jinja2

        # AssertionError: the truncate filter asserts ``length >= len(end)`` (wild fragments reach it)
        # RecursionError: a G-stmt program may rebind the variable of a recursive loop to an outer list and recurse forever
        _ALLOWED = (jinja2.TemplateError, TypeError, ValueError, ArithmeticError, LookupError, AttributeError, AssertionError,
                    RecursionError)
    return _ALLOWED


def _autoescape_by_name(name):
    """select_autoescape-style decision by template name: u0 / w0 / lib0 / p0 / t0 / t2 escape, the others do not."""
    return name is not None and name[-1:] in "02"


# The policies every new Environment starts from, as they were when this module was imported (before any render of
# this process).  Environment.__init__ copies DEFAULT_POLICIES shallowly, so the nested "json.dumps_kwargs" dict is one
# object shared by all environments: a render that writes into it changes an input of every later render.
def _load_pristine():
    from jinja2.defaults import DEFAULT_POLICIES

    return copy.deepcopy(DEFAULT_POLICIES)


_PRISTINE = _load_pristine()


def check_policies(env, when, case, sources):
    from jinja2.defaults import DEFAULT_POLICIES

    want = snap(_PRISTINE)
    for label, pol in (("env.policies", env.policies), ("jinja2.defaults.DEFAULT_POLICIES", DEFAULT_POLICIES)):
        got = snap(pol)
        if got != want:
            msg = snap_diff(want, got, label)
            # put the shared dicts back (in place) so that the failure does not leak into the cases that follow
            for k, v in _PRISTINE.items():
                if isinstance(v, dict) and isinstance(DEFAULT_POLICIES.get(k), dict):
                    DEFAULT_POLICIES[k].clear()
                    DEFAULT_POLICIES[k].update(copy.deepcopy(v))
                else:
                    DEFAULT_POLICIES[k] = copy.deepcopy(v)
            for k in [k for k in DEFAULT_POLICIES if k not in _PRISTINE]:
                del DEFAULT_POLICIES[k]
            raise core.Violation("%s: %s (the policies are an input shared by every environment)\n  %s"
                                 % (when, msg, _describe(case, sources)))


def make_env(case, sources, context_class=None):
    import jinja2

    ae = case.get("autoescape") or False
    if ae == "fn":
        ae = _autoescape_by_name
    env = jinja2.Environment(loader=jinja2.DictLoader(dict(sources)), enable_async=bool(case.get("async")), autoescape=ae,
                             extensions=["jinja2.ext.do", "jinja2.ext.loopcontrols"])
    if context_class is not None:
        env.context_class = context_class(env)
    return env


class World:
    """An environment plus the decoded inputs of one case (decoded once: modifications accumulate)."""

    def __init__(self, case, sources, context_class=None):
        self.env = make_env(case, sources, context_class)
        self.case = case
        if case["kind"] == "tset":
            self.env.globals.update(case["ir"].get("globals") or {})
        self.extra_globals = dec(case.get("globals") or {}, self.env)
        self.env.globals.update(self.extra_globals)
        self.tglobals = {n: dec(g, self.env) for n, g in (case.get("tglobals") or {}).items()}
        self.late = set(case.get("tglobals_late") or ())
        self.datas = None
        self.templates = {}

    def decode_data(self):
        try:
            self.datas = [dec(d, self.env) for d in self.case["data"]]
        except _allowed() as e:  # a Template object of a broken / missing template
            self.datas = None
            return type(e).__name__
        return None

    def template(self, name):
        t = self.templates.get(name)
        if t is None:
            g = self.tglobals.get(name)
            if g is not None and name in self.late:
                # first loaded without globals, then requested again with them: documented to add the new items to the
                # cached template's own globals
                self.env.get_template(name)
                t = self.env.get_template(name, globals=g)
            else:
                t = self.env.get_template(name, globals=g) if g is not None else self.env.get_template(name)
            self.templates[name] = t
        elif name in self.late and self.tglobals.get(name) is not None:
            t = self.env.get_template(name, globals=self.tglobals[name])  # asked for again with the same globals: no new items
        return t

    def snapshots(self):
        out = {"env.globals": snap(self.env.globals)}
        if self.datas is not None:
            for i, d in enumerate(self.datas):
                out["data%d" % (i + 1)] = snap(d)
        out["extra globals"] = snap(self.extra_globals)
        for n, g in self.tglobals.items():
            out["globals given to %s" % n] = snap(g)
        return out

    def template_snapshots(self):
        out = {}
        seen = list(self.templates.values())
        if self.env.cache is not None:
            seen += list(self.env.cache.values())
        for t in seen:
            own = t.globals.maps[0] if isinstance(t.globals, collections.ChainMap) else t.globals
            out["%s.globals" % t.name] = snap(own)
            out["%s.globals layers" % t.name] = ("int", repr(len(getattr(t.globals, "maps", ()))))
        return out


_ADDR = re.compile(r" at 0x[0-9a-fA-F]+")


def run_entry(world, name, entry, di, loop):
    """-> ["out", text, extra] | ["err", class name, text produced before the error]; object addresses that a repr
    put into the text are normalised (a lazy filter result or a method printed by a template)."""
    r = _run_entry(world, name, entry, di, loop)
    if isinstance(r[1], str) and " at 0x" in r[1]:
        r[1] = _ADDR.sub(" at 0x?", r[1])
    if isinstance(r[2], str) and " at 0x" in r[2]:
        r[2] = _ADDR.sub(" at 0x?", r[2])
    return r


def _run_entry(world, name, entry, di, loop):
    from jinja2.utils import concat

    env = world.env
    partial = []
    try:
        t = world.template(name)
        if world.datas is None:
            world_err = world.decode_data()
            if world_err:
                return ["err", world_err, ""]
        data = world.datas[di]
        if entry == "render":
            return ["out", t.render(data), None]
        if entry == "render_kw":
            return ["out", t.render(**data), None]
        if entry == "render_async":
            return ["out", loop.run_until_complete(t.render_async(data)), None]
        if entry == "generate":
            for chunk in t.generate(data):
                partial.append(chunk)
            return ["out", "".join(partial), None]
        if entry == "generate_async":
            async def collect():
                agen = t.generate_async(data)
                try:
                    async for chunk in agen:
                        partial.append(chunk)
                finally:
                    await agen.aclose()

            loop.run_until_complete(collect())
            return ["out", "".join(partial), None]
        if entry == "stream":
            s = t.stream(data)
            s.enable_buffering(3)
            for chunk in s:
                partial.append(chunk)
            return ["out", "".join(partial), None]
        if entry == "make_module":
            m = t.make_module(data)
            return ["out", str(m), sorted(k for k in vars(m) if k not in ("_body_stream", "__name__"))]
        if entry == "make_module_async":
            m = loop.run_until_complete(t.make_module_async(data))
            return ["out", str(m), sorted(k for k in vars(m) if k not in ("_body_stream", "__name__"))]
        if entry in ("new_context", "new_context_shared"):
            if entry == "new_context":
                ctx = t.new_context(data)
            else:
                ctx = t.new_context(data, shared=True, locals={"zz_local": "LOC", "I": 77})
            if env.is_async:
                async def collect():
                    agen = t.root_render_func(ctx)
                    try:
                        async for chunk in agen:
                            partial.append(chunk)
                    finally:
                        await agen.aclose()

                loop.run_until_complete(collect())
            else:
                for chunk in t.root_render_func(ctx):
                    partial.append(chunk)
            return ["out", concat(partial), sorted(ctx.exported_vars)]
        if entry == "default_module":
            return ["out", str(t.module), None]
        raise core.HarnessError("unknown entry %r" % entry)
    except RecursionError:
        return ["err", "RecursionError", ""]  # how much was produced before the limit depends on the caller's stack depth
    except _allowed() as e:
        return ["err", type(e).__name__, "".join(partial)]


def _close_loop(loop):
    """Finish the async generators a failed render left behind, then close (keeps the run free of asyncio warnings)."""
    try:
        loop.run_until_complete(loop.shutdown_asyncgens())
        loop.run_until_complete(asyncio.sleep(0))
    finally:
        loop.close()


def _steps_of(case):
    seen, out = set(), []
    for name, entry, di in case["history"]:
        k = (name, entry, di)
        if k not in seen:
            seen.add(k)
            out.append(k)
    return out


def _describe(case, sources):
    return "async=%r autoescape=%r\n  %s\n  data=%r\n  globals=%r tglobals=%r" % (
        bool(case.get("async")), case.get("autoescape") or False, "\n  ".join("%s: %s" % kv for kv in sorted(sources.items())), case["data"],
        case.get("globals"), case.get("tglobals"))


def _counting_context(counter):
    def make(env):
        base = env.context_class

        class CountingContext(base):
            def resolve_or_missing(self, key):
                me = threading.get_ident()
                if counter[0] != me:
                    counter[0] = me
                    counter[1] += 1
                return base.resolve_or_missing(self, key)

        return CountingContext

    return make


THREAD_STATS = {"thread_switches_observed": 0, "thread_renders": 0, "thread_renders_overlapping": 0, "thread_cases": 0}


def check_case(case):
    sources, tags = build_sources(case)
    names = sorted({n for n, _, _ in case["history"]})
    entries = ASYNC_ENTRIES if case.get("async") else SYNC_ENTRIES
    for n, e, di in case["history"]:
        if n not in sources or e not in entries or di not in (0, 1):
            raise core.HarnessError("bad history step %r" % ((n, e, di),))
    counts = collections.Counter(n for n, _, _ in case["history"])
    steps = _steps_of(case)
    loop = asyncio.new_event_loop()
    labels = ["kind_" + case["kind"], "async" if case.get("async") else "sync"]
    if case.get("autoescape"):
        labels.append("autoescape_fn" if case["autoescape"] == "fn" else "autoescape")
    try:
        # 1. isolated references
        expected = {}
        for name, entry, di in steps:
            w = World(case, sources)
            expected[(name, entry, di)] = run_entry(w, name, entry, di, loop)
            check_policies(w.env, "after the isolated render %s(%r, data%d)" % (entry, name, di + 1), case, sources)
            w = None
        # 2. history on one shared environment
        world = World(case, sources)
        base = world.snapshots()  # before anything is loaded: loading with template-level globals must not touch env.globals
        for name in sorted(sources):
            try:
                world.template(name)
            except _allowed():
                pass
        world.decode_data()
        loaded = world.snapshots()
        loaded.update(base)  # the data snapshots are new, everything else keeps its value from before the loading
        base = loaded
        _compare_snaps(world, base, {}, "after loading the templates", case, sources)
        tbase = world.template_snapshots()
        for i, (name, entry, di) in enumerate(case["history"]):
            got = run_entry(world, name, entry, di, loop)
            exp = expected[(name, entry, di)]
            if got != exp:
                raise core.Violation(
                    "step %d of the history, %s(%r, data%d): isolated first render gave %r, this render gives %r\n  history=%r\n  %s"
                    % (i, entry, name, di + 1, exp, got, case["history"][: i + 1], _describe(case, sources)),
                    expected=exp, observed=got)
            when = "after step %d of the history (%s(%r, data%d))" % (i, entry, name, di + 1)
            _compare_snaps(world, base, tbase, when, case, sources)
            check_policies(world.env, when, case, sources)
        labels.append("out_" + ("err" if all(expected[s][0] == "err" for s in steps) else "text"))
        for s in steps:
            if expected[s][0] == "err":
                labels.append("err_" + expected[s][1])
        labels += ["entry_" + e for e in sorted({e for _, e, _ in steps})]
        # 3. threads
        th = case.get("threads")
        if th:
            labels.append("threads")
            _thread_part(case, sources, steps, expected, th)
    finally:
        _close_loop(loop)
    alltags = set()
    for n in names:
        alltags |= tags.get(n, set())
    labels += ["tag_" + t for t in sorted(alltags)]
    nontrivial = any(counts[n] >= 3 and (tags.get(n, set()) & {"import", "namespace", "container_arg"}) for n in names)
    return core.Outcome(nontrivial, labels)


def _compare_snaps(world, base, tbase, when, case, sources):
    now = world.snapshots()
    for k, v in base.items():
        if now.get(k) != v:
            raise core.Violation("%s: %s\n  %s" % (when, snap_diff(v, now.get(k), k), _describe(case, sources)))
    tnow = world.template_snapshots()
    for k, v in tbase.items():
        if k in tnow and tnow[k] != v:
            raise core.Violation("%s: %s\n  %s" % (when, snap_diff(v, tnow[k], k), _describe(case, sources)))


def _thread_part(case, sources, steps, expected, th):
    counter = [0, 0]
    steps = steps[:6]
    world = World(case, sources, _counting_context(counter))
    if th.get("preload"):
        for name in sorted(sources):
            try:
                world.template(name)
            except _allowed():
                pass
    world.decode_data()
    active = [0, 0]  # renders in progress, renders that began while another one was in progress
    base = world.snapshots()
    n, reps = th["n"], th["reps"]
    results = [None] * n
    barrier = threading.Barrier(n)
    crashed = []

    def work(idx):
        loop = asyncio.new_event_loop() if case.get("async") else None
        out = []
        try:
            barrier.wait()
            k = idx % len(steps)
            order = steps[k:] + steps[:k]
            for _ in range(reps):
                for name, entry, di in order:
                    if active[0] > 0:
                        active[1] += 1
                    active[0] += 1
                    try:
                        out.append(((name, entry, di), run_entry(world, name, entry, di, loop)))
                    finally:
                        active[0] -= 1
            results[idx] = out
        except BaseException as e:  # noqa: BLE001 - reported by the main thread
            crashed.append(e)
            barrier.abort()
        finally:
            if loop is not None:
                _close_loop(loop)

    old = sys.getswitchinterval()
    threads = [threading.Thread(target=work, args=(i,), daemon=True) for i in range(n)]
    sys.setswitchinterval(1e-6)
    try:
        for t in threads:
            t.start()
        for t in threads:
            t.join()
    finally:
        sys.setswitchinterval(old)
    if crashed:
        raise crashed[0]
    THREAD_STATS["thread_switches_observed"] += counter[1]
    THREAD_STATS["thread_renders"] += n * reps * len(steps)
    THREAD_STATS["thread_renders_overlapping"] += active[1]
    THREAD_STATS["thread_cases"] += 1
    for idx, out in enumerate(results):
        for key, got in out:
            if got != expected[key]:
                raise core.Violation(
                    "thread %d of %d, %s(%r, data%d): isolated first render gave %r, the concurrent render gives %r\n  %s"
                    % (idx, n, key[1], key[0], key[2] + 1, expected[key], got, _describe(case, sources)),
                    expected=expected[key], observed=got)
    now = world.snapshots()
    for k, v in base.items():
        if now.get(k) != v:
            raise core.Violation("after %d concurrent threads: %s\n  %s" % (n, snap_diff(v, now.get(k), k), _describe(case, sources)))
    check_policies(world.env, "after %d concurrent threads" % n, case, sources)


# ---------------------------------------------------------------------------------------
# generator: data

LISTS = ("L", "L2", "GL", "O.items", "START", "FILL", "DFLT")
SEQS = LISTS + ("T", "Q", "L", "L2")
DICTS = ("D", "GD", "O.meta", "DDFLT")
ANYVARS = LISTS + DICTS + ("T", "Q", "TGL", "LL", "S", "DL", "OL", "ST", "N", "W", "I", "O", "UNDEF")
VAR_RE = re.compile(r"\b(L|L2|GL|START|FILL|DFLT|T|Q|TGL|D|GD|DDFLT|LL|S|DL|OL|ST|N|O)\b")


def _data_strategy():
    from hypothesis import strategies as st

    ints = st.integers(0, 4)
    ilist = st.lists(ints, max_size=4)
    words = st.sampled_from(["b", "A", "c", "a", "<x>", ""])

    def encdict(keys, vals, max_size=3):
        return st.lists(st.tuples(keys, vals), max_size=max_size, unique_by=lambda kv: kv[0]).map(
            lambda kvs: {"$": "dict", "v": [list(kv) for kv in kvs]})

    sdict = encdict(st.sampled_from(["a", "b", "c"]), ints)
    row = st.builds(lambda k, v, w: {"$": "dict", "v": [["k", k], ["v", v], ["w", w]]}, st.sampled_from(["x", "y", "X"]), ints, ilist)
    orow = st.builds(lambda k, v, i: {"$": "obj", "id": "r%d" % i, "attrs": {"k": k, "v": v}}, st.sampled_from(["x", "y"]), ints,
                     st.integers(0, 9))
    nested = st.recursive(ints, lambda c: st.lists(c, max_size=3), max_leaves=5).map(lambda v: v if isinstance(v, list) else [v])

    data = st.fixed_dictionaries({
        "L": ilist, "L2": ilist, "LL": st.lists(ilist, max_size=3), "S": st.lists(words, max_size=4), "D": sdict,
        "DL": st.lists(row, max_size=3), "OL": st.lists(orow, max_size=3),
        "ST": st.lists(ints, max_size=3, unique=True).map(lambda v: {"$": "set", "v": v}),
        "T": ilist.map(lambda v: {"$": "tuple", "v": v}), "Q": ilist.map(lambda v: {"$": "deque", "v": v}),
        "O": st.builds(lambda i, m, nm: {"$": "obj", "id": "o", "attrs": {"items": i, "meta": m, "name": nm}}, ilist, sdict, words),
        "START": ilist, "FILL": ilist, "DFLT": ilist, "DDFLT": sdict, "N": nested, "W": words, "I": ints,
        "FLAG": st.booleans(), "PAUSE": st.just({"$": "fn", "kind": "pause"}),
        "BOOM": st.sampled_from(["empty", "raise"]).map(lambda k: {"$": "fn", "kind": k}),
    })
    globs = st.fixed_dictionaries({"GL": ilist, "GD": sdict})
    tglob = st.fixed_dictionaries({"TGV": st.sampled_from(["tgA", "tgB", "tgC"]), "TGL": ilist})
    return data, globs, tglob


# ---------------------------------------------------------------------------------------
# generator: fragments

COPYING = ("%s|list", "%s|sort", "%s|reverse|list", "%s|unique|list", "%s|map('string')|list", "%s|select|list",
           "%s|reject('odd')|list", "%s[:]", "(%s + [])")
DCOPYING = ("%s|dictsort", "%s|items|list", "%s|list", "%s|dictsort(by='value')")

# tags: container_arg = a filter/function received a container argument or operand from the data
TYPED = [
    ("container_arg", "{{ LL|sum(start=%(list)s) }}"),
    ("container_arg", "{{ DL|sum(attribute='w', start=%(list)s) }}"),
    ("container_arg", "{{ DL|map(attribute='w')|sum(start=%(list)s) }}"),
    ("", "{{ %(seq)s|sum }}{{ %(seq)s|sum(start=I) }}"),
    ("container_arg", "{{ UNDEF|default(%(any)s) }}{{ %(seq)s|default(%(list)s, true) }}"),
    ("container_arg", "{{ %(seq)s|batch(2, %(any)s)|list }}{{ %(seq)s|batch(3, %(list)s)|list }}"),
    ("container_arg", "{{ %(seq)s|slice(2, %(any)s)|list }}{{ %(seq)s|slice(3, %(list)s)|list }}"),
    ("container_arg", "{% for row in %(seq)s|batch(3, %(list)s) %}{{ row }}{% endfor %}{% for col in %(seq)s|slice(3, %(list)s) %}{{ col }}{% endfor %}"),
    ("", "{{ %(seq)s|batch(3)|list }}{{ %(seq)s|slice(3)|list }}"),
    ("", "{{ %(seq)s|sort }}{{ %(seq)s|sort(reverse=true) }}"),
    ("", "{{ DL|sort(attribute='k') }}{{ DL|sort(attribute='v,k', reverse=true)|map(attribute='v')|list }}"),
    ("", "{{ S|sort(case_sensitive=true) }}{{ S|sort }}{{ OL|sort(attribute='v')|map(attribute='k')|list }}"),
    ("", "{{ %(seq)s|map('string')|list }}{{ DL|map(attribute='k')|list }}"),
    ("container_arg", "{{ DL|map(attribute='zz', default=%(any)s)|list }}"),
    ("", "{{ LL|map('sum')|list }}{{ LL|map('first')|list }}{{ LL|map('sort')|list }}{{ LL|map('list')|list }}"),
    ("container_arg", "{{ LL|map('batch', 1, %(any)s)|map('list')|list }}"),
    ("container_arg", "{{ [LL, LL]|map('sum', start=%(list)s)|list }}"),
    ("", "{{ DL|groupby('k') }}{% for g in DL|groupby('k') %}{{ g.grouper }}:{{ g.list|length }}{% endfor %}"),
    ("container_arg", "{{ DL|groupby('zz', default=%(any)s)|length }}{{ OL|groupby('k')|length }}"),
    ("", "{{ %(seq)s|unique|list }}{{ S|unique(case_sensitive=true)|list }}{{ DL|unique(attribute='k')|list|length }}"),
    ("", "{{ %(seq)s|reverse|list }}{{ W|reverse|list }}{{ %(seq)s|list }}{{ %(dict)s|list }}{{ ST|list|sort }}"),
    ("", "{{ %(dict)s|items|list }}{{ %(dict)s|dictsort }}{{ %(dict)s|dictsort(by='value', reverse=true) }}"),
    ("", "{{ %(seq)s|join(',') }}{{ DL|join('|', attribute='k') }}{{ %(seq)s|first }}{{ %(seq)s|last }}{{ %(seq)s|length }}"),
    ("", "{{ %(seq)s|max }}{{ %(seq)s|min }}{{ DL|max(attribute='v') }}{{ %(seq)s|select('odd')|list }}{{ %(seq)s|reject('odd')|list }}"),
    ("", "{{ DL|selectattr('v', 'gt', 1)|list|length }}{{ DL|rejectattr('v')|list|length }}{{ OL|selectattr('k', 'eq', 'x')|list }}"),
    ("", "{{ %(list)s|tojson }}{{ %(dict)s|tojson }}{{ %(any)s|pprint }}{{ %(dict)s|xmlattr }}{{ %(dict)s|urlencode }}{{ %(any)s|string }}"),
    ("container_arg", "{{ %(any)s|tojson(indent=2) }}{{ %(list)s|tojson }}"),
    ("container_arg", "{{ %(list)s|tojson }}{{ %(dict)s|tojson(2) }}{{ [%(list)s, I]|tojson }}"),
    ("", "{{ 'aaa bbb ccc ddd'|truncate(9) }}{{ 'aaa bbb ccc ddd'|truncate(9, true, '..', 0) }}{{ W|truncate(3, leeway=1) }}"),
    ("container_arg", "{{ 'http://x.y a@b.c x:z'|urlize(rel='nofollow', target='_blank', extra_schemes=S) }}{{ 'http://x.y x:z'|urlize }}"),
    ("autoescape_block container_arg", "{%% autoescape true %%}{{ S|join('<') }}{{ PAUSE() }}{{ W|replace('<', '>') }}{{ BOOM() }}{%% endautoescape %%}"
                                       "{{ S|join('<') }}{{ W|replace('x', '&') }}"),
    ("autoescape_block container_arg", "{%% autoescape false %%}{{ S|join('<') }}{{ PAUSE() }}{{ BOOM() }}{{ %(dict)s|xmlattr }}{%% endautoescape %%}"
                                       "{{ S|join('&') }}{{ {'a': W}|xmlattr }}"),
    ("autoescape_block container_arg", "{%% autoescape FLAG %%}{%% for x in S %%}{{ x }}{{ PAUSE() }}{%% endfor %%}{{ BOOM() }}{{ 'http://x.y/<'|urlize }}"
                                       "{%% endautoescape %%}{{ S|join('<') }}{{ 'http://x.y/<'|urlize }}"),
    ("autoescape_block", "{%% macro tg(x) %%}<{{ x }}>{%% endmacro %%}{{ tg(W) ~ '&' }}{%% autoescape true %%}{{ tg(W) + '&' }}{{ PAUSE() }}{{ BOOM() }}"
                         "{{ S|join('<') }}{%% endautoescape %%}{{ tg(W) + '<' }}{{ [W|safe, '<']|join('&') }}"),
    ("autoescape_block", "{%% macro tf(x) %%}<{{ x }}>{%% endmacro %%}{%% autoescape false %%}{{ tf(W) ~ '&' }}{{ BOOM() }}{{ PAUSE() }}{{ W|replace('<', '&') }}"
                         "{%% endautoescape %%}{{ tf(W) + '<' }}{{ [W, '<']|join('>') }}"),
    ("autoescape_block", "{%% autoescape not FLAG %%}{{ W }}{{ PAUSE() }}{{ [W, '&']|join('<') }}{{ BOOM() }}{%% endautoescape %%}{{ [W, '&']|join('<') }}"),
    ("container_arg", "{{ I in %(list)s }}{{ %(list)s is sameas %(list)s }}{{ %(list)s == %(list)s }}{{ %(list)s is eq(%(list)s) }}"),
    ("container_arg", "{{ %(list)s is iterable }}{{ %(any)s is sequence }}{{ %(any)s is mapping }}{{ %(list)s is in([%(list)s]) }}"),
    ("container_arg", "{{ %(list)s + %(list)s }}"),
    ("", "{{ %(list)s * 2 }}{{ %(list)s[0]|default('-') }}{{ %(list)s[1:] }}{{ %(list)s[::-1] }}"),
    ("", "{{ %(dict)s.a }}{{ %(dict)s['b'] }}{{ %(dict)s.get('c') }}{{ O.name }}{{ O.items }}"),
    ("container_arg", "{{ W ~ %(list)s }}{{ '%%s-%%s'|format(%(list)s, %(dict)s) }}"),
    ("container_arg", "{{ dict(%(dict)s, z=I) }}{{ dict(a=%(list)s) }}{{ dict(%(dict)s).update(z=1) }}"),
    ("container_arg", "{%% set c = %(copy)s %%}{%% do c.append(I) %%}{{ c }}"),
    ("container_arg", "{%% set c = %(dcopy)s %%}{{ c.pop() if c }}{{ c }}"),
    ("container_arg", "{%% set c = dict(%(dict)s) %%}{%% do c.update(z=I) %%}{{ c.popitem() }}{{ c }}"),
    ("container_arg", "{%% set rows = %(list)s|batch(2, %(any)s)|list %%}{%% for r in rows %%}{%% do r.append(I) %%}{%% endfor %%}{{ rows }}"),
    ("container_arg", "{%% set rows = %(list)s|slice(2, %(any)s)|list %%}{%% for r in rows %%}{%% do r.insert(0, W) %%}{%% endfor %%}{{ rows }}"),
    ("container_arg", "{%% set g = DL|groupby('k') %%}{%% for k, items in g %%}{%% do items.append(I) %%}{%% endfor %%}{{ g|length }}"),
    ("", "{%% for x in %(seq)s %%}{{ loop.index }}{{ loop.cycle(%(any)s, I) }}{{ loop.changed(x) }}{{ loop.previtem|default('-') }}"
         "{{ loop.nextitem|default('-') }}{%% endfor %%}"),
    ("", "{%% for k, v in %(dict)s|items %%}{{ k }}={{ v }};{%% endfor %%}{%% for k in %(dict)s %%}{{ k }}{%% endfor %%}"),
    ("", "{%% for x in N recursive %%}{%% if x is iterable %%}({{ loop(x) }}){%% else %%}{{ x }}{%% endif %%}{%% endfor %%}"),
    ("", "{%% for x in %(seq)s if x is odd %%}{{ x }}{%% else %%}none{%% endfor %%}{%% for x in %(seq)s|reverse %%}{{ x }}{%% endfor %%}"),
    ("namespace container_arg", "{%% set ns = namespace(acc=%(list)s, n=0) %%}{%% for x in %(list)s %%}{%% set ns.n = ns.n + 1 %%}"
                                "{%% set ns.acc = ns.acc + [x] %%}{%% endfor %%}{{ ns.n }}{{ ns.acc }}"),
    ("namespace container_arg", "{%% set ns = namespace(%(dict)s) %%}{%% set ns.z = I %%}{{ ns.z }}{{ ns.a|default('-') }}"),
    ("namespace container_arg", "{%% set ns = namespace(%(dict)s, z=%(list)s) %%}{%% set ns.a = W %%}{{ ns.a }}{{ ns.z }}"),
    ("container_arg", "{%% set c = cycler(%(any)s, %(any)s) %%}{{ c.next() }}{{ c.next() }}{{ c.current }}{%% do c.reset() %%}{{ c.next() }}"),
    ("container_arg", "{%% if %(list)s %%}{%% set c = cycler(*%(same)s) %%}{{ c.next() }}{{ c.next() }}{{ c.next() }}{%% endif %%}"),
    ("", "{%% set j = joiner(W) %%}{%% for x in %(seq)s %%}{{ j() }}{{ x }}{%% endfor %%}{{ j() }}"),
    ("", "{%% set x = %(list)s %%}{%% set x = x + [I] %%}{{ x }}{%% set a, b = %(list)s, %(dict)s %%}{{ a }}{{ b }}"),
    ("", "{%% with l = %(list)s, d = %(dict)s %%}{{ l|length }}{{ d|length }}{%% endwith %%}"),
    ("container_arg", "{%% macro m(a, acc=%(list)s) %%}{{ acc + [a] }}{%% endmacro %%}{{ m(1) }}{{ m(2, [0]) }}"),
    ("", "{%% macro ml(a=[]) %%}{%% do a.append(I) %%}{{ a }}{%% endmacro %%}{{ ml() }}{{ ml() }}{{ ml([7]) }}"),
    ("container_arg", "{%% macro va() %%}{{ varargs }}{{ kwargs|dictsort }}{%% endmacro %%}{{ va(%(list)s, *%(list)s, k=%(dict)s, **%(dict)s) }}"),
    ("container_arg", "{%% macro wr(x) %%}<{{ caller(x) }}>{%% endmacro %%}{%% call(y) wr(%(list)s) %%}{{ y }}{{ y|length }}{%% endcall %%}"),
    ("", "{%% filter upper %%}{{ S }}{%% endfilter %%}{%% set blk %%}{{ %(list)s }}{%% endset %%}{{ blk }}"),
    ("", "{{ TGV|default('no-tgv') }}{{ TGL|default('no-tgl') }}{{ GL }}{{ GD }}{{ zz_local|default('') }}"),
    ("", "{%% set own = [1, [2], {'k': [3]}] %%}{%% do own.append(own[1]) %%}{%% do own[1].append(I) %%}{{ own }}"),
    ("", "{{ range(I)|list }}{{ (1, 2) + (3,) }}{{ [I, W]|first }}{{ {'a': %(list)s}.a }}"),
]

LIB_TOP = [
    "{% set cfg = {'a': [1, 2], 'b': GL} %}",
    "{% set LS = GL|sort %}",
    "{% set lns = namespace(n=GL|length) %}",
    "{% set pal = cycler('odd', 'even') %}",
    "[lib {{ TGV|default('no-tgv') }} {{ GL }} {{ GD|dictsort }} {{ L|default('no-L') }}]",
    "{% set total = GL|sum %}",
    "{% set rows = GL|batch(2, GD)|list %}",
]
LIB_MACROS = [
    ("show", "{% macro show(x) %}[{{ x }}|{{ TGV|default('-') }}|{{ GL }}|{{ L|default('noL') }}]{% endmacro %}"),
    ("acc", "{% macro acc(x, a=[]) %}{% do a.append(x) %}{{ a }}{% endmacro %}"),
    ("cyc", "{% macro cyc(xs) %}{% set c = cycler(*xs) if xs else cycler(0) %}{{ c.next() }}{{ c.next() }}{% endmacro %}"),
    ("cnt", "{% macro cnt(xs) %}{% set ns = namespace(n=0) %}{% for x in xs %}{% set ns.n = ns.n + 1 %}{% endfor %}{{ ns.n }}{% endmacro %}"),
    ("srt", "{% macro srt(xs) %}{{ xs|sort }}{{ xs|reverse|list }}{% endmacro %}"),
    ("summ", "{% macro summ(xs, st) %}{{ xs|sum(start=st) }}{% endmacro %}"),
    ("jn", "{% macro jn(xs) %}{% set j = joiner('+') %}{% for x in xs %}{{ j() }}{{ x }}{% endfor %}{% endmacro %}"),
    ("peek", "{% macro peek() %}{{ cfg|default('nocfg') }}{{ LS|default('nols') }}{{ lns.n|default('nons') }}{{ pal.current|default('nopal') }}{% endmacro %}"),
]
# uses of a library bound to alias %(m)s; %(lib)s = template name
LIB_USES = [
    "{{ %(m)s.show(%(any)s) if %(m)s.show is defined }}", "{{ %(m)s.acc(I) ~ %(m)s.acc(W) if %(m)s.acc is defined }}",
    "{{ %(m)s.cyc(%(list)s) if %(m)s.cyc is defined }}", "{{ %(m)s.cnt(%(list)s) if %(m)s.cnt is defined }}",
    "{{ %(m)s.srt(%(list)s) if %(m)s.srt is defined }}", "{{ %(m)s.summ(LL, %(list)s) if %(m)s.summ is defined }}",
    "{{ %(m)s.jn(%(list)s) if %(m)s.jn is defined }}", "{{ %(m)s.peek() if %(m)s.peek is defined }}",
    "{{ (%(m)s.cfg|default({})).a|default('-') }}{{ %(m)s.LS|default('-') }}{{ %(m)s.total|default('-') }}{{ %(m)s.rows|default('-') }}",
    "{%% set c = ((%(m)s.cfg|default({})).a|default([]))|list %%}{%% do c.append(9) %%}{{ c }}{{ (%(m)s.cfg|default({})).a|default('-') }}",
    "<{{ %(m)s }}>",
]

ALL_FILTERS = ("abs", "attr", "batch", "capitalize", "center", "count", "d", "default", "dictsort", "e", "escape", "filesizeformat",
               "first", "float", "forceescape", "format", "groupby", "indent", "int", "join", "last", "length", "list", "lower",
               "items", "map", "min", "max", "pprint", "reject", "rejectattr", "replace", "reverse", "round", "safe", "select",
               "selectattr", "slice", "sort", "string", "striptags", "sum", "title", "trim", "truncate", "unique", "upper",
               "urlencode", "urlize", "wordcount", "wordwrap", "xmlattr", "tojson")
LAZY_FILTERS = ("map", "select", "reject", "selectattr", "rejectattr", "batch", "slice", "reverse", "unique", "items")
WILD_ARGS = ("I", "W", "2", "'k'", "true", "L", "L2", "START", "FILL", "DFLT", "D", "DDFLT", "GL", "T", "Q", "LL", "S", "O", "N",
             "attribute='k'", "attribute='w'", "start=START", "default=DFLT", "fill_with=FILL", "reverse=true", "first=true",
             "blank=true", "width=L", "by='value'", "indent=2", "indent=I")


def _strategy(sizes):
    from hypothesis import strategies as st

    from vt.gen import stmt as G
    from vt.gen import tsets

    nfrag, pdepth, pnodes, tsize = sizes
    data_s, glob_s, tglob_s = _data_strategy()

    def fill(draw, pattern):
        out, pos = [], 0
        for m in re.finditer(r"%\((list|seq|dict|any|copy|dcopy|same)\)s", pattern):
            out.append(pattern[pos:m.start()].replace("%%", "%"))
            k = m.group(1)
            if k == "same":
                out.append(out[-2])  # the variable drawn for the previous placeholder
            elif k == "list":
                out.append(draw(st.sampled_from(LISTS)))
            elif k == "seq":
                out.append(draw(st.sampled_from(SEQS)))
            elif k == "dict":
                out.append(draw(st.sampled_from(DICTS)))
            elif k == "any":
                out.append(draw(st.sampled_from(ANYVARS)))
            elif k == "copy":
                out.append(draw(st.sampled_from(COPYING)) % draw(st.sampled_from(LISTS)))
            else:
                out.append(draw(st.sampled_from(DCOPYING)) % draw(st.sampled_from(DICTS)))
            pos = m.end()
        out.append(pattern[pos:].replace("%%", "%"))
        return "".join(out)

    ae_blocks = [tp for tp in TYPED if "autoescape_block" in tp[0]]

    def typed_frag(draw):
        tag, pat = draw(st.sampled_from(ae_blocks if 40 <= draw(st.integers(0, 99)) < 52 else TYPED))
        return [tag, fill(draw, pat)]

    def wild_frag(draw):
        var = draw(st.sampled_from(ANYVARS))
        f = draw(st.sampled_from(ALL_FILTERS))
        args = draw(st.lists(st.sampled_from(WILD_ARGS), max_size=2, unique_by=lambda a: a.split("=")[0] if "=" in a else a))
        args = [a for a in args if "=" not in a] + [a for a in args if "=" in a]
        expr = "%s|%s%s" % (var, f, "(%s)" % ", ".join(args) if args else "")
        tag = "wild container_arg" if any(VAR_RE.search(a) for a in args) else "wild"
        if f in LAZY_FILTERS or draw(st.integers(0, 5)) == 0:
            expr += "|list"  # a lazy result would print as an object address
        return [tag, "{{ %s }}" % expr]

    def lib_template(draw):
        frags = []
        for s in draw(st.lists(st.sampled_from(LIB_TOP), min_size=1, max_size=4, unique=True)):
            frags.append(["namespace" if "namespace(" in s else "", s])
        macros = draw(st.lists(st.sampled_from(LIB_MACROS), min_size=1, max_size=5, unique_by=lambda m: m[0]))
        for _, s in macros:
            frags.append(["namespace" if "namespace(" in s else "", s])
        return frags

    def user_frags(draw, libs, n):
        frags = []
        for _ in range(n):
            k = draw(st.sampled_from(["typed", "typed", "typed", "typed", "typed", "typed", "import", "import", "from", "include",
                                      "loopimport", "macroimport"] if libs else ["typed"]))
            if k == "typed":
                frags.append(typed_frag(draw))
                continue
            lib = draw(st.sampled_from(libs))
            ctx = draw(st.sampled_from(["", "", " with context", " without context"]))
            uses = "".join(fill(draw, u % {"m": "M", "any": "%(any)s", "list": "%(list)s"})
                           for u in draw(st.lists(st.sampled_from(LIB_USES), min_size=1, max_size=3)))
            if k == "import":
                frags.append(["import", "{%% import '%s' as M%s %%}%s" % (lib, ctx, uses)])
            elif k == "from":
                names = draw(st.lists(st.sampled_from(["show", "acc", "cyc", "cnt", "srt", "jn", "peek", "cfg", "LS"]), min_size=1,
                                      max_size=3, unique=True))
                calls = "".join("{{ %s(%s) if %s is defined and %s is callable else %s }}" % (
                    nm, {"show": "L", "acc": "I", "cyc": "L", "cnt": "L2", "srt": "T", "jn": "S", "peek": ""}.get(nm, ""), nm, nm, nm)
                    for nm in names)
                frags.append(["import", "{%% from '%s' import %s%s %%}%s" % (lib, ", ".join(names), ctx, calls)])
            elif k == "include":
                ctx2 = draw(st.sampled_from(["", " without context", " without context", " with context"]))
                frags.append(["import" if "without" in ctx2 else "", "{%% include '%s'%s %%}" % (lib, ctx2)])
            elif k == "loopimport":
                frags.append(["import", "{%% for zz in %s %%}{%% import '%s' as M%s %%}%s{%% endfor %%}"
                              % (draw(st.sampled_from(LISTS)), lib, ctx, uses)])
            else:
                frags.append(["import", "{%% macro um(zz) %%}{%% import '%s' as M%s %%}%s{%% endmacro %%}{{ um(I) }}{{ um(W) }}"
                              % (lib, ctx, uses)])
        return frags

    @st.composite
    def cases(draw):
        kind = draw(st.sampled_from(["frag", "frag", "frag", "stmt", "tset"]))
        is_async = draw(st.integers(0, 2)) == 0
        case = {"kind": kind, "async": is_async, "autoescape": draw(st.sampled_from([False, False, True, "fn", True])),
                "globals": draw(glob_s), "tglobals": {}}
        d1, d2 = draw(data_s), draw(data_s)
        if draw(st.booleans()):  # one assignment raises inside the autoescape blocks, the other renders them cleanly
            first = draw(st.booleans())
            d1["BOOM"] = {"$": "fn", "kind": "raise" if first else "empty"}
            d2["BOOM"] = {"$": "fn", "kind": "empty" if first else "raise"}
        if kind == "frag":
            nlibs = draw(st.integers(0, 2))
            libs = ["lib%d" % i for i in range(nlibs)]
            templates = {n: lib_template(draw) for n in libs}
            users = []
            for i in range(draw(st.integers(1, 3 if nlibs else 2))):
                templates["u%d" % i] = user_frags(draw, libs, draw(st.integers(2, nfrag)))
                users.append("u%d" % i)
            for i in range(draw(st.integers(0, 2))):
                templates["w%d" % i] = [wild_frag(draw)]
                users.append("w%d" % i)
            case["templates"] = templates
            rendered = users + [l for l in libs if draw(st.integers(0, 2)) == 0]
            for n in users:
                if draw(st.booleans()):
                    case["tglobals"][n] = draw(tglob_s)
                    if draw(st.booleans()):
                        case.setdefault("tglobals_late", []).append(n)
        elif kind == "stmt":
            progs = {"p0": draw(G.programs(max_depth=pdepth, max_nodes=pnodes, errors=draw(st.integers(0, 2)) == 0))}
            if draw(st.booleans()):
                progs["p1"] = draw(G.programs(max_depth=pdepth, max_nodes=pnodes, errors=False))
            case["progs"] = progs
            sd = draw(G.datas(2))
            d1.update(sd[0])
            d2.update(sd[1])
            rendered = sorted(progs) + ["pu"]
        else:
            base = draw(tsets.hierarchies(max_depth=3, max_blocks=4, size=tsize) if draw(st.booleans())
                        else tsets.module_sets(max_libs=2, size=tsize))
            case["ir"] = base["ir"]
            b1 = base["data"]
            b2 = dict(b1)
            for k in sorted(b1):
                if isinstance(b1[k], bool) and draw(st.integers(0, 2)) == 0:
                    b2[k] = not b1[k]
                elif isinstance(b1[k], str) and k in ("x", "y", "i", "v", "w", "q", "a", "p0") and draw(st.booleans()):
                    b2[k] = draw(st.sampled_from(["<other>", "", "Z"]))
            d1.update(b1)
            d2.update(b2)
            rendered = [n for n, body in sorted(base["ir"]["templates"].items()) if not isinstance(body, dict)]
            if len(rendered) > 4:
                rendered = rendered[:4]
        case["data"] = [d1, d2]
        entries = ASYNC_ENTRIES if is_async else SYNC_ENTRIES
        weights = [e for e in entries for _ in range(4 if e == "render" else 1)]
        hist = []
        for n in rendered:
            for _ in range(3 + (draw(st.integers(0, 3)) == 0)):
                hist.append([n, draw(st.sampled_from(weights)), draw(st.integers(0, 1))])
        hist = draw(st.permutations(hist))
        case["history"] = [list(h) for h in hist]
        if 40 <= draw(st.integers(0, 99)) < 62:  # (Hypothesis favours the ends of an integer range)
            case["threads"] = {"n": draw(st.integers(8, 16)), "reps": draw(st.integers(2, 3)), "preload": draw(st.integers(0, 2)) > 0}
        else:
            case["threads"] = None
        return case

    return cases()


def shards(tier):
    return [{"i": i} for i in range(16)]


def run_shard(spec, ctx):
    import hypothesis.errors

    n = ctx.pick(240, 2800)  # measured ~0.12 s CPU per case (quick sizes), ~0.17 s (thorough sizes)
    strat = _strategy(ctx.pick((7, 3, 14, 3), (10, 4, 30, 4)))
    rec = core.Rec()
    for k in THREAD_STATS:
        THREAD_STATS[k] = 0
    chunk = 3000
    done = 0
    while done < n and not rec.violations:
        m = min(chunk, n - done)
        nviol = len(rec.violations)
        try:
            core.hyp_shard(strat, check_case, ctx, m, rec=rec, tag="hist-%d" % done)
        except hypothesis.errors.Flaky:
            # a failure that did not repeat when Hypothesis replayed the case (state kept in the process, or a thread
            # schedule): the violation was observed and recorded by Rec.run -- report the first one, unshrunk
            if len(rec.violations) == nviol:
                raise
            del rec.violations[nviol + 1:]
        done += m
    rec.extra.update(THREAD_STATS)
    return rec


FLOORS = {
    "autoescape": 0.15, "autoescape_fn": 0.05, "kind_frag": 0.3, "kind_stmt": 0.08, "kind_tset": 0.08, "async": 0.15, "threads": 0.15, "tag_import": 0.3,
    "tag_namespace": 0.15, "tag_autoescape_block": 0.1, "tag_container_arg": 0.3, "tag_wild": 0.15, "entry_make_module": 0.1, "entry_new_context_shared": 0.1,
    "entry_default_module": 0.1, "entry_generate_async": 0.03, "out_text": 0.5,
}


def floors(total, tier):
    n = max(total.evaluations, 1)
    low = ["%s=%d" % (k, total.labels.get(k, 0)) for k, f in FLOORS.items() if total.labels.get(k, 0) < f * n * 0.5]
    if low:
        return "classes below floor: " + ", ".join(low)
    if total.extra.get("thread_cases", 0) and total.extra.get("thread_switches_observed", 0) < total.extra["thread_cases"]:
        return "thread part saw almost no thread switches: %r" % (total.extra,)
    return None
