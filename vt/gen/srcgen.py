"""Template *source* generators for C01 (and anyone who wants raw template text).

Everything here is pure data / Hypothesis strategies; nothing imports jinja2, and nothing consults
Jinja's lexer: the tokenisation used by the mutator and by ``measure`` is a harness-side regex
scanner written from the documented template syntax.

  ENVS / delims(env)        the seven C01 configurations (keyword arguments, delimiters)
  fragments(env)            the fragment alphabet of a configuration
  enum_short(env, n)        every concatenation of exactly n fragments (itertools)
  measure(src, env)         harness-side size measures: block nesting, expression nesting,
                            operator chain length, numeric magnitudes, '*' counts
  excluded_reason(m)        why a measured input is outside C01's decided domain (or None)
  templates(env)            Hypothesis strategy: grammar-generated template sources (valid by
                            construction most of the time, identifiers biased towards trouble)
  tokenize_flat(src, env)   lossless flat tokenisation used by the mutator
  mutated(env)              Hypothesis strategy: token-level mutations of grammar output / seeds
  SEEDS                     template strings lifted from /repo/tests (static copy)
"""
import itertools
import re

MAX_LEN = 400
MAX_BLOCK_DEPTH = 15  # excluded when measured block nesting >= this
MAX_EXPR_DEPTH = 30  # excluded when bracket depth + unary run >= this
MAX_CHAIN = 100  # excluded when one tag holds >= this many operator tokens
MAX_FOR_WORDS = 15  # conservative whole-source guard against CPython's 20 static blocks

# ---------------------------------------------------------------------------------------
# configurations

EXTENSIONS = ["jinja2.ext.i18n", "jinja2.ext.do", "jinja2.ext.loopcontrols", "jinja2.ext.debug"]

ENVS = {
    "default": {},
    "custom": dict(
        block_start_string="<%", block_end_string="%>", variable_start_string="${", variable_end_string="}",
        comment_start_string="<!--", comment_end_string="-->",
    ),
    "line": dict(line_statement_prefix="#", line_comment_prefix="##"),
    "trim": dict(trim_blocks=True, lstrip_blocks=True),
    "async": dict(enable_async=True),
    "sandbox": {},  # SandboxedEnvironment()
    "ext": dict(extensions=EXTENSIONS),
}
ENV_NAMES = list(ENVS)


class Delims:
    __slots__ = ("bs", "be", "vs", "ve", "cs", "ce", "ls", "lc")

    def __init__(self, kw):
        self.bs = kw.get("block_start_string", "{%")
        self.be = kw.get("block_end_string", "%}")
        self.vs = kw.get("variable_start_string", "{{")
        self.ve = kw.get("variable_end_string", "}}")
        self.cs = kw.get("comment_start_string", "{#")
        self.ce = kw.get("comment_end_string", "#}")
        self.ls = kw.get("line_statement_prefix")
        self.lc = kw.get("line_comment_prefix")

    def starts(self):
        return [x for x in (self.bs, self.vs, self.cs, self.ls, self.lc) if x]

    def all(self):
        return [x for x in (self.bs, self.be, self.vs, self.ve, self.cs, self.ce, self.ls, self.lc) if x]


_DELIMS = {name: Delims(kw) for name, kw in ENVS.items()}


def delims(env):
    return _DELIMS[env]


# ---------------------------------------------------------------------------------------
# stream 1: fragment alphabet + exhaustive enumeration

_BASE_FRAGMENTS = [
    "-", "+", " ", "\n", "\r", "\r\n", "raw", "endraw", "if", "x", "'", '"', "(", ")", "[", "]", "|", ".", "1",
    "for", "in", "endfor", "set", "=", "block", "endblock", "macro", "endmacro", "call", "filter", "{", "}", ",",
    ":", "~", "*", "is", "not", "else", "elif", "endif", "with", "include", "import", "from", "extends",
    "autoescape", "trans", "loop", "super", "1.", "0x", "_", "é", "\\",
]


def fragments(env):
    d = delims(env)
    out = []
    for f in [d.bs, d.be, d.vs, d.ve, d.cs, d.ce] + ([d.ls, d.lc] if d.ls else []) + _BASE_FRAGMENTS:
        if f not in out:
            out.append(f)
    if env == "ext":
        out += ["endtrans", "pluralize", "do", "break"]
    return out


def enum_short(env, n):
    """All concatenations of exactly n fragments, as (string) in a fixed order."""
    fr = fragments(env)
    for combo in itertools.product(fr, repeat=n):
        yield "".join(combo)


# ---------------------------------------------------------------------------------------
# harness-side scanner: measures

_NUM_RE = re.compile(r"0[xXoObB][0-9a-fA-F_]+|\d[\d_]*(?:\.[\d_]+)?(?:[eE][+-]?[\d_]+)?")
_LINEBREAK_RE = re.compile(r"\r\n|\r|\n")
_EXPR_TOK_RE = re.compile(
    r"""(?P<ws>\s+)|(?P<str>'(?:[^'\\]|\\.)*'|"(?:[^"\\]|\\.)*")|(?P<num>\d[\w.]*)|(?P<word>[^\W\d]\w*)"""
    r"""|(?P<op>\*\*|//|==|!=|<=|>=|[-+*/%~\[\](){}<>=.:|,;!])|(?P<other>.)""",
    re.S,
)
_BLOCK_OPENERS = {"for", "if", "macro", "call", "filter", "block", "with", "autoescape", "trans", "set", "raw"}
_WORD_OPS = {"and", "or", "not", "in", "is", "if", "else"}
_FOR_RE = re.compile(r"(?<![^\W\d])for(?!\w)")


def line_breaks(src):
    return len(_LINEBREAK_RE.findall(src))


def _num_value(text):
    t = text.replace("_", "")
    try:
        return abs(int(t, 0))
    except ValueError:
        pass
    try:
        return abs(float(t))
    except ValueError:
        return None


def magnitudes(src):
    """(largest numeric literal anywhere in the text incl. inside strings, or None when a
    number-like run cannot be evaluated; longest number-like run)."""
    big = 0
    longest = 0
    for m in _NUM_RE.finditer(src):
        text = m.group()
        longest = max(longest, len(text))
        v = _num_value(text)
        if v is None or v != v:
            return None, longest
        big = max(big, v)
    return big, longest


def measure(src, env):
    """Harness-side measures of a source string under configuration ``env``."""
    d = delims(env)
    n = len(src)
    pos = 0
    stack_depth = 0
    max_block = 0
    max_expr = 0
    max_chain = 0
    ntags = 0
    # root-level search pattern
    alts = [("b", d.bs), ("v", d.vs), ("c", d.cs)]
    alts.sort(key=lambda kv: -len(kv[1]))
    parts = ["(?P<%s>%s)" % (k, re.escape(v)) for k, v in alts]
    if d.lc:
        parts.insert(0, r"(?P<lc>^[ \t\v]*%s)" % re.escape(d.lc))
    if d.ls:
        parts.insert(1 if d.lc else 0, r"(?P<ls>^[ \t\v]*%s)" % re.escape(d.ls))
    root_re = re.compile("|".join(parts), re.M)
    end_block, end_var = d.be, d.ve

    def scan_tag(pos, end, line):
        """Scan expression tokens from pos to the end delimiter (when brackets are balanced, like
        the documented lexer) or end of line for line statements.  Returns (newpos, first word,
        has_assign, bracket depth max, unary run max, operator count)."""
        first = None
        bal = 0
        maxbal = 0
        run = 0
        maxrun = 0
        ops = 0
        assign = False
        if not line and src.startswith(("-", "+"), pos):
            pos += 1
        while pos < n:
            if line:
                if bal == 0 and src[pos] in "\r\n":
                    return pos, first, assign, maxbal, maxrun, ops
            elif bal == 0 and (src.startswith(end, pos) or (src.startswith(end, pos + 1) and src[pos] in "-+")):
                return pos + len(end) + (0 if src.startswith(end, pos) else 1), first, assign, maxbal, maxrun, ops
            m = _EXPR_TOK_RE.match(src, pos)
            kind = m.lastgroup
            text = m.group()
            pos = m.end()
            if kind == "ws":
                continue
            if kind == "word":
                if first is None:
                    first = text
                if text in _WORD_OPS:
                    ops += 1
                run = run + 1 if text == "not" else 0
            elif kind == "op":
                if first is None:
                    first = ""
                ops += 1
                if text in "([{":
                    bal += 1
                    maxbal = max(maxbal, bal)
                    run = 0
                elif text in ")]}":
                    bal = max(0, bal - 1)
                    run = 0
                elif text in "-+":
                    run += 1
                else:
                    run = 0
                    if text == "=":
                        assign = True
            else:
                if first is None:
                    first = ""
                run = 0
            maxrun = max(maxrun, run)
        return n, first, assign, maxbal, maxrun, ops

    while pos < n:
        m = root_re.search(src, pos)
        if m is None:
            break
        kind = m.lastgroup
        pos = m.end()
        ntags += 1
        if kind == "c":
            e = src.find(d.ce, pos)
            pos = n if e < 0 else e + len(d.ce)
            continue
        if kind == "lc":
            e = _LINEBREAK_RE.search(src, pos)
            pos = n if e is None else e.start()
            continue
        pos, first, assign, bal, run, ops = scan_tag(pos, end_var if kind == "v" else end_block, kind == "ls")
        max_expr = max(max_expr, bal + run)
        max_chain = max(max_chain, ops)
        if kind in ("b", "ls"):
            if first == "raw":
                e = re.compile(re.escape(d.bs) + r"[-+]?\s*endraw").search(src, pos)
                if e is None:
                    pos = n
                else:
                    pos = e.start()
                continue
            if first in _BLOCK_OPENERS and not (first == "set" and assign):
                stack_depth += 1
                max_block = max(max_block, stack_depth)
            elif first and first.startswith("end") and stack_depth:
                stack_depth -= 1
    big, longest = magnitudes(src)
    return {
        "len": n,
        "block": max_block,
        "expr": max_expr,
        "chain": max_chain,
        "fors": len(_FOR_RE.findall(src)),
        "num": big,
        "numlen": longest,
        "stars": src.count("*"),
        "pow": "**" in src,
        "tags": ntags,
    }


def excluded_reason(m):
    """Why the measured input is outside the domain C01 decides (None = inside)."""
    if m["len"] > MAX_LEN:
        return "length"
    if m["block"] >= MAX_BLOCK_DEPTH or m["fors"] >= MAX_FOR_WORDS:
        return "block_depth"  # F2: CPython's static nesting limits
    if m["expr"] >= MAX_EXPR_DEPTH or m["chain"] >= MAX_CHAIN:
        return "expr_depth"  # F2: recursion limits
    # F19 (unbounded constant folding): every generator keeps magnitudes small
    if m["num"] is None or m["numlen"] > 12:
        return "magnitude"
    if m["pow"]:
        if m["stars"] > 2 or m["num"] > 7:
            return "magnitude"
    elif m["stars"]:
        if m["stars"] > 2 or m["num"] > 99:
            return "magnitude"
    elif m["num"] > 999:
        return "magnitude"
    return None


def has_delimiter(src, env):
    """C01's non-triviality rule: the source holds a delimiter start of the configuration."""
    d = delims(env)
    return any(s in src for s in d.starts())


# ---------------------------------------------------------------------------------------
# flat tokenisation for the mutator (lossless: "".join(tokens) == src)


def _flat_re(env):
    d = delims(env)
    dl = sorted(set(d.all()), key=lambda s: -len(s))
    alt = "|".join(re.escape(x) + ("[-+]?" if x in (d.bs, d.vs, d.cs) else "") for x in dl)
    return re.compile(
        r"[-+]?(?:%s)|\r\n|\r|\n|[ \t]+|'(?:[^'\\\n]|\\.)*'|\"(?:[^\"\\\n]|\\.)*\"|\d[\d_]*(?:\.\d[\d_]*)?(?:[eE][+-]?\d+)?"
        r"|[^\W\d]\w*|\*\*|//|==|!=|<=|>=|." % alt,
        re.S,
    )


_FLAT_CACHE = {}


def tokenize_flat(src, env):
    r = _FLAT_CACHE.get(env)
    if r is None:
        r = _FLAT_CACHE[env] = _flat_re(env)
    return r.findall(src)
