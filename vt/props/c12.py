"""C12 - whitespace control follows the documented trimming rules (reference-model check).

Case: {"sk": abstract skeleton (vt.gen.skel), "syn": syntax name, "ls": prefix|None, "lc": prefix|None}
The skeleton is instantiated and printed under the syntax, rendered under all 24 combinations of
trim_blocks x lstrip_blocks x newline_sequence x keep_trailing_newline and compared with the
whitespace model (vt.ref.ws), which is written from the documentation and never calls jinja2.
"""
from vt import core
from vt.gen import skel
from vt.ref import ws

PID = "C12"
LEVEL = "exploration"
RULE = (
    "Hypothesis-generated skeletons of 1-8 items (text of whitespace runs / line breaks / Unicode whitespace / lone "
    "delimiter characters; variable, block, comment and raw tags with every '-', '+', '' modifier the grammar allows on "
    "each side, paired if/for/with blocks, padding incl. line breaks inside tags), printed under a delimiter set fixed per "
    "shard (default in most shards, 5 custom sets, two shards with line prefixes configured), each rendered under all 24 "
    "trim x lstrip x newline_sequence x keep_trailing_newline settings and compared with the reference model. "
    "Non-trivial = in some setting a modifier or automatic option had adjacent whitespace to remove or pointedly keep "
    "(model effect labels *:removed, *:kept*, lstrip:blocked/midline, var:untouched*); distinct = distinct case JSON."
)
ASSUMPTIONS = [
    "whitespace = Python str.isspace characters (the statement says 'whitespace'; docs say 'spaces, tabs, newlines etc.')",
    "block statements used are set / if true / for over one item / with, so every text piece is rendered exactly once",
    "'+' is only generated where documented (both sides of block and comment tags, left of raw, both sides of endraw)",
    "comment bodies are non-empty and do not begin/end with '+' or '-' (that spelling is ambiguous with a modifier)",
    "lstrip_blocks before a tag that is preceded on its line by whitespace other than spaces/tabs (docs: 'tabs and spaces', statement: "
    "'whitespace') is not judged: that configuration of the case is skipped and counted under the label lstrip:ambiguous-ws",
    "environments are reused across cases inside a worker (configuration objects only; every case compiles its own templates)",
]

CONFIGS = [(t, l, k) for t in (False, True) for l in (False, True) for k in (False, True)]
NONTRIVIAL_EFFECTS = {
    "left-:removed", "right-:removed", "trim:removed", "lstrip:removed", "left+:kept", "right+:kept-newline",
    "lstrip:blocked", "lstrip:midline", "var:untouched-by-lstrip", "var:untouched-by-trim", "trim:kept-other-ws",
}
_envs = {}


def get_env(syn_name, ls, lc, trim, lstrip, nls, ktn):
    key = (syn_name, ls, lc, trim, lstrip, nls, ktn)
    env = _envs.get(key)
    if env is None:
        from jinja2 import Environment

        env = _envs[key] = Environment(
            trim_blocks=trim, lstrip_blocks=lstrip, newline_sequence=nls, keep_trailing_newline=ktn,
            **skel.env_kwargs(skel.syntax(syn_name, ls, lc)))
    return env


def check_case(case):
    syn_name, ls, lc = case.get("syn", "default"), case.get("ls"), case.get("lc")
    syn = skel.syntax(syn_name, ls, lc)
    csk = skel.instantiate(case["sk"], syn)
    src = skel.source(csk, syn)
    pr = skel.printer(syn)
    kinds = {s[0] for s in csk}
    only_vars = kinds <= {"text", "var"}
    nonws = ws.strip_all_ws(ws.untrimmed(csk))
    effects = set()
    by_cfg = {}
    for trim, lstrip, ktn in CONFIGS:
        try:
            a = ws.analyse(csk, pr, trim, lstrip, ktn)
        except ws.Decline:
            raise core.Discard()
        effects |= a.effects
        if a.ambiguous:  # documentation does not decide this configuration (see vt.ref.ws); counted, not judged
            continue
        for nls in ws.NL_SEQS:
            exp = a.rendered(nls)
            got = get_env(syn_name, ls, lc, trim, lstrip, nls, ktn).from_string(src).render(skel.CONTEXT)
            cfg = "trim_blocks=%s lstrip_blocks=%s newline_sequence=%r keep_trailing_newline=%s syntax=%s ls=%r lc=%r" % (
                trim, lstrip, nls, ktn, syn_name, ls, lc)
            if got != exp:
                raise core.Violation("whitespace model disagrees\n source: %r\n config: %s\n expected: %r\n rendered: %r" % (src, cfg, exp, got))
            if ws.strip_all_ws(got) != nonws:
                raise core.Violation("non-whitespace text was removed or invented\n source: %r\n config: %s\n rendered: %r" % (src, cfg, got))
            by_cfg[(trim, lstrip, ktn, nls)] = got
    if only_vars:
        for (trim, lstrip, ktn, nls), got in by_cfg.items():
            base = by_cfg[(False, False, ktn, nls)]
            if got != base:
                raise core.Violation(
                    "variable tags / plain text affected by trim_blocks=%s lstrip_blocks=%s\n source: %r\n without: %r\n with: %r"
                    % (trim, lstrip, src, base, got))
    labels = set(effects) | {"kind:" + k for k in kinds} | {"syn:" + syn_name}
    if only_vars and "var" in kinds:
        labels.add("only-vars")
    if ls or lc:
        labels.add("prefixes-configured")
    if any(skel.LOOKALIKE_RE.search(s[3]) for s in case["sk"] if s[0] in ("comment", "raw")):
        labels.add("lookalike-body")
    return core.Outcome(bool(effects & NONTRIVIAL_EFFECTS), sorted(labels))


SHARD_SYN = [("default", None, None)] * 3 + [("prefixvar", None, None), ("dollar", None, None)] + [("blockbr", None, None), ("parens", None, None), ("latex", None, None)] + [
    ("php", None, None), ("erb", None, None), ("brackets", None, None), ("three", None, None), ("ops", None, None),
    ("default", "#", "##"), ("erb", "%%", "##"), ("default", None, None),
]


def strategy(syn_name, ls, lc, max_segs=8):
    from hypothesis import strategies as st

    alpha = skel.alpha_ws(skel.syntax(syn_name, ls, lc))
    full = skel.skeletons(alpha, max_segs=max_segs, multiline=True)
    varonly = skel.skeletons(alpha, kinds=("text", "var"), max_segs=max_segs, multiline=True)
    return st.one_of(full, full, full, full, full, full, full, varonly).map(lambda sk: {"sk": sk, "syn": syn_name, "ls": ls, "lc": lc})


def shards(tier):
    return [{"syn": s[0], "ls": s[1], "lc": s[2]} for s in SHARD_SYN]


def run_shard(spec, ctx):
    n = ctx.pick(2400, 32000)
    return skel.hyp_chunks(strategy(spec["syn"], spec["ls"], spec["lc"], ctx.pick(8, 10)), check_case, ctx, n, core.Rec(), "sk")


def floors(total, tier):
    need = ["left-:removed", "right-:removed", "trim:removed", "lstrip:removed", "left+:kept", "right+:kept-newline",
            "lstrip:blocked", "lstrip:midline", "kind:raw", "kind:comment", "kind:var", "only-vars", "left-:newlines"]
    low = [k for k in need if total.labels.get(k, 0) < 50]
    return ("labels below floor of 50: %s" % low) if low else None
