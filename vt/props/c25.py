"""C25 - the template cache serves the current template source.

Case:
  {"loader": "dict" | "dict_map" | "func" | "func_utd" | "fs" | "pkg", "cache": 0 | 1 | 2 | -1, "auto_reload": bool,
   "names": 2 | 3, "ops": [["get", "a"], ["select", "b", "a"], ["put", "a", 1], ["del", "a"], ["swap"]]}

Two loaders of the given kind (L0, L1) with separate stores; the environment starts on L0.
L0 initially holds every name but the last at version 0, L1 holds every name at version 1.
``put`` writes version v of the name into the *current* loader's store (modify when present - also with
the same version, i.e. an equal but newly created source / a rewritten file -, add when absent),
``put`` may carry a 4th element "earlier": the modification stamp (the file mtime for the FileSystemLoader) then
moves *backwards* to a value older than every stamp used so far (backup restore, timestamp-preserving deploy);
the default moves it forwards.  A stamp never repeats.  ``["auto"]`` toggles ``env.auto_reload`` (the configuration gives the initial value; what counts is the value
at fetch time).  "pkg" is a PackageLoader on a directory package created under /verif/.work and put on sys.path
(mtimes forced like for "fs").  "dict_map" is a DictLoader over a Mapping that is not a dict (L0: collections.UserDict, L1: a types.MappingProxyType
view of a dict the harness changes).  ``["overlay"]`` replaces the environment by ``env.overlay()`` (no arguments):
same configuration, a new empty cache of the same size.  ``del`` removes it, ``swap`` assigns the other loader to ``env.loader``.  Every version renders a text
naming loader, name and version, so the rendered output identifies the source that was compiled - except
version 2, which is the EMPTY source (renders ''; an existing empty template is not a missing one: the
observation kinds "rendered" and "notfound" are compared, not only the text).

Oracle: a reference cache model (LRU keyed by (loader, name), storing the version/stamp compiled).
After every operation the observation (rendered text or TemplateNotFound, number of compilations,
set of cached keys, len(cache) <= size) must be explained by the model.  The one place where the
documentation leaves the cache state open - a failed reload of a cached template whose source was
deleted: is the stale entry kept, kept and marked recently used, or dropped? - is modelled as a
*set* of admissible states; later observations narrow the set, an empty set is a violation.
"""
import itertools
import os
import shutil

from vt import core

PID = "C25"
LEVEL = "exploration"
RULE = (
    "exhaustive histories ending in a fetch over {get(n), select([n, m]), put(n, v) (FileSystemLoader: with a later and with an earlier mtime), del(n), swap loader, toggle env.auto_reload, continue on env.overlay() (DictLoader / callback FunctionLoader sets)} for 2 names x 2 source versions (a non-empty one and the EMPTY source; two non-empty ones at shorter lengths; all three in thorough) "
    "(length <= 4 quick / <= 5 thorough, plus length 6 on cache sizes 1 and 2: full alphabet on DictLoader, get/put/del only on the other loaders) and 3 names x 2 versions (length <= 3, plus length 4 with get/put/del/toggle only on DictLoader with "
    "cache size 2, quick / <= 4, plus length 5 on DictLoader with cache size 2, thorough) "
    "x cache sizes {0, 1, 2, -1} x auto_reload {on, off} x {DictLoader over a dict, DictLoader over a UserDict / MappingProxyType, FunctionLoader returning str, FunctionLoader with an "
    "up-to-date callback, FileSystemLoader with mtimes forced from a counter, PackageLoader on a directory package (shorter histories)}; plus Hypothesis RuleBasedStateMachine histories of "
    "up to 100 steps over 3 names x 3 versions.  Non-trivial = the history fetches a key again after its source was changed or "
    "deleted, after it was evicted, or with a size-0 cache; distinct = distinct case."
)
ASSUMPTIONS = [
    "reference model: LRU keyed by (loader, name); a cache hit and a (re)load make the key most recently used; a load into a full cache evicts the least recently used key",
    "the up-to-date check applies iff env.auto_reload is true at the time of the fetch (the attribute may be assigned after templates were cached)",
    "Environment.overlay() without cache_size yields an environment with an empty cache of the parent's kind and size (copy_cache: 'an empty copy of the given cache')",
    "staleness per loader as documented/implemented by its up-to-date check: DictLoader compares the source text, FileSystemLoader and PackageLoader (directory package) the mtime, "
    "FunctionLoader whatever callback the load function returns (here: a modification stamp); no callback = never stale",
    "after a failed reload (source deleted, cached entry stale) the model admits three cache states (entry kept / kept and made most recent / dropped)",
    "a compilation is counted as one call of Environment._generate; no bytecode cache is configured",
    "FileSystemLoader mtimes are set with os.utime from per-case counters (whole seconds) that move forwards or, for puts marked 'earlier', backwards; "
    "a rewrite never re-uses an mtime (equal mtime with different content is the documented blind spot of mtime checks), so every rewrite is visible to the comparison",
]

NAMES = "abc"
KINDS = ["dict", "dict_map", "func", "func_utd", "fs", "pkg"]
DICTS = ("dict", "dict_map")
DISK = ("fs", "pkg")
MEM = ["dict", "func", "func_utd"]
CACHES = [0, 1, 2, -1]
HAS_UTD = {"dict": True, "dict_map": True, "func": False, "func_utd": True, "fs": True, "pkg": True}
BASE_MTIME = 1_500_000_000
_keep_dirs = [False]  # set by run_shard: the (empty) per-process directories survive between cases of one shard


def _workdir():
    return os.path.join(core.VERIF, ".work", "c25-%d" % os.getpid())


def _pkg_name(li):
    return "vtc25pkg%d_%d" % (li, os.getpid())


def remove_workdir():
    import sys

    root = os.path.join(_workdir(), "pkgs")
    while root in sys.path:
        sys.path.remove(root)
    for li in (0, 1):
        sys.modules.pop(_pkg_name(li), None)
    shutil.rmtree(_workdir(), ignore_errors=True)


def _ensure_packages():
    """Two directory packages with a templates/ directory each, importable through sys.path."""
    import importlib
    import sys

    root = os.path.join(_workdir(), "pkgs")
    created = False
    for li in (0, 1):
        d = os.path.join(root, _pkg_name(li), "templates")
        if not os.path.isdir(d):
            os.makedirs(d)
            with open(os.path.join(root, _pkg_name(li), "__init__.py"), "w") as f:
                f.write("")
            created = True
    if root not in sys.path:
        sys.path.insert(0, root)
        created = True
    if created:
        importlib.invalidate_caches()
    return root


EMPTY = 2  # version number of the empty template source


def source_text(li, name, version):
    if version == EMPTY:
        return ""
    return "L%d-%s-v%d:{{ 3 + 4 }}" % (li, name, version)


def rendered_text(li, name, version):
    if version == EMPTY:
        return ""
    return "L%d-%s-v%d:7" % (li, name, version)


# ---------------------------------------------------------------------------------------------------
# reference model (no jinja2 involved)


def _stale(kind, entry, cur):
    if cur is None:
        return True
    if kind in DICTS:
        return entry[0] != cur[0]
    return entry[1] != cur[1]


def model_fetch(state, key, cur, kind, cap, auto_reload):
    """state: tuple of (key, (version, stamp)) oldest first; cur: (version, stamp) | None of the key in its
    loader's store.  Returns the list of admissible (state', outcome, compilations)."""
    idx = None
    if cap != 0:
        for i, (k, _e) in enumerate(state):
            if k == key:
                idx = i
                break
    if idx is not None:
        entry = state[idx][1]
        without = state[:idx] + state[idx + 1:]
        bumped = without + ((key, entry),)
        if not auto_reload or not HAS_UTD[kind] or not _stale(kind, entry, cur):
            return [(bumped, ("ok", key[0], key[1], entry[0]), 0)]
        if cur is None:
            out = []
            for s in (bumped, state, without):
                if s not in [o[0] for o in out]:
                    out.append((s, ("notfound",), 0))
            return out
        return [(without + ((key, cur),), ("ok", key[0], key[1], cur[0]), 1)]
    if cur is None:
        return [(state, ("notfound",), 0)]
    if cap == 0:
        return [(state, ("ok", key[0], key[1], cur[0]), 1)]
    new = state + ((key, cur),)
    if cap > 0 and len(new) > cap:
        new = new[len(new) - cap:]
    return [(new, ("ok", key[0], key[1], cur[0]), 1)]


# ---------------------------------------------------------------------------------------------------
# one history against the real environment


class Run:
    def __init__(self, cfg):
        import jinja2
        from jinja2 import DictLoader, Environment, FileSystemLoader, FunctionLoader, PackageLoader

        kind, cap, names = cfg["loader"], cfg["cache"], cfg["names"]
        if kind not in KINDS or cap not in CACHES or names not in (2, 3):
            raise core.HarnessError("configuration outside the decided domain: %r" % (cfg,))
        self.kind, self.cap, self.auto = kind, cap, bool(cfg["auto_reload"])
        self.auto0 = self.auto
        self.names = NAMES[:names]
        self.TemplateNotFound = jinja2.TemplateNotFound
        self.TemplatesNotFound = jinja2.TemplatesNotFound
        self.stamp = 0  # newest stamp handed out
        self.lo = 0  # oldest stamp handed out ("earlier" puts count downwards)
        self.store = [{}, {}]  # name -> (version, stamp)
        self.dir = None
        self.closed = False
        run = self

        class CountingEnvironment(Environment):
            compilations = 0

            def _generate(self, *a, **kw):
                run.compilations += 1
                return Environment._generate(self, *a, **kw)

        self.compilations = 0
        try:
            if kind in DISK:
                self.dir = _workdir()
                self.materialized = [False, False]
                if kind == "fs":
                    self.tdirs = [os.path.join(self.dir, "L0"), os.path.join(self.dir, "L1")]
                else:
                    root = _ensure_packages()
                    self.tdirs = [os.path.join(root, _pkg_name(li), "templates") for li in (0, 1)]
                for d in self.tdirs:
                    if os.path.isdir(d):
                        for f in os.listdir(d):
                            os.remove(os.path.join(d, f))
                    else:
                        os.makedirs(d)
                if kind == "fs":
                    self.loaders = [FileSystemLoader(d) for d in self.tdirs]
                else:
                    self.loaders = [PackageLoader(_pkg_name(li)) for li in (0, 1)]
            elif kind == "dict_map":
                import collections
                import types

                self.maps = [collections.UserDict(), {}]
                self.loaders = [DictLoader(self.maps[0]), DictLoader(types.MappingProxyType(self.maps[1]))]
            elif kind == "dict":
                self.maps = [{}, {}]
                self.loaders = [DictLoader(self.maps[0]), DictLoader(self.maps[1])]
            else:
                self.loaders = [FunctionLoader(self._load_func(0)), FunctionLoader(self._load_func(1))]
            for n in self.names[:-1]:
                self._put(0, n, 0)
            for n in self.names:
                self._put(1, n, 1)
            if kind in DISK:
                self._materialize(0)
            self.env = CountingEnvironment(loader=self.loaders[0], cache_size=cap, auto_reload=self.auto)
        except BaseException:
            self.close()
            raise
        self.cur = 0
        self.states = [()]
        self.nstep = 0
        self.labels = set()
        self.fetched = {}  # key -> store value at the last successful fetch
        self.nontrivial = False

    # -- store manipulation ---------------------------------------------------------------------
    def _load_func(self, li):
        store = self.store[li]
        with_utd = self.kind == "func_utd"

        def load(name):
            cur = store.get(name)
            if cur is None:
                return None
            src = source_text(li, name, cur[0])
            if with_utd:
                return src, None, (lambda: store.get(name) == cur)
            return src

        return load

    def _put(self, li, name, version, earlier=False):
        if earlier:
            self.lo -= 1
            stamp = self.lo
        else:
            self.stamp += 1
            stamp = self.stamp
        self.store[li][name] = (version, stamp)
        src = "".join(list(source_text(li, name, version)))  # a new string object every time
        if self.kind in DICTS:
            self.maps[li][name] = src
        elif self.kind in DISK and self.materialized[li]:
            self._write(li, name, src, stamp)

    def _write(self, li, name, src, stamp):
        path = os.path.join(self.tdirs[li], name)
        with open(path, "w", encoding="utf-8") as f:
            f.write(src)
        t = (BASE_MTIME + stamp) * 10**9
        os.utime(path, ns=(t, t))

    def _materialize(self, li):
        """The files of a loader directory are written when the loader is first used (same content and
        mtimes as if written at the time of the put)."""
        if not self.materialized[li]:
            self.materialized[li] = True
            for name, (version, stamp) in self.store[li].items():
                self._write(li, name, source_text(li, name, version), stamp)

    def _del(self, li, name):
        if self.store[li].pop(name, None) is None:
            return
        if self.kind in DICTS:
            del self.maps[li][name]
        elif self.kind in DISK and self.materialized[li]:
            os.remove(os.path.join(self.tdirs[li], name))

    def close(self):
        if self.closed:
            return
        self.closed = True
        if self.dir is not None:
            for d in getattr(self, "tdirs", ()):
                if os.path.isdir(d):
                    for f in os.listdir(d):
                        os.remove(os.path.join(d, f))
            if not _keep_dirs[0]:
                remove_workdir()

    # -- observation -------------------------------------------------------------------------------
    def _cached_keys(self):
        cache = self.env.cache
        if cache is None:
            return None
        out = []
        for key in list(cache):
            try:
                obj = key[0]()
            except TypeError:
                obj = None
            li = 0 if obj is self.loaders[0] else 1 if obj is self.loaders[1] else "?"
            out.append((li, key[1]))
        return sorted(out, key=repr)

    def _fail(self, op, what):
        raise core.Violation(
            "%s loader, cache_size=%d, auto_reload=%s, step %d %r: %s" % (self.kind, self.cap, self.auto, self.nstep, op, what)
        )

    def step(self, op):
        name = op[0]
        if name == "put":
            if self.store[self.cur].get(op[1], (None,))[0] == op[2]:
                self.labels.add("rewrite_same")
            if len(op) > 3 and op[3] not in ("earlier", "later"):
                raise core.HarnessError("unknown put direction %r" % (op,))
            earlier = len(op) > 3 and op[3] == "earlier"
            if earlier:
                self.labels.add("stamp_earlier")
            self._put(self.cur, op[1], op[2], earlier)
        elif name == "del":
            self._del(self.cur, op[1])
        elif name == "swap":
            self.cur = 1 - self.cur
            if self.kind in DISK:
                self._materialize(self.cur)
            self.env.loader = self.loaders[self.cur]
            self.labels.add("swap")
        elif name == "overlay":
            # Environment.overlay() "shares all the data with the current environment except for cache": the
            # overlay gets an empty copy of the cache (same kind and size) and is used from here on
            self.env = self.env.overlay()
            self.states = [()]
            self.labels.add("overlay")
            keys = self._cached_keys()
            if keys != (None if self.cap == 0 else []):
                self._fail(op, "the overlay's cache holds %r, expected an empty cache of size %d" % (keys, self.cap))
        elif name == "auto":
            self.auto = not self.auto
            self.env.auto_reload = self.auto
            self.labels.add("toggle_auto_reload")
        elif name in ("get", "select"):
            self._fetch(op)
        else:
            raise core.HarnessError("unknown operation %r" % (op,))
        self.nstep += 1

    def _fetch(self, op):
        li = self.cur
        names = list(op[1:])
        # the model first (does not look at the environment)
        results = []
        frontier = [(s, 0) for s in self.states]
        for n in names:
            key = (li, n)
            cur = self.store[li].get(n)
            if key in self.fetched and (self.fetched[key] != cur or self.cap == 0 or any(key not in [k for k, _ in s] for s, _ in frontier)):
                self.nontrivial = True
            nxt = []
            for s, c in frontier:
                for s2, out, k in model_fetch(s, key, cur, self.kind, self.cap, self.auto):
                    if k and self.cap > 0 and len(s) == self.cap and key not in [kk for kk, _ in s]:
                        self.labels.add("evict")
                    if out[0] == "ok":
                        results.append((s2, out, c + k))
                    else:
                        nxt.append((s2, c + k))
            frontier = nxt
        for s, c in frontier:
            results.append((s, ("notfound",), c))
        # the implementation
        before = self.compilations
        try:
            if op[0] == "get":
                tmpl = self.env.get_template(names[0])
            else:
                tmpl = self.env.select_template(names)
        except self.TemplateNotFound as e:
            if op[0] == "select" and not isinstance(e, self.TemplatesNotFound):
                self._fail(op, "select_template raised %r instead of TemplatesNotFound" % (e,))
            got = ("notfound",)
        else:
            got = ("rendered", tmpl.render())
        ncomp = self.compilations - before
        keys = self._cached_keys()
        if self.cap == 0:
            if keys is not None:
                self._fail(op, "cache_size=0 but the environment has a cache %r" % (self.env.cache,))
        else:
            if keys is None:
                self._fail(op, "cache_size=%d but the environment has no cache" % self.cap)
            if self.cap > 0 and len(self.env.cache) > self.cap:
                self._fail(op, "the cache holds %d templates, size is %d" % (len(self.env.cache), self.cap))
        admissible = []
        for s, out, c in results:
            exp = ("rendered", rendered_text(*out[1:])) if out[0] == "ok" else out
            expkeys = None if self.cap == 0 else sorted((k for k, _ in s), key=repr)
            if exp == got and c == ncomp and expkeys == keys:
                if s not in admissible:
                    admissible.append(s)
        if not admissible:
            alts = []
            for s, out, c in results:
                exp = ("rendered", rendered_text(*out[1:])) if out[0] == "ok" else out
                alt = "%r with %d compilation(s), cached keys %r" % (exp, c, None if self.cap == 0 else sorted((k for k, _ in s), key=repr))
                if alt not in alts:
                    alts.append(alt)
            self._fail(op, "observed %r with %d compilation(s), cached keys %r; the model admits only: %s (current loader L%d, stores %r)" % (
                got, ncomp, keys, " | ".join(alts), li, self.store))
        # bookkeeping for labels / non-triviality
        if got[0] == "rendered":
            for n in names:
                cur = self.store[li].get(n)
                if cur is not None and got[1] == rendered_text(li, n, cur[0]):
                    self.fetched[(li, n)] = cur
                    break
            else:
                self.labels.add("stale_served")
            if got[1] == "":
                self.labels.add("empty_source")
            if ncomp:
                self.labels.add("compiled")
            else:
                self.labels.add("hit")
        else:
            self.labels.add("notfound")
        if len(results) > 1 and len({r[0] for r in results}) > 1:
            self.labels.add("ambiguous_state")
        if op[0] == "select" and got[0] == "rendered" and not got[1].startswith("L%d-%s-" % (li, names[0])):
            self.labels.add("select_fallback")
        self.states = admissible

    def outcome(self):
        labels = ["loader=" + self.kind, "cache=%d" % self.cap, "auto_reload=%s" % ("on" if self.auto0 else "off"), "names=%d" % len(self.names)]
        return core.Outcome(self.nontrivial, labels + sorted(self.labels))


def check_case(case):
    run = Run(case)
    try:
        for op in case["ops"]:
            run.step(op)
        return run.outcome()
    finally:
        run.close()


# ---------------------------------------------------------------------------------------------------
# generators


def alphabet(nnames, versions, full=True, earlier=False, overlay=False):
    names = NAMES[:nnames]
    fetch = [["get", n] for n in names]
    if full:
        fetch += [["select", n, m] for n in names for m in names if n != m]
    other = [["put", n, v] for n in names for v in versions] + [["del", n] for n in names]
    if earlier:
        other += [["put", n, v, "earlier"] for n in names for v in versions]
    other.append(["auto"])
    if overlay:
        other.append(["overlay"])
    if full:
        other.append(["swap"])
    return fetch, other


def configs(kinds=KINDS, caches=CACHES):
    for kind in kinds:
        for cap in caches:
            for auto in (True, False):
                yield kind, cap, auto


def histories(nnames, versions, lengths, kinds=KINDS, caches=CACHES, full=True, earlier=False, overlay=False):
    """Every history of the given lengths whose last operation is a fetch (a history ending in a store
    operation makes the same observations as its prefix), as (nnames, history, kinds, caches)."""
    fetch, other = alphabet(nnames, versions, full, earlier, overlay)
    ops = fetch + other
    for n in lengths:
        for head in itertools.product(ops, repeat=n - 1):
            for last in fetch:
                yield nnames, list(head) + [last], kinds, caches


def expand(hists):
    """One case per configuration for every history."""
    for nnames, hist, kinds, caches in hists:
        for kind, cap, auto in configs(kinds, caches):
            yield {"loader": kind, "cache": cap, "auto_reload": auto, "names": nnames, "ops": hist}


def _run_machine(ctx, rec, max_examples, steps, tag):
    import hypothesis
    from hypothesis import HealthCheck, Phase, settings
    from hypothesis import strategies as st
    from hypothesis.stateful import RuleBasedStateMachine, initialize, rule, run_state_machine_as_test

    holder = {"fail": None}
    names = st.sampled_from(NAMES)

    class CacheMachine(RuleBasedStateMachine):
        def __init__(self):
            super().__init__()
            self.run_ = None
            self.cfg = None
            self.ops = []
            self.failed = False

        def _case(self):
            return dict(self.cfg, ops=list(self.ops))

        def _do(self, op):
            self.ops.append(op)
            try:
                self.run_.step(op)
            except BaseException:
                self.failed = True
                holder["fail"] = self._case()
                raise

        @initialize(kind=st.sampled_from(KINDS), cap=st.sampled_from([0, 1, 2, 2, -1]), auto=st.booleans())
        def start(self, kind, cap, auto):
            self.cfg = {"loader": kind, "cache": cap, "auto_reload": auto, "names": 3}
            self.run_ = Run(self.cfg)

        @rule(n=names)
        def get(self, n):
            self._do(["get", n])

        @rule(n=names, m=names)
        def select(self, n, m):
            self._do(["select", n, m])

        @rule(n=names, v=st.integers(0, 2), earlier=st.booleans())
        def put(self, n, v, earlier):
            self._do(["put", n, v, "earlier"] if earlier else ["put", n, v])

        @rule(n=names)
        def delete(self, n):
            self._do(["del", n])

        @rule()
        def swap(self):
            self._do(["swap"])

        @rule()
        def toggle(self):
            self._do(["auto"])

        @rule()
        def overlay(self):
            self._do(["overlay"])

        def teardown(self):
            if self.run_ is not None:
                self.run_.close()
                if not self.failed and self.ops:
                    try:
                        rec.run(check_case, self._case(), reraise=True)
                    except BaseException:
                        holder["fail"] = self._case()
                        raise

    machine = hypothesis.seed(ctx.derive(tag))(CacheMachine)
    cfg = settings(
        max_examples=max_examples, stateful_step_count=steps, database=None, deadline=None, derandomize=False,
        report_multiple_bugs=False, suppress_health_check=list(HealthCheck), phases=[Phase.generate, Phase.shrink],
        print_blob=False, verbosity=hypothesis.Verbosity.quiet,
    )
    nviol = len(rec.violations)
    try:
        run_state_machine_as_test(machine, settings=cfg)
    except core.HarnessError:
        raise
    except BaseException as e:  # noqa: BLE001 - any failure of the machine is re-judged by check_case below
        del rec.violations[nviol:]
        fail = holder["fail"]
        if fail is None:
            raise core.HarnessError("state machine failed outside a step: %r" % (e,)) from e
        rec.run(check_case, fail)
        if len(rec.violations) == nviol:
            raise core.HarnessError("state machine failure does not reproduce through check_case: %r / %r" % (e, fail)) from e
    return rec


# ---------------------------------------------------------------------------------------------------
# shards

NSHARDS = 16


def shards(tier):
    return [{"i": i} for i in range(NSHARDS)]


V01 = (0, 1)  # two non-empty sources
V0E = (0, EMPTY)  # a non-empty and the empty source
V01E = (0, 1, EMPTY)


def all_enumerated(tier):
    if tier == "quick":
        return itertools.chain(
            histories(2, V0E, range(1, 5), kinds=MEM), histories(2, V0E, range(1, 5), kinds=["fs"], earlier=True),
            histories(2, V01, range(1, 4)),
            histories(3, V0E, range(1, 4), kinds=MEM), histories(3, V0E, range(1, 4), kinds=["fs"], earlier=True),
            histories(3, V01, [4], kinds=["dict"], caches=[2], full=False),
            histories(2, V0E, range(1, 4), kinds=["pkg"], earlier=True), histories(3, V0E, range(1, 4), kinds=["pkg"]),
            histories(2, V0E, [4], kinds=["pkg"], full=False),
            histories(2, V0E, range(1, 4), kinds=["dict_map"]), histories(3, V0E, range(1, 4), kinds=["dict_map"]),
            histories(2, V0E, [4], kinds=["dict_map"], full=False),
            histories(2, V0E, range(1, 4), kinds=["dict"], overlay=True), histories(2, V0E, [4], kinds=["dict"], full=False, overlay=True),
            histories(3, V0E, range(1, 4), kinds=["func_utd"], overlay=True),
        )
    return itertools.chain(
        histories(2, V01E, range(1, 5), kinds=MEM),
        histories(2, V0E, [5], kinds=MEM),
        histories(2, V01, [5], kinds=MEM),
        histories(2, V01E, range(1, 5), kinds=["fs"], earlier=True),
        histories(2, V0E, [5], kinds=["fs"]),
        histories(3, V0E, range(1, 5), kinds=MEM),
        histories(3, V0E, range(1, 4), kinds=["fs"], earlier=True),
        histories(3, V0E, [4], kinds=["fs"]),
        histories(3, V01, [5], kinds=["dict"], caches=[2]),
        histories(2, V0E, [6], kinds=["dict"], caches=[1, 2]),
        histories(2, V0E, [6], kinds=["func", "func_utd"], caches=[1, 2], full=False),
        histories(2, V0E, [5], kinds=["fs"], caches=[1, 2], full=False, earlier=True),
        histories(2, V0E, [6], kinds=["fs"], caches=[1, 2], full=False),
        histories(2, V0E, range(1, 5), kinds=["pkg"], earlier=True),
        histories(3, V0E, range(1, 4), kinds=["pkg"]),
        histories(2, V0E, [5], kinds=["pkg"], caches=[1, 2], full=False),
        histories(2, V01E, range(1, 5), kinds=["dict_map"]), histories(3, V0E, range(1, 5), kinds=["dict_map"]),
        histories(2, V0E, range(1, 6), kinds=["dict"], overlay=True), histories(3, V0E, range(1, 5), kinds=["func_utd"], overlay=True),
        histories(2, V0E, range(1, 5), kinds=["fs"], overlay=True),
    )


def _cleanup_on_sigterm():
    """The runner may terminate worker processes in the middle of a shard (early stop of sensitivity / seeded
    runs): remove this process's work directory before dying.  Only installed in forked workers."""
    import multiprocessing
    import signal

    if multiprocessing.parent_process() is None:
        return None

    def handler(signum, frame):
        remove_workdir()
        signal.signal(signal.SIGTERM, signal.SIG_DFL)
        os.kill(os.getpid(), signal.SIGTERM)

    try:
        return signal.signal(signal.SIGTERM, handler)
    except ValueError:  # not the main thread of the process
        return None


def run_shard(spec, ctx):
    rec = core.Rec()
    _cleanup_on_sigterm()
    _keep_dirs[0] = True
    try:
        core.enum_shard(expand(core.sliced(all_enumerated(ctx.tier), ctx.index, ctx.nshards)), check_case, ctx, rec=rec)
        if not rec.violations:
            _run_machine(ctx, rec, ctx.pick(10, 200), 100, "machine")
    finally:
        _keep_dirs[0] = False
        remove_workdir()
    return rec


def floors(total, tier):
    if total.violations:
        return None
    lab = total.labels
    need = {"evict": 500, "stale_served": 500, "notfound": 500, "ambiguous_state": 100, "swap": 500, "select_fallback": 200,
            "rewrite_same": 200, "stamp_earlier": 500, "empty_source": 1000, "toggle_auto_reload": 1000, "overlay": 1000, "loader=dict_map": 1000, "hit": 500, "compiled": 500}
    for k in KINDS:
        need["loader=" + k] = 1000
    low = ["%s=%d (< %d)" % (k, lab.get(k, 0), v) for k, v in need.items() if lab.get(k, 0) < v]
    return ", ".join(low) or None
