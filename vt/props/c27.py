"""C27 - the bytecode cache never yields stale code and tolerates interrupted writes.

Case kinds (all plain JSON):

  {"kind": "crash",  "env": SPEC, "src": PATTERN, "prior": "none"|"old", "fault": "kill"|"oserror", "point": POINT}
      POINT = ["tmp_before"] | ["tmp_after"] | ["bytes", k] | ["close_after"] | ["replace_before"] | ["replace_after"]
  {"kind": "damage", "env": SPEC, "src": PATTERN, "damage": DAMAGE}
      DAMAGE = ["truncate", k] | ["zero"] | ["dir"] | ["dir_nonempty"] | ["stale"] | ["foreign_name", same_source]
             | ["magic", variant] | ["append", n]
             | ["other_interp", "minor-1"|"minor+1"|"major+1"]   entry written by a second copy of jinja2/bccache.py that was
               executed while sys.version_info reported another interpreter version
  {"kind": "hist",   "envs": [SPEC, SPEC], "tpl": {name: PATTERN}, "ops": [OP...], "oracle": "full"|"weak"}
      (any kind may carry "mtime": "fixed": template files keep one modification time across edits)
      OP = ["L", env index, name] | ["M", name] | ["C", env index]
  {"kind": "memc",   "envs": [SPEC, SPEC], "tpl": {...}, "ops": [...], "ignore": bool, "timeout": int|None,
                     "gets": [GETB...], "sets": [SETB...]}   (behaviour of the n-th get/set = list[n % len])
      GETB = "ok" | "raise" | "none" | "empty" | ["trunc", k];  SETB = "ok" | "raise" | "drop" | "store_raise" | ["trunc", k]

  SPEC = {"opts": {...compile relevant options...}, "loader": "dict"|"fsA"|"fsB"|"onefile"}
         ("onefile": a FunctionLoader that reports one shared file name for every template name;
          opts.autoescape may be "select" = select_autoescape(("html",)))
  PATTERN = template source in which "@V@" is replaced by the current version number of the template
  (versions only grow, so a stale rendering is distinguishable from every rendering of the current source),
  "@S@" by the (version mod 9)-th of nine line-separator characters and "@T@" by a final newline in odd versions
  (near-identical versions; the reference history compares source texts, not version numbers).

The oracle is differential: a load through the cache must give the outcome (text, or exception class plus
the template frames of its traceback) that a cache-less environment with the same options and loader gives
on the current source.
"""
import asyncio  # noqa: F401  (async environments)
import errno
import fnmatch
import io
import itertools
import marshal
import os
import pickle
import shutil
import sys

from vt import core

PID = "C27"
LEVEL = "fault_enumeration"
RULE = (
    "enumerated: (a) every crash point of FileSystemBytecodeCache.dump_bytecode (before/after temp-file creation, after k "
    "bytes written for every k in thorough and for every k of one configuration plus the header bytes and 24 offsets of the others in quick, "
    "after close, before/after os.replace) as a simulated kill (directory snapshot at the fault) and as an exception that "
    "unwinds, with and without an older entry in place, plus OSError at the same points; (b) every truncation offset of a "
    "stored entry, zero-length, directory in place, stale source, entry of another name, five foreign magic headers with a "
    "payload that renders differently, entries written by a copy of the bccache module executed under three other "
    "interpreter versions, trailing garbage; (c) all histories ending in a load, of length <= 4 (quick) / <= 5 "
    "(thorough; <= 6 for four of the pairs), over {load(env0|env1, a|b), modify(a|b), clear} for 6 equally configured pairs (one over a loader that reports one file for all names with autoescape selected by name; the two-roots pair edits files keeping size and mtime; source versions of some templates differ only in one line-separator character or in the final newline) (one with two file-system "
    "loaders serving the same name from different roots) and 10 pairs differing in one compile-relevant option, plus "
    "Hypothesis-generated long histories; (d) MemcachedBytecodeCache over a fake client with per-call fault schedules. "
    "Non-trivial = some judged load happened while an entry for the same key existed in some (valid, damaged, stale, "
    "foreign or half-written) form; distinct = distinct serialised case."
)
ASSUMPTIONS = [
    "differential oracle: the expected outcome is computed by the same tree without a bytecode cache (a defect common to cached and uncached compilation is invisible here)",
    "faults are injected by replacing the names tempfile / os / open as seen from jinja2.bccache inside the harness process; a killed process is modelled by the directory contents at the fault point after flushing Python-level buffers (any byte prefix of the temp file is enumerated, the kernel is assumed to keep rename atomic)",
    "atomicity sub-oracle (from the comment in dump_bytecode 'avoids another process reading the file before it is fully written'): at every crash point a file under an entry's final name is a complete entry",
    "damaged entries are only those listed (truncation, foreign header, foreign name/source, empty, directory, trailing bytes); arbitrary byte corruption inside the marshal payload is NOT generated (marshal is documented as unsafe on hostile data and can crash the interpreter)",
    "while F16 is a listed known finding, a load that the reference history says is served an entry written by a differently configured environment is judged against {own outcome, writer's outcome, TypeError for a sync/async mix}; all other loads (misses, stale entries, own or equally configured writers) keep the full oracle",
    "a memcached client exception propagates (same object) when ignore_memcache_errors=False and is swallowed when True, per the class documentation",
]

WORK = os.path.join(core.VERIF, ".work")
DATA_NAMES = ("x", "items", "f", "zero")


class _Crash(BaseException):
    """Simulated kill / asynchronous interruption at a fault point."""


class FakeMemcacheError(Exception):
    pass


# ---------------------------------------------------------------------------------------------
# scratch directories

_counter = itertools.count()


class _Scratch:
    def __enter__(self):
        self.parent = os.path.join(WORK, "c27-%d" % os.getpid())
        self.path = os.path.join(self.parent, "%d" % next(_counter))
        os.makedirs(self.path)
        return self.path

    def __exit__(self, *exc):
        shutil.rmtree(self.path, ignore_errors=True)
        try:
            os.rmdir(self.parent)
        except OSError:
            pass
        return False


# ---------------------------------------------------------------------------------------------
# environments

EXTS = {"do": "jinja2.ext.do", "loopcontrols": "jinja2.ext.loopcontrols", "i18n": "jinja2.ext.i18n"}
OPT_KEYS = {"sandboxed", "autoescape", "enable_async", "trim_blocks", "lstrip_blocks", "keep_trailing_newline", "delims",
            "line_statement_prefix", "optimized", "extensions", "finalize", "newline_sequence"}


def _finalize_star(v):
    return "*%s*" % (v,)


def _data():
    return {"x": "<&>", "items": [1, 2, 3], "f": lambda v: "f(%s)" % (v,), "zero": 0}


def _mkenv(spec, store, bcc):
    import jinja2
    from jinja2.sandbox import SandboxedEnvironment

    opts = spec.get("opts", {})
    bad = set(opts) - OPT_KEYS
    if bad:
        raise core.HarnessError("unknown option(s) %r" % sorted(bad))
    cls = SandboxedEnvironment if opts.get("sandboxed") else jinja2.Environment
    kw = dict(cache_size=0, bytecode_cache=bcc)
    for k in ("autoescape", "enable_async", "trim_blocks", "lstrip_blocks", "keep_trailing_newline", "optimized",
              "line_statement_prefix", "newline_sequence"):
        if k in opts:
            kw[k] = opts[k]
    if opts.get("delims") == "alt":
        kw.update(block_start_string="<%", block_end_string="%>", variable_start_string="${", variable_end_string="}",
                  comment_start_string="<#", comment_end_string="#>")
    if opts.get("extensions"):
        kw["extensions"] = [EXTS[e] for e in opts["extensions"]]
    if opts.get("finalize") == "star":
        kw["finalize"] = _finalize_star
    if opts.get("autoescape") == "select":
        kw["autoescape"] = jinja2.select_autoescape(enabled_extensions=("html",), default_for_string=False)
    kind = spec.get("loader", "dict")
    if kind == "dict":
        loader = jinja2.DictLoader(store.cur)
    elif kind in ("fsA", "fsB"):
        loader = jinja2.FileSystemLoader(store.root(kind))
    elif kind == "onefile":
        # a loader that keeps all templates in one file and reports that file for every name
        shared, cur = store.shared_file(), store.cur
        loader = jinja2.FunctionLoader(lambda name: (cur[name], shared, None) if name in cur else None)
    else:
        raise core.HarnessError("loader kind %r" % kind)
    return cls(loader=loader, **kw)


# "@S@" in a pattern: successive versions differ in exactly this one character (all are line boundaries for
# str.splitlines, none but "\n" is one for the lexer; "\r" is left out because the lexer treats \r\n, \r and \n alike)
LINE_SEPS = ["\n", "\x0b", "\x0c", "\x1c", "\x85", "\u2028", "\u2029", "\x1d", "\x1e"]
# "@T@" in a pattern: a final newline that is present in odd versions only


class _Store:
    """Current sources: a dict (DictLoader) mirrored into two directories (FileSystemLoaders)."""

    FIXED_MTIME_NS = 1_600_000_000_000_000_000

    def __init__(self, scratch, tpl, mtime=None):
        if mtime not in (None, "fixed"):
            raise core.HarnessError("mtime policy %r" % (mtime,))
        self.mtime = mtime  # "fixed": files keep one modification time across edits (cp -p, rsync -t, archives)
        self.scratch = scratch
        self.tpl = dict(tpl)
        self.ver = dict.fromkeys(tpl, 0)
        self.cur = {}
        self._roots = {}
        for n in tpl:
            self._set(n)

    def root(self, kind):
        if kind not in self._roots:
            d = os.path.join(self.scratch, "root" + kind[-1])
            os.makedirs(d, exist_ok=True)
            self._roots[kind] = d
            for n in self.cur:
                self._write(d, n)
        return self._roots[kind]

    def _write(self, d, n):
        p = os.path.join(d, n)
        with open(p, "w", encoding="utf-8", newline="") as f:
            f.write(self.cur[n])
        if self.mtime == "fixed":
            os.utime(p, ns=(self.FIXED_MTIME_NS, self.FIXED_MTIME_NS))

    def shared_file(self):
        p = os.path.join(self.scratch, "all-templates.txt")
        if not os.path.exists(p):
            with open(p, "w", encoding="utf-8") as f:
                f.write("(all templates of this loader live in this file)\n")
        return p

    def _set(self, n):
        v = self.ver[n]
        self.cur[n] = (self.tpl[n].replace("@V@", str(v)).replace("@S@", LINE_SEPS[v % len(LINE_SEPS)])
                       .replace("@T@", "\n" if v % 2 else ""))
        for d in self._roots.values():
            self._write(d, n)

    def modify(self, n):
        self.ver[n] += 1
        self._set(n)


def _tpl_frames(exc):
    out = []
    tb = exc.__traceback__
    while tb is not None:
        fn = tb.tb_frame.f_code.co_filename
        if not fn.endswith(".py") and not fn.startswith("<frozen"):
            out.append([fn, tb.tb_lineno])
        tb = tb.tb_next
    return out


def _outcome(env, name):
    """('ok', text) | ('err', class name, template frames).  Every exception is turned into data that is
    compared with the expected outcome; nothing is swallowed."""
    try:
        return ("ok", env.get_template(name).render(_data()))
    except Exception as e:  # noqa: BLE001 - compared, not ignored
        return ("err", type(e).__name__, _tpl_frames(e), e)


_EXP_MEMO = {}


def _expected(ref, spec, store, name):
    """Outcome of the cache-less reference environment.  For DictLoader environments (no scratch path in the outcome)
    the value is remembered per process: it is a function of (options, name, source text) only."""
    if spec.get("loader", "dict") != "dict":
        return _outcome(ref, name)
    key = (core.canon(spec.get("opts", {})), name, store.cur[name])
    hit = _EXP_MEMO.get(key)
    if hit is None:
        if len(_EXP_MEMO) > 4000:
            _EXP_MEMO.clear()
        hit = _EXP_MEMO[key] = _outcome(ref, name)
    return hit


def _same(a, b):
    return a[:3] == b[:3]


def _show(o):
    if o[0] == "ok":
        return "text %r" % (o[1],)
    return "%s %s (template frames %r)" % (o[1], str(o[3])[:120], o[2])


# ---------------------------------------------------------------------------------------------
# entry files

def _entry_files(cache_dir, pattern="__jinja2_%s.cache"):
    return sorted(fnmatch.filter(os.listdir(cache_dir), pattern % ("*",)))


def _parse_entry(data):
    """-> (magic_len, checksum_end) of a complete entry, or None.  Independent of Bucket.load_bytecode."""
    from jinja2.bccache import bc_magic

    if not data.startswith(bc_magic):
        return None
    f = io.BytesIO(data)
    f.seek(len(bc_magic))
    try:
        checksum = pickle.load(f)
    except Exception:  # noqa: BLE001 - incomplete
        return None
    if not isinstance(checksum, str):
        return None
    end = f.tell()
    try:
        code = marshal.load(f)
    except (EOFError, ValueError, TypeError):
        return None
    if not hasattr(code, "co_code") or f.tell() != len(data):
        return None
    return len(bc_magic), end


def _check_atomic(cache_dir, where, src):
    for fn in _entry_files(cache_dir):
        p = os.path.join(cache_dir, fn)
        if os.path.isdir(p):
            continue
        with open(p, "rb") as f:
            data = f.read()
        if _parse_entry(data) is None:
            raise core.Violation(
                "%s: the file under the entry's final name %s holds %d bytes that are not a complete entry "
                "(a concurrent reader or a restart would see a half-written entry); source %r" % (where, fn, len(data), src))


# ---------------------------------------------------------------------------------------------
# fault plan: names as seen from jinja2.bccache

class _Plan:
    def __init__(self, point, fault, cache_dir, snap_dir):
        self.point = list(point) if point else None
        self.fault = fault
        self.cache_dir = cache_dir
        self.snap_dir = snap_dir
        self.fired = False
        self.exc = None
        self.written = 0
        self.boundaries = []
        self.files = []

    def at(self, name):
        if self.point is not None and not self.fired and self.point[0] == name:
            self.fire()

    def fire(self):
        self.fired = True
        for f in self.files:
            try:
                f.flush()
            except ValueError:
                pass
        if self.fault == "kill":
            shutil.copytree(self.cache_dir, self.snap_dir)
            self.exc = _Crash("simulated kill at %r" % (self.point,))
        else:
            self.exc = OSError(errno.ENOSPC, "injected fault at %r" % (self.point,))
        raise self.exc

    def write(self, real, data):
        data = bytes(data)
        if self.point is not None and not self.fired and self.point[0] == "bytes":
            k = self.point[1]
            if self.written + len(data) >= k:
                part = data[: k - self.written]
                real.write(part)
                self.written += len(part)
                self.fire()
        n = real.write(data)
        self.written += len(data)
        self.boundaries.append(self.written)
        return n


class _FileProxy:
    def __init__(self, real, plan):
        self._real = real
        self._plan = plan
        plan.files.append(real)

    @property
    def name(self):
        return self._real.name

    def write(self, data):
        return self._plan.write(self._real, data)

    def __enter__(self):
        self._real.__enter__()
        return self

    def __exit__(self, et, ev, tb):
        r = self._real.__exit__(et, ev, tb)
        if et is None:
            self._plan.at("close_after")
        return r

    def close(self):
        self._real.close()

    def __getattr__(self, n):
        return getattr(self._real, n)


class _TempfileProxy:
    def __init__(self, plan):
        import tempfile

        self._real = tempfile
        self._plan = plan

    def NamedTemporaryFile(self, *a, **kw):  # noqa: N802
        self._plan.at("tmp_before")
        f = self._real.NamedTemporaryFile(*a, **kw)
        p = _FileProxy(f, self._plan)
        self._plan.at("tmp_after")
        return p

    def __getattr__(self, n):
        return getattr(self._real, n)


class _OsProxy:
    def __init__(self, plan):
        self._plan = plan

    def replace(self, src, dst, **kw):
        self._plan.at("replace_before")
        os.replace(src, dst, **kw)
        self._plan.at("replace_after")

    def rename(self, src, dst, **kw):
        self._plan.at("replace_before")
        os.rename(src, dst, **kw)
        self._plan.at("replace_after")

    def __getattr__(self, n):
        return getattr(os, n)


class _Patched:
    """Install the plan into jinja2.bccache (tempfile, os, open); always restored."""

    def __init__(self, plan):
        self.plan = plan

    def __enter__(self):
        import jinja2.bccache as b

        self.b = b
        self.saved = (b.tempfile, b.os, b.__dict__.get("open", None))
        plan = self.plan

        def _open(file, mode="r", *a, **kw):
            if any(c in mode for c in "wax+"):
                plan.at("tmp_before")
                f = _FileProxy(open(file, mode, *a, **kw), plan)
                plan.at("tmp_after")
                return f
            return open(file, mode, *a, **kw)

        b.tempfile = _TempfileProxy(plan)
        b.os = _OsProxy(plan)
        b.open = _open
        return plan

    def __exit__(self, *exc):
        b = self.b
        b.tempfile, b.os = self.saved[0], self.saved[1]
        if self.saved[2] is None:
            del b.open
        else:
            b.open = self.saved[2]
        return False


def _fs_cache(cache_dir, log=None):
    from jinja2.bccache import FileSystemBytecodeCache

    class Recording(FileSystemBytecodeCache):
        def load_bytecode(self, bucket):
            super().load_bytecode(bucket)
            if log is not None:
                log.append("hit" if bucket.code is not None else "miss")

    return Recording(cache_dir)


def probe_write(spec, src):
    """Generator-side helper: (total bytes, write boundaries) of one entry write for this template."""
    case = {}
    with _Scratch() as sd:
        cache_dir = os.path.join(sd, "cache")
        os.mkdir(cache_dir)
        store = _Store(sd, {"a": src}, case.get("mtime"))
        plan = _Plan(None, "kill", cache_dir, None)
        with _Patched(plan):
            _mkenv(spec, store, _fs_cache(cache_dir)).get_template("a")
        return plan.written, list(plan.boundaries)


# ---------------------------------------------------------------------------------------------
# (a) crash points

def _check_crash(case):
    spec, src, point, fault = case["env"], case["src"], case["point"], case["fault"]
    labels = ["crash", "fault_" + fault, "point_" + point[0], "prior_" + case["prior"]]
    with _Scratch() as sd:
        cache_dir = os.path.join(sd, "cache")
        snap_dir = os.path.join(sd, "snap")
        os.mkdir(cache_dir)
        store = _Store(sd, {"a": src}, case.get("mtime"))
        ref = _mkenv(spec, store, None)
        if case["prior"] == "old":
            got = _outcome(_mkenv(spec, store, _fs_cache(cache_dir)), "a")
            if not _same(got, _expected(ref, spec, store, "a")):
                raise core.Violation("first load through an empty cache: expected %s, got %s; source %r"
                                     % (_show(_expected(ref, spec, store, "a")), _show(got), store.cur["a"]))
            store.modify("a")
        exp = _expected(ref, spec, store, "a")
        plan = _Plan(point, fault, cache_dir, snap_dir)
        env1 = _mkenv(spec, store, _fs_cache(cache_dir))
        crashed = False
        with _Patched(plan):
            try:
                got = _outcome(env1, "a")
            except _Crash as c:
                if c is not plan.exc:
                    raise
                crashed = True
        desc = "%s at %r (prior entry: %s) source %r" % (fault, point, case["prior"], store.cur["a"])
        if not plan.fired:
            labels.append("fault_not_reached")
            if not _same(got, exp):
                raise core.Violation("load without a fault: expected %s, got %s; %s" % (_show(exp), _show(got), desc))
        elif fault == "kill":
            if not crashed:
                raise core.Violation("the interruption (a BaseException) raised at the fault point did not propagate out of "
                                     "get_template, which returned %s; %s" % (_show(got), desc))
        else:
            injected = got[0] == "err" and got[3] is plan.exc
            labels.append("oserror_propagated" if injected else "oserror_tolerated")
            if not injected and not _same(got, exp):
                raise core.Violation("with an injected OSError the load may raise it or succeed, but gave %s (expected %s); %s"
                                     % (_show(got), _show(exp), desc))
        states = [("directory after the interrupted call", cache_dir)]
        if plan.fired and fault == "kill":
            states.insert(0, ("snapshot at the crash point", snap_dir))
        nontrivial = False
        for what, d in states:
            if os.listdir(d):
                nontrivial = nontrivial or plan.fired
            _check_atomic(d, what + ", " + desc, store.cur["a"])
            for attempt in ("first", "second"):
                log = []
                got = _outcome(_mkenv(spec, store, _fs_cache(d, log)), "a")
                if not _same(got, exp):
                    raise core.Violation("%s load from the %s: expected %s, got %s; %s" % (attempt, what, _show(exp), _show(got), desc))
                labels.append("after_crash_" + "+".join(log))
        store.modify("a")
        exp2 = _expected(ref, spec, store, "a")
        for what, d in states:
            got = _outcome(_mkenv(spec, store, _fs_cache(d)), "a")
            if not _same(got, exp2):
                raise core.Violation("load after a later source change from the %s: expected %s, got %s; %s"
                                     % (what, _show(exp2), _show(got), desc))
    return core.Outcome(nontrivial, labels)


# ---------------------------------------------------------------------------------------------
# (b) damaged / foreign entries

FOREIGN_SRC = "FOREIGN-INTERPRETER-PAYLOAD {{ x }}"


def _foreign_magic(variant):
    v = sys.version_info
    if variant == "py_minor-1":
        return b"j2" + pickle.dumps(5, 2) + pickle.dumps((v[0] << 24) | (v[1] - 1), 2)
    if variant == "py_minor+1":
        return b"j2" + pickle.dumps(5, 2) + pickle.dumps((v[0] << 24) | (v[1] + 1), 2)
    if variant == "py_major-1":
        return b"j2" + pickle.dumps(5, 2) + pickle.dumps(((v[0] - 1) << 24) | v[1], 2)
    if variant == "bc_version-1":
        return b"j2" + pickle.dumps(4, 2) + pickle.dumps((v[0] << 24) | v[1], 2)
    if variant == "bc_version+1":
        return b"j2" + pickle.dumps(6, 2) + pickle.dumps((v[0] << 24) | v[1], 2)
    raise core.HarnessError("magic variant %r" % (variant,))


_OTHER_INTERP = {}


def _bccache_under(variant):
    """A second copy of the jinja2.bccache module source, executed while sys.version_info reports another interpreter
    version (the module computes its header at import time).  Not registered in sys.modules; one copy per process."""
    import importlib.util

    import jinja2.bccache

    key = (os.getpid(), variant, jinja2.bccache.__file__)
    if key in _OTHER_INTERP:
        return _OTHER_INTERP[key]
    v = sys.version_info
    if variant == "minor-1":
        fake = (v[0], v[1] - 1, 0, "final", 0)
    elif variant == "minor+1":
        fake = (v[0], v[1] + 1, 0, "final", 0)
    elif variant == "major+1":
        fake = (v[0] + 1, 0, 0, "final", 0)
    else:
        raise core.HarnessError("interpreter variant %r" % (variant,))
    spec = importlib.util.spec_from_file_location("jinja2._vt_bccache_%s" % variant.replace("-", "m").replace("+", "p"),
                                                  jinja2.bccache.__file__)
    mod = importlib.util.module_from_spec(spec)
    real = sys.version_info
    sys.version_info = fake
    try:
        spec.loader.exec_module(mod)
    finally:
        sys.version_info = real
    _OTHER_INTERP[key] = mod
    return mod


def _check_damage(case):
    spec, src, dmg = case["env"], case["src"], case["damage"]
    labels = ["damage", "dmg_" + dmg[0]]
    with _Scratch() as sd:
        cache_dir = os.path.join(sd, "cache")
        os.mkdir(cache_dir)
        tpl = {"a": src, "b": src if (dmg[0] == "foreign_name" and dmg[1]) else FOREIGN_SRC}
        store = _Store(sd, tpl, case.get("mtime"))
        ref = _mkenv(spec, store, None)
        got = _outcome(_mkenv(spec, store, _fs_cache(cache_dir)), "a")
        exp = _expected(ref, spec, store, "a")
        if not _same(got, exp):
            raise core.Violation("first load through an empty cache: expected %s, got %s; source %r" % (_show(exp), _show(got), store.cur["a"]))
        files = _entry_files(cache_dir)
        if len(files) != 1:
            # nothing was stored (e.g. the template does not compile): nothing to damage
            labels.append("no_entry")
            return core.Outcome(False, labels)
        pa = os.path.join(cache_dir, files[0])
        with open(pa, "rb") as f:
            entry = f.read()
        parsed = _parse_entry(entry)
        if parsed is None:
            raise core.Violation("the stored entry (%d bytes) is not magic + pickled checksum + marshalled code; source %r" % (len(entry), store.cur["a"]))
        nontrivial = True
        op = dmg[0]
        if op == "truncate":
            k = dmg[1]
            if k >= len(entry):
                labels.append("truncate_beyond_end")
                nontrivial = False
            else:
                labels.append("trunc_in_" + ("magic" if k < parsed[0] else "checksum" if k < parsed[1] else "code"))
            with open(pa, "wb") as f:
                f.write(entry[:k])
        elif op == "zero":
            open(pa, "wb").close()
        elif op in ("dir", "dir_nonempty"):
            os.remove(pa)
            os.mkdir(pa)
            if op == "dir_nonempty":
                open(os.path.join(pa, "x"), "wb").close()
        elif op == "stale":
            store.modify("a")
        elif op == "append":
            with open(pa, "ab") as f:
                f.write(b"\x00garbage\xff" * dmg[1])
        elif op in ("foreign_name", "magic", "other_interp"):
            _outcome(_mkenv(spec, store, _fs_cache(cache_dir)), "b")
            others = [f for f in _entry_files(cache_dir) if f != files[0]]
            if len(others) != 1:
                labels.append("no_entry")
                return core.Outcome(False, labels)
            pb = os.path.join(cache_dir, others[0])
            with open(pb, "rb") as f:
                other = f.read()
            po = _parse_entry(other)
            if po is None:
                raise core.Violation("the stored entry for the second template is not a complete entry")
            if op == "foreign_name":
                new = other
            elif op == "other_interp":
                # the entry the module itself writes under another interpreter version for the *current* source:
                # same key (file), matching source checksum, code this interpreter must not trust
                foreign = _bccache_under(dmg[1])
                bucket = foreign.Bucket(None, "k", pickle.loads(entry[parsed[0]:parsed[1]]))
                bucket.code = marshal.loads(other[po[1]:])
                new = bucket.bytecode_to_string()
            else:
                # what another interpreter / cache format version would have left for the *current* source:
                # its header, the matching source checksum, a payload this interpreter must not trust
                new = _foreign_magic(dmg[1]) + entry[parsed[0]:parsed[1]] + other[po[1]:]
            with open(pa, "wb") as f:
                f.write(new)
            os.remove(pb)
        else:
            raise core.HarnessError("damage %r" % (dmg,))
        exp = _expected(ref, spec, store, "a")
        desc = "entry damaged by %r, source %r" % (dmg, store.cur["a"])
        # an entry of another name with the *same* source text is accepted by design (the checksum covers the
        # source only); its code names the other file, so only text / exception class are compared there
        width = 2 if (op == "foreign_name" and dmg[1]) else 3
        for attempt in ("first", "second"):
            log = []
            got = _outcome(_mkenv(spec, store, _fs_cache(cache_dir, log)), "a")
            if got[:width] != exp[:width]:
                raise core.Violation("%s load over a damaged/foreign entry must behave as a cache miss: expected %s, got %s; %s"
                                     % (attempt, _show(exp), _show(got), desc))
            labels.append("%s_load_%s" % (attempt, "+".join(log)))
        store.modify("a")
        exp = _expected(ref, spec, store, "a")
        got = _outcome(_mkenv(spec, store, _fs_cache(cache_dir)), "a")
        if not _same(got, exp):
            raise core.Violation("load after a later source change: expected %s, got %s; %s" % (_show(exp), _show(got), desc))
    return core.Outcome(nontrivial, labels)


# ---------------------------------------------------------------------------------------------
# (c) histories over two environments sharing one cache directory, (d) memcached

def _f16_class(case):
    """Input classes in which F16 shows up as something else than one of the two configurations' outcomes."""
    o0, o1 = case["envs"][0].get("opts", {}), case["envs"][1].get("opts", {})
    srcs = list(case["tpl"].values())
    if bool(o0.get("sandboxed")) != bool(o1.get("sandboxed")):
        # code compiled by a sandboxed environment calls environment.call(), which a plain Environment lacks
        if any("(" in s for s in srcs):
            return True
    if o0.get("finalize") != o1.get("finalize"):
        # code compiled with a finalize function calls environment.finalize, which is None in the other environment
        return True
    if bool(o0.get("autoescape")) != bool(o1.get("autoescape")):
        # a macro wraps its result according to the run-time autoescape flag while its body was compiled for the other
        # one: the text is escaped twice, i.e. neither configuration's output
        if any("macro" in s or "call" in s for s in srcs):
            return True
    return False


class _FakeClient:
    def __init__(self, gets, sets):
        self.gets, self.sets = gets or ["ok"], sets or ["ok"]
        self.store = {}
        self.ng = self.ns = 0
        self.raised = []
        self.log = []

    def get(self, key):
        beh = self.gets[self.ng % len(self.gets)]
        self.ng += 1
        self.log.append(("get", beh if isinstance(beh, str) else beh[0], key in self.store))
        if beh == "raise":
            e = FakeMemcacheError("get")
            self.raised.append(e)
            raise e
        if beh == "none":
            return None
        v = self.store.get(key)
        if beh == "empty":
            return b""
        if isinstance(beh, list) and beh[0] == "trunc":
            return None if v is None else v[: beh[1]]
        if beh != "ok":
            raise core.HarnessError("get behaviour %r" % (beh,))
        return v

    def set(self, key, value, timeout=None):
        beh = self.sets[self.ns % len(self.sets)]
        self.ns += 1
        self.log.append(("set", beh if isinstance(beh, str) else beh[0], True))
        if not isinstance(value, bytes):
            raise core.HarnessError("client.set got %r, not bytes" % type(value))
        if beh == "raise":
            e = FakeMemcacheError("set")
            self.raised.append(e)
            raise e
        if beh == "drop":
            return
        if isinstance(beh, list) and beh[0] == "trunc":
            self.store[key] = value[: beh[1]]
            return
        self.store[key] = value
        if beh == "store_raise":
            e = FakeMemcacheError("set after storing")
            self.raised.append(e)
            raise e
        if beh not in ("ok", "store_raise"):
            raise core.HarnessError("set behaviour %r" % (beh,))


def _check_hist(case):
    memc = case["kind"] == "memc"
    specs, ops = case["envs"], case["ops"]
    if len(specs) != 2:
        raise core.HarnessError("two environments expected")
    equal = specs[0].get("opts", {}) == specs[1].get("opts", {})
    weak = (not equal) and case.get("oracle", "full") == "weak"
    if weak and _f16_class(case):
        raise core.Excluded()
    async_mix = bool(specs[0].get("opts", {}).get("enable_async")) != bool(specs[1].get("opts", {}).get("enable_async"))
    labels = ["memc" if memc else "hist", "cfg_equal" if equal else "cfg_differ", "len_%d" % len(ops)]
    if not equal:
        labels.append("oracle_" + ("weak" if weak else "full"))
    with _Scratch() as sd:
        cache_dir = os.path.join(sd, "cache")
        os.mkdir(cache_dir)
        store = _Store(sd, case["tpl"], case.get("mtime"))
        logs = [[], []]
        if memc:
            from jinja2.bccache import MemcachedBytecodeCache

            client = _FakeClient(case.get("gets"), case.get("sets"))
            caches = [MemcachedBytecodeCache(client, ignore_memcache_errors=bool(case["ignore"]), timeout=case.get("timeout"))
                      for _ in specs]
            labels.append("ignore_on" if case["ignore"] else "ignore_off")
        else:
            caches = [_fs_cache(cache_dir, logs[i]) for i in range(2)]
        envs = [_mkenv(s, store, c) for s, c in zip(specs, caches)]
        refs = [_mkenv(s, store, None) for s in specs]
        memo = {}

        def expected(i, n):
            k = (i, n, store.cur[n])
            if k not in memo:
                memo[k] = _expected(refs[i], specs[i], store, n)
            return memo[k]

        entry = {}  # reference history: key -> (source text the entry was written for, possible writers); key = (name, loader kind)
        nontrivial = False
        for step, op in enumerate(ops):
            if op[0] == "M":
                store.modify(op[1])
                continue
            if op[0] == "C":
                if not memc:
                    caches[op[1]].clear()
                    entry.clear()
                continue
            if op[0] != "L":
                raise core.HarnessError("op %r" % (op,))
            i, n = op[1], op[2]
            key = (n, specs[i].get("loader", "dict"))
            del logs[i][:]
            if memc:
                del client.raised[:]
                del client.log[:]
            got = _outcome(envs[i], n)
            exp = expected(i, n)
            desc = "step %d %r of %r; environments %r; source now %r" % (step, op, ops, specs, store.cur[n])
            if memc:
                desc += "; client calls %r (ignore_memcache_errors=%r)" % (client.log, case["ignore"])
                for kind, beh, had in client.log:
                    labels.append("%s_%s" % (kind, beh))
                    if kind == "get" and had and beh != "none":
                        nontrivial = True
                if client.raised:
                    if case["ignore"]:
                        if not _same(got, exp):
                            raise core.Violation("client error must be ignored: expected %s, got %s; %s" % (_show(exp), _show(got), desc))
                    elif not (got[0] == "err" and got[3] is client.raised[0]):
                        raise core.Violation("with ignore_memcache_errors=False the client's exception must propagate, got %s; %s"
                                             % (_show(got), desc))
                    else:
                        labels.append("client_error_propagated")
                    continue
                if not _same(got, exp):
                    raise core.Violation("expected %s, got %s; %s" % (_show(exp), _show(got), desc))
                continue
            prev = entry.get(key)
            if prev is not None:
                nontrivial = True
            current = prev is not None and prev[0] == store.cur[n]
            served_foreign = current and (1 - i) in prev[1]
            if prev is None:
                labels.append("load_no_entry")
            elif not current:
                labels.append("load_stale_entry")
            else:
                labels.append("load_entry_of_other_env" if served_foreign else "load_own_entry")
            labels.extend("observed_" + x for x in logs[i])
            if weak and served_foreign:
                allowed = [exp, expected(1 - i, n)]
                ok = any(_same(got, a) for a in allowed) or (async_mix and got[0] == "err" and got[1] == "TypeError")
                labels.append("weak_judged")
                if not ok:
                    raise core.Violation("entry written by the other (differently configured) environment: expected %s or %s, got %s; %s"
                                         % (_show(allowed[0]), _show(allowed[1]), _show(got), desc))
            elif not _same(got, exp):
                raise core.Violation("expected %s, got %s; %s" % (_show(exp), _show(got), desc))
            # possible writers of the entry for the current source: the first loader after a miss, and (because that
            # one may have failed to store anything, e.g. its compilation raised) every later loader as well
            if current:
                prev[1].add(i)
            else:
                entry[key] = (store.cur[n], {i})
        if not memc:
            _check_atomic(cache_dir, "end of history %r" % (ops,), "")
    return core.Outcome(nontrivial, labels)


def check_case(case):
    kind = case["kind"]
    if kind == "crash":
        return _check_crash(case)
    if kind == "damage":
        return _check_damage(case)
    if kind in ("hist", "memc"):
        return _check_hist(case)
    raise core.HarnessError("case kind %r" % (kind,))


# ---------------------------------------------------------------------------------------------
# domains

T_MAIN = ("v@V@<{{ x }}>{% if x %}  \n  yes{% endif %}\n{% for i in items %}\n  {{ i }}:{{ loop.index }}\n{% endfor %}"
          "{{ '<i>' }}{{ @V@ + 1 }}\n")
T_CALL = "{% macro m(a) %}[{{ a }}]{% endmacro %}{{ m(x) }}{{ f(@V@) }}{{ x|upper }}v@V@"
T_DELIM = "<% if x %>A${ x }<% endif %>{{ x }}{% if x %}B{% endif %}v@V@"
T_EXT = "{% for i in items %}{% if i == 2 %}{% break %}{% endif %}{{ i }}{% endfor %}v@V@{% do items.append(@V@) %}"
T_LINE = "# for i in items\n{{ i }}v@V@\n# endfor\n"
T_ATTR = "{{ items.__class__ }}|{{ x.__class__.__name__ }}v@V@"
T_FIN = "{{ none }}{{ 1 + 2 }}{{ 'a' ~ @V@ }}{{ x }}v@V@"
T_ERR = "line1 v@V@\n{{ x }}\n{{ 1 // zero }}"
T_NL = "a v@V@\nb\r\nc{{ x }}\n"
T_SMALL = "{{ x }}v@V@"
T_SELF = T_MAIN + "{{ self }}"  # names the template the code was compiled for
T_NAMED = "{{ x }}|{{ self }}|{{ '<b>' }}v@V@{% if x %}\n  {{ items|length }}{% endif %}"
T_SEP = "first line@S@second line {{ x }}|{{ items|join(',') }}"  # versions differ in one separator character only
T_TAIL = "tail {{ x }}@T@"  # versions differ in the final newline only (visible with keep_trailing_newline)
T_TRANS = "{% trans %}  hello\n  {{ x }}  {% endtrans %}v@V@"

D = {"loader": "dict"}


def spec(loader="dict", **opts):
    return {"opts": opts, "loader": loader}


CRASH_SPECS = [spec(), spec(autoescape=True, trim_blocks=True), spec(enable_async=True), spec(sandboxed=True),
               spec("fsA")]
CRASH_SRCS = [T_MAIN, T_CALL, T_SMALL, T_ERR]
STRUCT_POINTS = [["tmp_before"], ["tmp_after"], ["close_after"], ["replace_before"], ["replace_after"]]

EQUAL_PAIRS = [
    (spec(), spec(), {"a": T_SELF, "b": T_SELF}),
    # two roots serving the same names; edits keep file size and modification time (rsync -t / cp -p / archive deployments)
    (spec("fsA"), spec("fsB"), {"a": T_ERR, "b": T_MAIN}, {"mtime": "fixed"}),
    (spec(autoescape=True, enable_async=True, trim_blocks=True), spec(autoescape=True, enable_async=True, trim_blocks=True),
     {"a": T_CALL, "b": T_SEP}),
    (spec(sandboxed=True, extensions=["do", "loopcontrols"]), spec(sandboxed=True, extensions=["do", "loopcontrols"]),
     {"a": T_EXT, "b": T_CALL}),
]
EQUAL_PAIRS.append((spec(keep_trailing_newline=True), spec(keep_trailing_newline=True), {"a": T_TAIL, "b": T_SEP}))
# one file holds all templates (the loader reports it for every name); same source text under a name that is escaped
# (.html) and one that is not: compilation depends on the name, not only on source and file name
EQUAL_PAIRS.append((spec("onefile", autoescape="select"), spec("onefile", autoescape="select"),
                    {"page.html": T_NAMED, "page.txt": T_NAMED}))
DIFF_PAIRS = [
    ({"autoescape": True}, {"a": T_MAIN, "b": T_FIN}),
    ({"enable_async": True}, {"a": T_MAIN, "b": T_CALL}),
    ({"sandboxed": True}, {"a": T_ATTR, "b": T_MAIN}),
    ({"trim_blocks": True}, {"a": T_MAIN, "b": T_LINE}),
    ({"lstrip_blocks": True}, {"a": T_MAIN, "b": T_EXT}),
    ({"delims": "alt"}, {"a": T_DELIM, "b": T_MAIN}),
    ({"optimized": False}, {"a": T_FIN, "b": T_MAIN}),
    ({"extensions": ["do", "loopcontrols"]}, {"a": T_EXT, "b": T_MAIN}),
    ({"line_statement_prefix": "#"}, {"a": T_LINE, "b": T_MAIN}),
    ({"keep_trailing_newline": True, "newline_sequence": "\r\n"}, {"a": T_NL, "b": T_MAIN}),
]
HIST_OPS = [["L", 0, "a"], ["L", 1, "a"], ["L", 0, "b"], ["L", 1, "b"], ["M", "a"], ["M", "b"], ["C", 0]]
N_LOADS = 4


def hist_pairs():
    """(environments, templates, oracle, extra case fields).  The operation alphabet speaks of templates 'a' and 'b':
    they stand for the first and second name of the pair's template dict."""
    for a, b, tpl, *extra in EQUAL_PAIRS:
        yield [a, b], tpl, "full", (extra[0] if extra else {})
    for k, (opts, tpl) in enumerate(DIFF_PAIRS):
        pair = [spec(), spec(**opts)]
        if k % 2:
            pair.reverse()
        yield pair, tpl, "weak", {}


def hist_case(pair, ops):
    envs, tpl, oracle, extra = pair
    names = dict(zip("ab", tpl))
    ops = [[op[0], names[op[1]]] if op[0] == "M" else [op[0], op[1], names[op[2]]] if op[0] == "L" else list(op) for op in ops]
    case = {"kind": "hist", "envs": envs, "tpl": tpl, "ops": ops, "oracle": oracle}
    case.update(extra)
    return case


def histories(maxlen):
    for n in range(1, maxlen + 1):
        for body in itertools.product(HIST_OPS, repeat=n - 1):
            for last in HIST_OPS[:N_LOADS]:
                yield list(body) + [last]


def hist_cases(maxlen, extra=0):
    pairs = list(hist_pairs())
    for ops in histories(maxlen):
        for pair in pairs:
            yield hist_case(pair, ops)
    if extra:
        # one more step for the plain equal pair, the two-roots pair and the autoescape / async pairs
        some = [pairs[0], pairs[1], pairs[len(EQUAL_PAIRS)], pairs[len(EQUAL_PAIRS) + 1]]
        for ops in histories(maxlen + extra):
            if len(ops) > maxlen:
                for pair in some:
                    yield hist_case(pair, ops)


def _offsets(total, boundaries, dense):
    if dense:
        return list(range(0, total + 1))
    ks = set(boundaries) | {0, 1, total - 1, total}
    ks.update(range(0, min(total, 72)))  # header: magic + pickled checksum
    ks.update(int(total * j / 24) for j in range(25))
    return sorted(k for k in ks if 0 <= k <= total)


def crash_cases(tier):
    n = 0
    for sp in CRASH_SPECS:
        for src in CRASH_SRCS:
            total, bounds = probe_write(sp, src)
            dense = tier == "thorough" or n == 0
            n += 1
            for prior in ("none", "old"):
                for p in STRUCT_POINTS:
                    for fault in ("kill", "oserror"):
                        yield {"kind": "crash", "env": sp, "src": src, "prior": prior, "fault": fault, "point": p}
                for k in _offsets(total, bounds, dense):
                    yield {"kind": "crash", "env": sp, "src": src, "prior": prior, "fault": "kill", "point": ["bytes", k]}
                for k in sorted(set(bounds) | {0, 1, total // 2}):
                    yield {"kind": "crash", "env": sp, "src": src, "prior": prior, "fault": "oserror", "point": ["bytes", k]}
                yield {"kind": "crash", "env": sp, "src": src, "prior": prior, "fault": "kill", "point": ["bytes", total + 50]}


DAMAGE_SPECS = [spec(), spec(autoescape=True, enable_async=True), spec(sandboxed=True, trim_blocks=True), spec("fsB")]
DAMAGE_SRCS = [T_MAIN, T_CALL, T_SMALL, T_ERR, T_TRANS, T_SEP]
OTHER_INTERPS = ["minor-1", "minor+1", "major+1"]
MAGICS = ["py_minor-1", "py_minor+1", "py_major-1", "bc_version-1", "bc_version+1"]


def damage_cases(tier):
    n = 0
    for sp in DAMAGE_SPECS:
        for src in DAMAGE_SRCS:
            if src is T_TRANS:
                sp = spec(sp["loader"], extensions=["i18n"], **sp["opts"])
            total, bounds = probe_write(sp, src)
            dense = tier == "thorough" or n in (0, 6)
            n += 1
            # file-backed templates: later edits keep the file's size class and its modification time
            extra = {} if sp["loader"] == "dict" else {"mtime": "fixed"}
            for k in _offsets(total, bounds, dense) + [total + 7]:
                yield dict({"kind": "damage", "env": sp, "src": src, "damage": ["truncate", k]}, **extra)
            for d in [["zero"], ["dir"], ["dir_nonempty"], ["stale"], ["foreign_name", True], ["foreign_name", False],
                      ["append", 1], ["append", 40]] + [["magic", m] for m in MAGICS] + [["other_interp", m] for m in OTHER_INTERPS]:
                yield dict({"kind": "damage", "env": sp, "src": src, "damage": d}, **extra)


GET_B = ["ok", "raise", "none", ["trunc", 15], ["trunc", 40], ["trunc", 300], "empty", ["trunc", 1], ["trunc", 64], ["trunc", 65],
         ["trunc", 0], ["trunc", 14], ["trunc", 16]]
SET_B = ["ok", "raise", "drop", "store_raise", ["trunc", 0], ["trunc", 20], ["trunc", 65], ["trunc", 200]]


def memc_cases(tier):
    tpl = {"a": T_MAIN, "b": T_SMALL}
    pairs = [[spec(), spec()], [spec(autoescape=True, enable_async=True), spec(autoescape=True, enable_async=True)]]
    total, _ = probe_write(spec(), T_MAIN)
    # every truncation offset of the value returned by get, for a load / load history
    for ignore in (True, False):
        for k in range(0, total + 1, 1 if tier == "thorough" else 3):
            yield {"kind": "memc", "envs": pairs[0], "tpl": tpl, "ignore": ignore, "timeout": None,
                   "ops": [["L", 0, "a"], ["L", 1, "a"], ["L", 0, "a"]], "gets": ["ok", ["trunc", k], "ok"], "sets": ["ok"]}
        for k in range(0, 72):
            yield {"kind": "memc", "envs": pairs[0], "tpl": tpl, "ignore": ignore, "timeout": 30,
                   "ops": [["L", 0, "a"], ["L", 1, "a"], ["L", 0, "a"]], "gets": ["ok"], "sets": [["trunc", k], "ok"]}
    hs = [h for h in histories(2 if tier == "quick" else 3) if all(op[0] != "C" for op in h)]
    for h in hs:
        for ignore in (True, False):
            for g in itertools.product(GET_B[: 6 if tier == "quick" else 9], repeat=2):
                for s in SET_B[:5]:
                    yield {"kind": "memc", "envs": pairs[len(h) % 2], "tpl": tpl, "ignore": ignore, "timeout": None,
                           "ops": h, "gets": list(g), "sets": [s, "ok"]}


def long_history_strategy():
    from hypothesis import strategies as st

    pairs = list(hist_pairs())

    @st.composite
    def one(draw):
        pair = draw(st.sampled_from(pairs))
        ops = draw(st.lists(st.sampled_from(HIST_OPS), min_size=5, max_size=40))
        ops = ops + [draw(st.sampled_from(HIST_OPS[:N_LOADS]))]
        return hist_case(pair, ops)

    return one()


def memc_strategy():
    from hypothesis import strategies as st

    tpl = {"a": T_MAIN, "b": T_CALL}
    getb = st.one_of(st.sampled_from(["ok", "ok", "raise", "none", "empty"]), st.builds(lambda k: ["trunc", k], st.integers(0, 2200)))
    setb = st.one_of(st.sampled_from(["ok", "ok", "raise", "drop", "store_raise"]), st.builds(lambda k: ["trunc", k], st.integers(0, 2200)))
    ops = st.lists(st.sampled_from([o for o in HIST_OPS if o[0] != "C"]), min_size=2, max_size=12)
    sp = st.sampled_from([spec(), spec(autoescape=True), spec(enable_async=True), spec(sandboxed=True, trim_blocks=True)])
    return st.builds(
        lambda s, o, g, t, ig, to: {"kind": "memc", "envs": [s, s], "tpl": tpl, "ops": o + [["L", 0, "a"]], "ignore": ig,
                                    "timeout": to, "gets": g, "sets": t},
        sp, ops, st.lists(getb, min_size=1, max_size=5), st.lists(setb, min_size=1, max_size=4), st.booleans(),
        st.sampled_from([None, 30]))


# ---------------------------------------------------------------------------------------------
# shards

NSHARDS = 32


def shards(tier):
    return [{"i": i} for i in range(NSHARDS)]


def all_enumerated(tier):
    return itertools.chain(
        crash_cases(tier),
        damage_cases(tier),
        hist_cases(4, 0) if tier == "quick" else hist_cases(5, 1),
        memc_cases(tier),
    )


def run_shard(spec_, ctx):
    rec = core.Rec()
    try:
        core.enum_shard(core.sliced(all_enumerated(ctx.tier), ctx.index, ctx.nshards), check_case, ctx, rec=rec)
        if not rec.violations:
            core.hyp_shard(long_history_strategy(), check_case, ctx, ctx.pick(25, 400), rec=rec, tag="long")
        if not rec.violations:
            core.hyp_shard(memc_strategy(), check_case, ctx, ctx.pick(40, 600), rec=rec, tag="memc")
    finally:
        top = os.path.join(WORK, "c27-%d" % os.getpid())
        shutil.rmtree(top, ignore_errors=True)
        if os.path.exists(top):  # a busy file system can fail the first attempt; do not leave litter silently
            shutil.rmtree(top)
    return rec


def floors(total, tier):
    need = ["crash", "damage", "hist", "memc", "point_bytes", "point_replace_before", "point_replace_after", "point_tmp_after",
            "trunc_in_magic", "trunc_in_checksum", "trunc_in_code", "dmg_magic", "dmg_other_interp", "dmg_dir", "dmg_foreign_name",
            "load_stale_entry", "load_entry_of_other_env", "observed_hit", "observed_miss", "weak_judged", "cfg_equal",
            "get_trunc", "get_raise", "set_raise", "client_error_propagated", "after_crash_hit", "after_crash_miss"]
    missing = [k for k in need if total.labels.get(k, 0) < 10]
    if missing:
        return "label classes below floor (10): %s" % ", ".join(missing)
    return None


def check_known(entry):
    return check_case(entry["case"])
