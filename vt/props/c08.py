"""C08 - compile-time constant folding never changes what a template renders (metamorphic + differential).

Case kinds (plain JSON):

  {"kind": "gen" (default), "env": {"autoescape": bool, "finalize": "off" | "none_empty" | "env_none_empty" |
   "ctx_none_empty", "undefined": "default" | "strict" | "chainable"}, "body": [statements of vt.gen.constgen],
   "lifts": [[unit index, ...], ...], "style": int}
      The body is printed once as it is (variant A: every constant inline) and once per lift set (variant B_k: the
      chosen constant units - constant leaves, "..."|safe constants as Markup values, displays of constants - replaced
      by fresh context variables c<i> bound to the same values).  Every variant is compiled with optimized=True and
      optimized=False and rendered with flag=True and - when the template mentions ``flag`` (runtime-decided
      ``{% autoescape flag %}`` / ``{% autoescape not flag %}`` blocks, or the name in an expression) - flag=False.
      All observations for one flag value must be equal: same text, or an error of the same class in the same phase
      (loading the template / rendering it).

  {"kind": "src", "env": {...}, "variants": [{"src": "...", "ctx": {name: tagged value (vt.gen.data)}}, ...],
   "flags": [true, false]}
      hand-written variants that must agree in the same way (regression inputs and known findings).

The expected side is the implementation itself in another configuration (differential by design, DESIGN.md section 5).
"""
import warnings

from vt import core
from vt.gen import constgen as cg
from vt.gen import data as gdata

PID = "C08"
LEVEL = "exploration"
RULE = (
    "Hypothesis-generated constant-rich templates (vt.gen.constgen: 1-12 statements out of output, text, set, block set, "
    "if/else, for over a display, with, macro with constant defaults + calls, filter section, {% autoescape true|false|flag|"
    "not flag %} blocks (nested), an extension tag emitting MarkSafe / MarkSafeIfAutoescape nodes; type-directed expression "
    "trees of depth <= 3 quick / 4 thorough whose leaves are constants - ints, floats incl. 1e308 and inf, HTML-metacharacter "
    "strings, '...'|safe Markup constants, booleans, none, displays - with ~20 % template variables / the runtime flag, over "
    "arithmetic with bounded magnitudes, ~, comparisons, and/or/not, conditional expressions with and without else, 45 "
    "filters with constant arguments, 30 tests, subscripts / slices / attributes of literals, ~7 % ill-typed operands) x "
    "environment autoescape on/off x finalize off / plain / pass_environment / pass_context x undefined default / strict / "
    "chainable; each compared with 2 constant-lifted variants (random subset; 25 % all units), each variant under "
    "optimized=True and optimized=False, each with the runtime flag true and false. Non-trivial = something was computed at "
    "compile time in the unlifted template: the generated Python source differs between optimized=True and optimized=False, "
    "or visit_Output finalised an expression child at compile time (counted through a CodeGenerator subclass that only "
    "counts); distinct = distinct serialized case."
)
ASSUMPTIONS = [
    "differential: both sides run the current tree; a defect common to the folded and the unfolded path is invisible here",
    "a context variable holding the same value (same type, equal value; Markup for '...'|safe) is a faithful replacement "
    "of a constant; identity (sameas) is only taken against true / false / none",
    "errors are compared by exception class name and phase (template loading vs rendering), never by message",
    "magnitudes are bounded by construction (vt.gen.constgen.guard): unbounded compile-time folding (F19) is a listed "
    "finding and is never executed",
    "a macro is only called inside the autoescape region that defines it (calling it from a region with another "
    "autoescape setting compares the lexical compile-time eval context with the dynamic run-time one: listed finding F40)",
    "environment finalize + active autoescape + a constant none in an output expression is a listed finding "
    "(F36: finalize sees the escaped text) and is excluded by construction",
    "the autoescape block argument itself is never lifted (true -> variable turns a static block into a runtime-decided "
    "one, whose ~ over-escapes: F5, not claimed)",
]

# by-construction exclusions of listed findings; flip one off when its fix lands in /repo (and move the known_findings.d
# entry to replays/C08/)
EXCLUDE_FINALIZE_AUTOESCAPE = True   # F36: finalize / escape order for constant output
EXCLUDE_STRICT_LOAD_ERROR = False    # F44 (fixed 8a507e6): StrictUndefined constant raises UndefinedError while the template is loaded
EXCLUDE_CONST_SLICE = False          # F43 (fixed b0e4504): constant slice of a non-sequence folds to undefined, raises at run time

_state = {}
_counter = {"const_out": 0, "computed_out": 0}


def _fin_plain(value):
    return "" if value is None else value


def _setup():
    if _state:
        return _state
    import jinja2
    from jinja2 import nodes
    from jinja2.compiler import CodeGenerator
    from jinja2.ext import Extension

    warnings.filterwarnings("ignore", category=SyntaxWarning)

    class MSafe(Extension):
        """{% msafe ifauto|always E1[, E2] %} -> Output([MarkSafeIfAutoescape|MarkSafe(E1) [+ E2]]) (nodes for extensions)"""

        tags = {"msafe"}

        def parse(self, parser):
            lineno = next(parser.stream).lineno
            kind = parser.stream.expect("name").value
            e1 = parser.parse_expression()
            wrap = nodes.MarkSafeIfAutoescape if kind == "ifauto" else nodes.MarkSafe
            node = wrap(e1, lineno=lineno)
            if parser.stream.skip_if("comma"):
                node = nodes.Add(node, parser.parse_expression(), lineno=lineno)
            return nodes.Output([node], lineno=lineno)

    class CountingGenerator(CodeGenerator):
        """Unchanged code generation; only counts the output children finalised at compile time."""

        def _output_child_to_const(self, node, frame, finalize):
            rv = super()._output_child_to_const(node, frame, finalize)
            if not isinstance(node, nodes.TemplateData):
                _counter["const_out"] += 1
                if not isinstance(node, nodes.Const):
                    _counter["computed_out"] += 1
            return rv

    @jinja2.pass_environment
    def fin_env(env, value):
        return "" if value is None else value

    @jinja2.pass_context
    def fin_ctx(ctx, value):
        return "" if value is None else value

    _state.update(
        jinja2=jinja2, MSafe=MSafe, gen=CountingGenerator, envs={},
        finalize={"off": None, "none_empty": _fin_plain, "env_none_empty": fin_env, "ctx_none_empty": fin_ctx},
        undefined={"default": jinja2.Undefined, "strict": jinja2.StrictUndefined, "chainable": jinja2.ChainableUndefined},
        TemplateSyntaxError=jinja2.TemplateSyntaxError,
    )
    return _state


def _env(cfg, optimized):
    st = _setup()
    key = (bool(cfg.get("autoescape")), cfg.get("finalize", "off"), cfg.get("undefined", "default"), optimized)
    env = st["envs"].get(key)
    if env is None:
        env = st["jinja2"].Environment(
            autoescape=key[0], finalize=st["finalize"][key[1]], undefined=st["undefined"][key[2]], optimized=optimized,
            extensions=[st["MSafe"]], cache_size=0,
        )
        env.code_generator_class = st["gen"]
        st["envs"][key] = env
    return env


def _load(env, src):
    """-> (("ok", template) | ("load", exception class name), generated python source | None, compile-time counters)"""
    _counter["const_out"] = _counter["computed_out"] = 0
    raw = None
    try:
        raw = env.compile(src, raw=True)
        code = compile(raw, "<template>", "exec")
        tmpl = env.template_class.from_code(env, code, env.make_globals(None), None)
    except Exception as e:  # noqa: BLE001 - any failure to load is an observation, compared between the variants
        return ("load", type(e).__name__), raw, dict(_counter)
    return ("ok", tmpl), raw, dict(_counter)


def _render(tmpl, ctx):
    try:
        return ("ok", tmpl.render(ctx))
    except Exception as e:  # noqa: BLE001 - the error class is the observation
        return ("render", type(e).__name__)


def _observe(cfg, variants, flags):
    """variants: [(label, src, ctx)] -> {flag: [(label, optimized, outcome)]}, raws of the first variant, counters"""
    obs = {f: [] for f in flags}
    raws = {}
    counters = None
    for n, (label, src, ctx) in enumerate(variants):
        for optimized in (True, False):
            loaded, raw, cnt = _load(_env(cfg, optimized), src)
            if n == 0:
                raws[optimized] = raw
                if optimized:
                    counters = cnt
            for f in flags:
                if loaded[0] == "ok":
                    out = _render(loaded[1], dict(ctx, flag=f))
                else:
                    out = loaded
                obs[f].append((label, optimized, out))
    return obs, raws, counters


def _judge(cfg, variants, obs):
    for f, rows in obs.items():
        first = rows[0][2]
        if all(r[2] == first for r in rows):
            continue
        lines = ["constant folding is observable (env %r, flag=%r):" % (cfg, f)]
        for label, src, ctx in variants:
            lines.append("  %s: %s   with %r" % (label, src, ctx))
        for label, optimized, out in rows:
            lines.append("    %-3s optimized=%-5s -> %r" % (label, optimized, out))
        raise core.Violation("\n".join(lines))
    rows = next(iter(obs.values()))
    if rows[0][2] == ("load", "TemplateSyntaxError") or rows[0][2] == ("load", "TemplateAssertionError"):
        raise core.HarnessError("generated template does not parse: %r" % (variants[0][1],))


def _uses_flag(body):
    for s in cg.walk_stmts(body):
        if s[0] == "autoescape" and s[1] in ("flag", "notflag"):
            return True
    for e in cg.walk_exprs(body):
        for n in cg.walk_expr(e):
            if n[0] == "name" and n[1] == "flag":
                return True
    return False


def finalize_hazard(cfg, body):
    """Known finding: finalize (evaluated at compile time) + statically active autoescape + a constant none in an output."""
    if cfg.get("finalize", "off") not in ("none_empty", "env_none_empty"):
        return False
    for s, region in cg.regions(body):
        if s[0] != "out" and s[0] != "macro":
            continue
        active = region == "true" or (region == "env" and cfg.get("autoescape"))
        if not active:
            continue
        for e in ([s[1]] if s[0] == "out" else s[4]):
            if any(n[0] == "const" and n[1] is None for n in cg.walk_expr(e)):
                return True
    return False


def _check(case, allow_known=False):
    cfg = case["env"]
    if case.get("kind", "gen") == "src":
        variants = [("V%d" % i, v["src"], gdata.decode_context(v.get("ctx", {}))) for i, v in enumerate(case["variants"])]
        flags = case.get("flags", [True])
        obs, raws, counters = _observe(cfg, variants, flags)
        _judge(cfg, variants, obs)
        folded = raws[True] != raws[False] or counters["const_out"] > 0
        return core.Outcome(folded, ["kind_src"])

    body = case["body"]
    try:
        cg.guard(body)
    except cg.GuardError:
        raise core.Excluded() from None
    if not allow_known:
        if EXCLUDE_FINALIZE_AUTOESCAPE and finalize_hazard(cfg, body):
            raise core.Excluded()
        if EXCLUDE_STRICT_LOAD_ERROR and cfg.get("undefined") == "strict" and cg.strict_hazard(body):
            raise core.Excluded()
        if EXCLUDE_CONST_SLICE and cg.slice_hazard(body):
            raise core.Excluded()
    style = case.get("style", 0)
    variants = [("A", cg.print_body(body, style), {})]
    nunits = len(cg.units(body))
    nlifted = 0
    for k, chosen in enumerate(case.get("lifts", [])):
        chosen = [i for i in chosen if 0 <= i < nunits]
        lifted, bindings = cg.lift(body, chosen)
        nlifted += len(bindings)
        variants.append(("B%d" % k, cg.print_body(lifted, style), bindings))
    flags = [True, False] if _uses_flag(body) else [True]
    obs, raws, counters = _observe(cfg, variants, flags)
    _judge(cfg, variants, obs)

    labels = set(cg.body_labels(body))
    labels.add("env_autoescape_on" if cfg.get("autoescape") else "env_autoescape_off")
    labels.add("finalize_" + cfg.get("finalize", "off"))
    labels.add("undefined_" + cfg.get("undefined", "default"))
    folded_opt = raws[True] is not None and raws[True] != raws[False]
    if folded_opt:
        labels.add("folded_by_optimizer")
    if counters["const_out"]:
        labels.add("folded_at_output")
    if counters["computed_out"]:
        labels.add("folded_at_output_computed")
    nontrivial = folded_opt or counters["const_out"] > 0
    if nontrivial:
        labels.add("folded")
    labels.add("lifted_0" if nlifted == 0 else "lifted_1_3" if nlifted <= 3 else "lifted_4plus")
    first = obs[flags[0]][0][2]
    labels.add("outcome_ok" if first[0] == "ok" else "outcome_%s_%s" % first)
    if len(flags) == 2:
        labels.add("flag_both")
        if obs[True][0][2] != obs[False][0][2]:
            labels.add("flag_changes_output")
    return core.Outcome(nontrivial, sorted(labels))


def check_case(case):
    return _check(case)


def check_known(entry):
    """Known findings are replayed without the by-construction exclusions."""
    return _check(entry["case"], allow_known=True)


# ---------------------------------------------------------------------------------------------------------------------


def cases(max_depth, max_stmts):
    base = cg.templates(max_depth, max_stmts)

    def fix(case):
        """Exclusion of the listed findings' input classes by construction (the drawn case is repaired, not rejected)."""
        if EXCLUDE_CONST_SLICE and cg.slice_hazard(case["body"]):
            def wrap(e):
                e = cg.map_children(e, wrap)
                if e[0] == "slice" and not cg.sliceable(e[1]):
                    e = ["slice", ["filter", "string", e[1], [], []]] + e[2:]
                return e
            case = dict(case, body=cg.map_body_exprs(case["body"], wrap))
        if EXCLUDE_STRICT_LOAD_ERROR and case["env"].get("undefined") == "strict" and cg.strict_hazard(case["body"]):
            case = dict(case, env=dict(case["env"], undefined="default"))
        # a constant none in an output under finalize + active autoescape becomes ''
        if EXCLUDE_FINALIZE_AUTOESCAPE and finalize_hazard(case["env"], case["body"]):
            def tr(e):
                if e[0] == "const" and e[1] is None:
                    return ["const", ""]
                return cg.map_children(e, tr)
            body = case["body"]
            active_env = bool(case["env"].get("autoescape"))
            case = dict(case, body=_map_active_outputs(body, tr, "true" if active_env else "env0"))
        return case

    return base.map(fix)


def _map_active_outputs(body, tr, region):
    out = []
    for s in body:
        k = s[0]
        active = region == "true"
        if k == "out" and active:
            out.append(["out", tr(s[1])])
        elif k == "macro":
            out.append([k, s[1], s[2], _map_active_outputs(s[3], tr, region), [tr(c) for c in s[4]] if active else s[4]])
        elif k == "setblock":
            out.append([k, s[1], _map_active_outputs(s[2], tr, region)])
        elif k == "if":
            out.append([k, s[1], _map_active_outputs(s[2], tr, region), None if s[3] is None else _map_active_outputs(s[3], tr, region)])
        elif k in ("for", "with", "filterblock"):
            out.append([k, s[1], s[2], _map_active_outputs(s[3], tr, region)])
        elif k == "autoescape":
            out.append([k, s[1], _map_active_outputs(s[2], tr, s[1])])
        else:
            out.append(s)
    return out


def shards(tier):
    return [{"i": i} for i in range(16)]


def run_shard(spec, ctx):
    rec = core.Rec()
    n = ctx.pick(900, 13500)
    core.hyp_shard(cases(ctx.pick(3, 4), ctx.pick(4, 5)), check_case, ctx, n, rec=rec, tag="deep")
    if not rec.violations:
        core.hyp_shard(cases(2, 3), check_case, ctx, n // 2, rec=rec, tag="shallow")
    return rec


FLOOR_LABELS = {
    "block_true": 0.06, "block_false": 0.05, "block_flag": 0.1, "block_notflag": 0.04, "block_nested": 0.05,
    "env_autoescape_on": 0.15, "env_autoescape_off": 0.3, "markup_const": 0.3, "concat": 0.2, "filter_arg": 0.15,
    "macro_default": 0.02, "stmt_if": 0.07, "stmt_set": 0.15, "subscript_literal": 0.1, "cond": 0.08, "cond_no_else": 0.04,
    "test": 0.04, "cmp": 0.09, "arith": 0.2, "pow": 0.04, "folded_by_optimizer": 0.2, "folded_at_output": 0.35,
    "flag_both": 0.2, "flag_changes_output": 0.03, "out_in_volatile": 0.1, "stmt_msafe": 0.05, "finalize_none_empty": 0.02,
    "finalize_env_none_empty": 0.01, "finalize_ctx_none_empty": 0.01, "undefined_strict": 0.03, "lifted_4plus": 0.25,
}


def floors(total, tier):
    n = total.evaluations - total.discarded - total.excluded
    if not n:
        return "no judged cases"
    if total.excluded > 0.05 * total.evaluations:
        return "excluded %d of %d cases (> 5 %%)" % (total.excluded, total.evaluations)
    if total.labels.get("folded", 0) < 0.6 * n:
        return "folded %d of %d judged cases (< 60 %%)" % (total.labels.get("folded", 0), n)
    for lab, frac in FLOOR_LABELS.items():
        if total.labels.get(lab, 0) < frac * n:
            return "label %s seen %d times in %d judged cases (< %.0f %%)" % (lab, total.labels.get(lab, 0), n, frac * 100)
    return None
