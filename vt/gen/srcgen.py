"""Template *source* generators for C01 (and anyone who wants raw template text).

Everything here is pure data / Hypothesis strategies; nothing imports jinja2, and nothing consults
Jinja's lexer: the tokenisation used by the mutator and by ``measure`` is a harness-side regex
scanner written from the documented template syntax.

  ENVS / delims(env)        the seven C01 configurations (keyword arguments, delimiters)
  fragments(env)            the fragment alphabet of a configuration
  enum_short(env, n)        every concatenation of exactly n fragments (itertools)
  measure(src, env)         harness-side size measures: block nesting, expression nesting,
                            operator chain length, numeric magnitudes, '*' counts
  excluded_reason(m)        why a measured input is outside C01's decided domain (or None)
  templates(env)            Hypothesis strategy: grammar-generated template sources (valid by
                            construction most of the time, identifiers biased towards trouble)
  tokenize_flat(src, env)   lossless flat tokenisation used by the mutator
  mutated(env)              Hypothesis strategy: token-level mutations of grammar output / seeds
  SEEDS                     template strings lifted from /repo/tests (static copy)
"""
import itertools
import re
import unicodedata

MAX_LEN = 400
MAX_BLOCK_DEPTH = 15  # excluded when measured block nesting >= this
MAX_EXPR_DEPTH = 30  # excluded when bracket depth + unary run >= this
MAX_CHAIN = 40  # excluded when one tag holds >= this many nesting-capable operator tokens
MAX_FOR_WORDS = 15  # conservative whole-source guard against CPython's 20 static blocks

# ---------------------------------------------------------------------------------------
# configurations

EXTENSIONS = ["jinja2.ext.i18n", "jinja2.ext.do", "jinja2.ext.loopcontrols", "jinja2.ext.debug"]

ENVS = {
    "default": {},
    "custom": dict(
        block_start_string="<%", block_end_string="%>", variable_start_string="${", variable_end_string="}",
        comment_start_string="<!--", comment_end_string="-->",
    ),
    "line": dict(line_statement_prefix="#", line_comment_prefix="##"),
    "trim": dict(trim_blocks=True, lstrip_blocks=True),
    "async": dict(enable_async=True),
    "sandbox": {},  # SandboxedEnvironment()
    "ext": dict(extensions=EXTENSIONS),
}
ENV_NAMES = list(ENVS)


class Delims:
    __slots__ = ("bs", "be", "vs", "ve", "cs", "ce", "ls", "lc")

    def __init__(self, kw):
        self.bs = kw.get("block_start_string", "{%")
        self.be = kw.get("block_end_string", "%}")
        self.vs = kw.get("variable_start_string", "{{")
        self.ve = kw.get("variable_end_string", "}}")
        self.cs = kw.get("comment_start_string", "{#")
        self.ce = kw.get("comment_end_string", "#}")
        self.ls = kw.get("line_statement_prefix")
        self.lc = kw.get("line_comment_prefix")

    def starts(self):
        return [x for x in (self.bs, self.vs, self.cs, self.ls, self.lc) if x]

    def all(self):
        return [x for x in (self.bs, self.be, self.vs, self.ve, self.cs, self.ce, self.ls, self.lc) if x]


_DELIMS = {name: Delims(kw) for name, kw in ENVS.items()}


def delims(env):
    return _DELIMS[env]


# ---------------------------------------------------------------------------------------
# stream 1: fragment alphabet + exhaustive enumeration

_BASE_FRAGMENTS = [
    "-", "+", " ", "\n", "\r", "\r\n", "raw", "endraw", "if", "x", "'", '"', "(", ")", "[", "]", "|", ".", "1",
    "for", "in", "endfor", "set", "=", "block", "endblock", "macro", "endmacro", "call", "filter", "{", "}", ",",
    ":", "~", "*", "is", "not", "else", "elif", "endif", "with", "include", "import", "from", "extends",
    "autoescape", "trans", "loop", "super", "1.", "0x", "_", "é", "\\", "\u0d70", "'\\n'",
]


def fragments(env):
    d = delims(env)
    out = []
    for f in [d.bs, d.be, d.vs, d.ve, d.cs, d.ce] + ([d.ls, d.lc] if d.ls else []) + _BASE_FRAGMENTS:
        if f not in out:
            out.append(f)
    if env == "ext":
        out += ["endtrans", "pluralize", "do", "break"]
    return out


def enum_short(env, n):
    """All concatenations of exactly n fragments, as (string) in a fixed order."""
    fr = fragments(env)
    for combo in itertools.product(fr, repeat=n):
        yield "".join(combo)


# ---------------------------------------------------------------------------------------
# harness-side scanner: measures

_NUM_RE = re.compile(r"0[xXoObB][\da-fA-F_]+|\d[\d_]*(?:\.[\d_]+)?(?:[eE][+-]?[\d_]+)?")
_LINEBREAK_RE = re.compile(r"\r\n|\r|\n")
_EXPR_TOK_RE = re.compile(
    r"""(?P<ws>\s+)|(?P<str>'(?:[^'\\]|\\.)*'|"(?:[^"\\]|\\.)*")|(?P<num>\d[\w.]*)|(?P<word>[^\W\d]\w*)"""
    r"""|(?P<op>\*\*|//|==|!=|<=|>=|[-+*/%~\[\](){}<>=.:|,;!])|(?P<other>.)""",
    re.S,
)
_BLOCK_OPENERS = {"for", "if", "macro", "call", "filter", "block", "with", "autoescape", "trans", "set", "raw"}
_WORD_OPS = {"and", "or", "not", "in", "is", "if", "else"}
_FLAT_OPS = {",", ":", "=", ";", ")", "]", "}"}  # tokens that do not deepen the expression tree
_FOR_RE = re.compile(r"(?<![^\W\d])for(?!\w)")


def line_breaks(src):
    return len(_LINEBREAK_RE.findall(src))


def _num_value(text):
    t = text.replace("_", "")
    try:
        return abs(int(t, 0))
    except ValueError:
        pass
    try:
        return abs(float(t))
    except ValueError:
        return None


def magnitudes(src):
    """(largest numeric literal anywhere in the text incl. inside strings, or None when a
    number-like run cannot be evaluated; longest number-like run; whether a float-shaped run
    holds a non-ASCII digit)."""
    big = 0
    longest = 0
    odd_float = False
    for m in _NUM_RE.finditer(src):
        text = m.group()
        longest = max(longest, len(text))
        if not text.isascii() and not text.isdecimal() and not text.replace("_", "").isdecimal():
            odd_float = True
        v = _num_value(text)
        if v is None or v != v:
            return None, longest, odd_float
        big = max(big, v)
    return big, longest, odd_float


_ROOT_RE = {}


def _root_re(env):
    r = _ROOT_RE.get(env)
    if r is None:
        d = delims(env)
        alts = [("b", d.bs), ("v", d.vs), ("c", d.cs)]
        alts.sort(key=lambda kv: -len(kv[1]))
        parts = ["(?P<%s>%s)" % (k, re.escape(v)) for k, v in alts]
        if d.lc:
            parts.insert(0, r"(?P<lc>^[ \t\v\f]*%s)" % re.escape(d.lc))
        if d.ls:
            parts.insert(1 if d.lc else 0, r"(?P<ls>^[ \t\v\f]*%s)" % re.escape(d.ls))
        r = _ROOT_RE[env] = (re.compile("|".join(parts), re.M), re.compile(re.escape(d.bs) + r"[-+]?\s*endraw"))
    return r


def measure(src, env):
    """Harness-side measures of a source string under configuration ``env``."""
    d = delims(env)
    orig = src
    if "\r" in src:
        src = _LINEBREAK_RE.sub("\n", src)
    n = len(src)
    pos = 0
    stack = []
    loopctl_outside = False
    max_block = 0
    max_expr = 0
    max_chain = 0
    ntags = 0
    root_re, endraw_re = _root_re(env)
    end_block, end_var = d.be, d.ve

    def scan_tag(pos, end, line):
        """Scan expression tokens from pos to the end delimiter (when brackets are balanced, like
        the documented lexer) or end of line for line statements.  Returns (newpos, first word,
        has_assign, bracket depth max, unary run max, operator count)."""
        first = None
        bal = 0
        maxbal = 0
        run = 0
        maxrun = 0
        ops = 0
        assign = False
        if not line and src.startswith(("-", "+"), pos):
            pos += 1
        while pos < n:
            if line:
                if bal == 0 and src[pos] in "\r\n":
                    return pos, first, assign, maxbal, maxrun, ops
            elif bal == 0 and (src.startswith(end, pos) or (src.startswith(end, pos + 1) and src[pos] in "-+")):
                return pos + len(end) + (0 if src.startswith(end, pos) else 1), first, assign, maxbal, maxrun, ops
            m = _EXPR_TOK_RE.match(src, pos)
            kind = m.lastgroup
            text = m.group()
            pos = m.end()
            if kind == "ws":
                continue
            if kind == "word":
                if first is None:
                    first = text
                if text in _WORD_OPS:
                    ops += 1
                run = run + 1 if text == "not" else 0
            elif kind == "op":
                if first is None:
                    first = ""
                if text not in _FLAT_OPS:
                    ops += 1
                if text in "([{":
                    bal += 1
                    maxbal = max(maxbal, bal)
                    run = 0
                elif text in ")]}":
                    bal = max(0, bal - 1)
                    run = 0
                elif text in "-+":
                    run += 1
                else:
                    run = 0
                    if text == "=":
                        assign = True
            else:
                if first is None:
                    first = ""
                run = 0
            maxrun = max(maxrun, run)
        return n, first, assign, maxbal, maxrun, ops

    while pos < n:
        m = root_re.search(src, pos)
        if m is None:
            break
        kind = m.lastgroup
        pos = m.end()
        ntags += 1
        if kind == "c":
            e = src.find(d.ce, pos)
            pos = n if e < 0 else e + len(d.ce)
            continue
        if kind == "lc":
            e = _LINEBREAK_RE.search(src, pos)
            pos = n if e is None else e.start()
            continue
        pos, first, assign, bal, run, ops = scan_tag(pos, end_var if kind == "v" else end_block, kind == "ls")
        max_expr = max(max_expr, bal + run)
        max_chain = max(max_chain, ops)
        if kind in ("b", "ls"):
            if first == "raw":
                e = endraw_re.search(src, pos)
                if e is None:
                    pos = n
                else:
                    pos = e.start()
                continue
            if first in _BLOCK_OPENERS and not (first == "set" and assign):
                stack.append(first)
                max_block = max(max_block, len(stack))
            elif first and first.startswith("end") and stack:
                stack.pop()
            elif first in ("break", "continue"):
                for opener in reversed(stack):
                    if opener == "for":
                        break
                    if opener in ("macro", "call", "block"):
                        loopctl_outside = True
                        break
                else:
                    loopctl_outside = True
    src = orig
    big, longest, odd_float = magnitudes(src)
    return {
        "env": env,
        "len": len(src),
        "block": max_block,
        "expr": max_expr,
        "chain": max_chain,
        "fors": len(_FOR_RE.findall(src)),
        "num": big,
        "numlen": longest,
        "stars": src.count("*"),
        "pow": "**" in src,
        "tags": ntags,
        "loopctl_outside": loopctl_outside,
        "odd_float": odd_float,
        "nfkc": src.isascii() or unicodedata.is_normalized("NFKC", src),
        "surrogate": any("\ud800" <= ch <= "\udfff" for ch in src) if not src.isascii() else False,
    }


def excluded_reason(m):
    """Why the measured input is outside the domain C01 decides (None = inside)."""
    if m["len"] > MAX_LEN:
        return "length"
    if m["surrogate"]:
        return "not_unicode"  # lone surrogates are not Unicode text
    if not m["nfkc"]:
        return "nfkc_ident"  # F37/F1: Python NFKC-normalises identifiers of the generated code
    if m["block"] >= MAX_BLOCK_DEPTH or m["fors"] >= MAX_FOR_WORDS:
        return "block_depth"  # F2: CPython's static nesting limits
    if m["expr"] >= MAX_EXPR_DEPTH or m["chain"] >= MAX_CHAIN:
        return "expr_depth"  # F2: recursion limits
    # F19 (unbounded constant folding): every generator keeps magnitudes small
    if m["num"] is None or m["numlen"] > 12:
        return "magnitude"
    if m["pow"]:
        if m["stars"] > 2 or m["num"] > 7:
            return "magnitude"
    elif m["stars"]:
        if m["stars"] > 2 or m["num"] > 99:
            return "magnitude"
    elif m["num"] > 999:
        return "magnitude"
    return None


def has_delimiter(src, env):
    """C01's non-triviality rule: the source holds a delimiter start of the configuration."""
    d = delims(env)
    return any(s in src for s in d.starts())


# ---------------------------------------------------------------------------------------
# flat tokenisation for the mutator (lossless: "".join(tokens) == src)


def _flat_re(env):
    d = delims(env)
    dl = sorted(set(d.all()), key=lambda s: -len(s))
    alt = "|".join(re.escape(x) + ("[-+]?" if x in (d.bs, d.vs, d.cs) else "") for x in dl)
    return re.compile(
        r"[-+]?(?:%s)|\r\n|\r|\n|[ \t]+|'(?:[^'\\\n]|\\.)*'|\"(?:[^\"\\\n]|\\.)*\"|\d[\d_]*(?:\.\d[\d_]*)?(?:[eE][+-]?\d+)?"
        r"|[^\W\d]\w*|\*\*|//|==|!=|<=|>=|." % alt,
        re.S,
    )


_FLAT_CACHE = {}


def tokenize_flat(src, env):
    r = _FLAT_CACHE.get(env)
    if r is None:
        r = _FLAT_CACHE[env] = _flat_re(env)
    return r.findall(src)


# ---------------------------------------------------------------------------------------
# stream 2: grammar-based template sources (Hypothesis strategy)

SIMPLE_IDENTS = ["x", "y", "a", "b", "item", "foo", "bar", "n", "key", "seq", "user", "m", "f"]
TROUBLE_IDENTS = [
    # Python keywords that are ordinary names in templates
    "class", "def", "lambda", "return", "yield", "while", "try", "except", "finally", "raise", "global", "nonlocal",
    "del", "pass", "assert", "async", "await", "with", "import", "from", "as", "match", "case", "type", "print", "exec",
    "None", "True", "False", "none", "true", "false",
    # dunder / debug names
    "__debug__", "__class__", "__init__", "__name__", "__builtins__", "__import__", "__dict__", "_", "__", "___",
    # names the generated code uses itself
    "context", "environment", "resolve", "missing", "caller", "_loop_vars", "_block_vars", "t_1", "t_2", "t_3",
    "l_0_x", "l_1_x", "l_1_loop", "l_0_loop", "gen", "template", "name", "blocks", "debug_info", "root", "self", "super",
    "loop", "varargs", "kwargs", "undefined", "escape", "markup_join", "str_join", "Markup", "concat", "str",
    "cond_expr_undefined", "parent_template", "included_template", "event", "rv", "reciter", "loop_render_func",
    "depth", "macro", "fiter", "eval_ctx", "resolve_or_missing", "TemplateRuntimeError", "Namespace", "LoopContext",
    "Macro", "identity", "auto_await", "auto_aiter", "exported", "exported_names", "block_b", "block_x", "Undefined",
    "TemplateNotFound", "dict", "range", "namespace", "cycler", "joiner", "lipsum", "_get_default_module", "agen",
    # non-ASCII (NFKC-stable) and unusual but valid identifiers
    "é", "naïve", "переменная", "变量", "x1", "_x", "X", "x_", "ß", "Ω",
]
# lexed as names by the name pattern but not identifiers (digits / marks / numerics of other scripts; NFKC-stable)
WEIRD_NAMES = ["\u0663", "\u0663x", "\u0300a", "\u0d70", "x\u0d70", "\u09e7", "\u00b7x", "x\u00b7", "\u212e", "a\u203fb"]
FILTERS = [
    "e", "upper", "lower", "trim", "default", "d", "length", "join", "list", "first", "last", "int", "float", "string",
    "safe", "escape", "abs", "attr", "batch", "capitalize", "center", "count", "dictsort", "filesizeformat",
    "forceescape", "format", "groupby", "indent", "items", "map", "max", "min", "pprint", "random", "reject",
    "rejectattr", "replace", "reverse", "round", "select", "selectattr", "slice", "sort", "striptags", "sum", "title",
    "tojson", "truncate", "unique", "urlencode", "urlize", "wordcount", "wordwrap", "xmlattr",
]
TESTS = [
    "defined", "undefined", "none", "odd", "even", "string", "number", "mapping", "sequence", "iterable", "callable",
    "boolean", "false", "true", "integer", "float", "lower", "upper", "escaped", "divisibleby", "eq", "equalto", "ne",
    "gt", "ge", "lt", "le", "greaterthan", "lessthan", "sameas", "in", "filter", "test",
]
STRINGS = [
    '"a\\nb\\nc"', "'\\r\\n\\r\\n'", '"\\n\\n\\n"', "'\\x0a\\u000a'",
    '"a"', "'b'", '""', "''", '"a b"', "'it\\'s'", '"q\\"q"', '"\\n"', "'\\x41'", '"\\u00e9"', '"\\N{BULLET}"', '"é"',
    "'{{'", '"%}"', "'#}'", '"\\\\"', "'a\\tb'", '"layout.html"', "'%s-%s'", '"%(a)s"', '"<b>"', "'\\q'", '"x\\\ny"',
    '"}"', "'${'", '"-->"', "'\\x'", '"\\N{nope}"', "'\\u12'", '"\\U99999999"', "'\\'", "'a\\",
]
# names under which a share of the sources is loaded through a loader (the name is embedded in the
# generated code: module header, block functions, error positions, "does not export" messages)
TEMPLATE_NAME_POOL = [
    "t.html",
    "a\"b",
    "a'b",
    "a\"'b",
    "a\\b",
    "{x}",
    "{",
    "%s",
    "a\nb",
    "\U0001f600",
    "\"",
    "\\",
    "}}",
    "{{x}}",
    "%(n)s",
    "a\rb",
    "'''",
    "\"\"\"",
    "a\\",
    "\\\"",
    "${x}",
    "#",
    "{0}",
    "a b/c.txt",
    "\u00e9.html",
    "\\N{x}",
    "\\x",
    "{x!r}",
    "{%",
    "#}",
]
TEMPLATE_NAMES = ['"a"', "'b.html'", '"layout"', "name", "[\"a\", 'b']", '("a", "b")', "x.y", '"a" ~ x']
NUMBERS = ["0", "1", "2", "3", "7", "10", "42", "99", "1.5", "0.0", "2.5e1", "1e1", "0x1f", "0o7", "0b11", "1_0", "00", "1E1", "9_8.0_1"]
SMALL_NUMBERS = ["0", "1", "2", "3", "7", "1.5", "0x7", "0b11", "0o7", "00"]
DATA = [
    "text", " ", "  ", "\n", "\r\n", "\r", "\n\n", "<p>", "</p>", "é", "x y", "{", "}", "%", "$", "<", ">", "-", "+",
    "'", '"', "\\", "\t", "a#b", "100%", " # x", "##", "#", "{ {", "}}", "%}", "#}", "<!-", "->", "$ {", ":", "line\n",
    "\n  ", "  \n", " ", "\x0b", "\x0c", "\x85", "\x00", "﻿", "endraw", "raw", "a.b", "(", "]",
]
BINOPS = ["+", "-", "/", "//", "%", "~", "and", "or", "==", "!=", "<", ">", "<=", ">=", "in", "not in"]

class _Gen:
    """Recursive-descent *printer* driven by a byte string: every decision consumes one byte
    (0 = the simplest alternative; an exhausted string answers 0 forever, which terminates every
    production), so Hypothesis shrinks towards plain templates and the same builder serves the
    coverage-guided target."""

    def __init__(self, data, env):
        self.buf = data
        self.i = 0
        self.n = len(data)
        self.env = env
        self.d = delims(env)
        self.budget = 16 + self.c(40)
        self.pow_mode = self.c(6) == 5
        self.stars = 0
        self.seen = []  # identifiers used so far (re-used to provoke duplicates / shadowing)
        self.line_ok = self.d.ls is not None
        self.blocknames = 0

    # -- primitive choices -------------------------------------------------------------
    def c(self, n):
        i = self.i
        if n <= 1 or i >= self.n:
            return 0
        self.i = i + 1
        return self.buf[i] % n

    def p(self, num, den):
        return self.c(den) >= den - num  # rare alternative = high draw

    def pick(self, seq):
        return seq[self.c(len(seq))]

    def sp(self):
        return ("", " ", " ", "  ", "\t", "\n")[self.c(6)] if self.p(1, 4) else " "

    def ident(self):
        k = self.c(8)
        if k == 7 and self.p(1, 3):
            return self.pick(WEIRD_NAMES)
        if k < 4:
            v = self.pick(SIMPLE_IDENTS)
        elif k < 6 and self.seen:
            v = self.pick(self.seen)
        else:
            v = self.pick(TROUBLE_IDENTS)
        if len(self.seen) < 12:
            self.seen.append(v)
        return v

    def number(self):
        return self.pick(SMALL_NUMBERS if self.pow_mode else NUMBERS)

    # -- expressions -------------------------------------------------------------------
    def atom(self):
        k = self.c(10)
        if k < 4:
            return self.ident()
        if k < 6:
            return self.number()
        if k < 8:
            return self.pick(STRINGS)
        return self.pick(["true", "false", "none", "True", "False", "None", "loop.index", "loop", "self", "super()", "caller()", "varargs", "kwargs", "loop.cycle(1, 2)", "_('x')", "gettext('a')", "ngettext('a', 'b', n)"])

    def args(self, depth):
        out = []
        for _ in range(self.c(4)):
            out.append(self.expr(depth + 1))
        for _ in range(self.c(3)):
            out.append("%s%s=%s%s" % (self.ident(), self.pick(["", "", " "]), self.pick(["", "", " "]), self.expr(depth + 1)))
        if self.p(1, 8) and self.stars + 1 <= 2 and not self.pow_mode:
            self.stars += 1
            out.append("*" + self.ident())
        if self.p(1, 8) and self.stars == 0 and self.pow_mode:
            self.stars += 2
            out.append("**" + self.ident())
        if self.p(1, 10) and len(out) > 1:
            out.append(out[self.c(len(out))])  # duplicate argument (a duplicate keyword when it is one)
        sep = self.pick([", ", ", ", ","])
        return sep.join(out) + (self.pick(["", "", ","]) if out else "")

    def filter(self, depth):
        name = self.pick(FILTERS) if not self.p(1, 10) else self.ident()
        if self.p(1, 3):
            return "|%s(%s)" % (name, self.args(depth))
        return "|" + name

    def test(self, depth):
        name = self.pick(TESTS) if not self.p(1, 10) else self.ident()
        neg = " is not " if self.p(1, 3) else " is "
        k = self.c(4)
        if k < 2:
            return neg + name
        if k == 2:
            return neg + name + " " + self.atom()
        return neg + "%s(%s)" % (name, self.args(depth))

    def slice(self, depth):
        return "%s:%s%s" % (
            self.expr(depth + 1) if self.p(1, 2) else "",
            self.expr(depth + 1) if self.p(1, 2) else "",
            (":" + (self.expr(depth + 1) if self.p(1, 2) else "")) if self.p(1, 3) else "",
        )

    def postfixed(self, depth):
        s = self.atom()
        for _ in range(self.c(4)):  # attribute / subscript / call
            k = self.c(7)
            if k < 2:
                s += "." + self.ident()
            elif k == 2:
                s += "." + self.pick(["0", "1", "10"])
            elif k == 3:
                s += "[%s]" % self.expr(depth + 1)
            elif k == 4:
                parts = [self.slice(depth)]
                if self.p(1, 3):  # tuple subscript mixing slices and plain indices: x[a:b, c], x[::2, 1:]
                    for _ in range(1 + self.c(2)):
                        parts.append(self.slice(depth) if self.p(1, 2) else self.expr(depth + 1))
                    if self.p(1, 2):
                        parts.reverse()
                s += "[%s%s]" % (", ".join(parts), "," if self.p(1, 12) else "")
            else:
                s += "(%s)" % self.args(depth)
        for _ in range(self.c(3)):
            s += self.filter(depth)
        if self.p(1, 5):
            s += self.test(depth)
        return s

    def expr(self, depth=0, top=False):
        self.budget -= 1
        if depth > 3 or self.budget <= 0:
            return self.atom()
        k = self.c(16)
        if k < 5:
            return self.atom()
        if k < 8:
            return self.postfixed(depth)
        if k == 8:
            op = self.pick(BINOPS)
            if self.p(1, 6) and not self.pow_mode and self.stars < 2:
                self.stars += 1
                op = "*"
            elif self.p(1, 6) and self.pow_mode and self.stars == 0:
                self.stars += 2
                op = "**"
            s1, s2 = self.sp(), self.sp()
            if op.isalpha() or " " in op:
                s1, s2 = s1 or " ", s2 or " "
            return "%s%s%s%s%s" % (self.expr(depth + 1), s1, op, s2, self.expr(depth + 1))
        if k == 9:
            return self.pick(["-", "+", "not ", "- ", "not not ", "-+"]) + self.expr(depth + 1)
        if k == 10:
            if self.p(1, 3):
                e = "%s if %s" % (self.expr(depth + 1), self.expr(depth + 1))
            else:
                e = "%s if %s else %s" % (self.expr(depth + 1), self.expr(depth + 1), self.expr(depth + 1))
            return e if top or self.p(1, 8) else "(%s)" % e
        if k == 11:
            return "%s(%s)" % (self.ident(), self.args(depth))
        if k == 12:
            items = [self.expr(depth + 1) for _ in range(self.c(4))]
            br = self.c(3)
            if br == 0:
                return "[%s]" % ", ".join(items)
            if br == 1:
                return "(%s%s)" % (", ".join(items), "," if len(items) == 1 else "")
            return "{%s}" % ", ".join("%s: %s" % (self.expr(depth + 1), it) for it in items)
        if k == 13:
            return "(%s)" % self.expr(depth + 1)
        if k == 14:
            return "%s %s %s %s %s" % (self.expr(depth + 1), self.pick(["<", "<=", "==", "!=", ">", ">="]), self.expr(depth + 1), self.pick(["<", "==", "in", "not in"]), self.expr(depth + 1))
        return "%s ~ %s" % (self.expr(depth + 1), self.expr(depth + 1))

    def target(self):
        k = self.c(8)
        if k < 5:
            return self.ident()
        if k == 5:
            return "%s, %s" % (self.ident(), self.ident())
        if k == 6:
            return "(%s, %s)" % (self.ident(), self.ident())
        return "%s, (%s, %s)" % (self.ident(), self.ident(), self.ident())

    def params(self):
        out = []
        for _ in range(self.c(4)):
            out.append(self.ident())
        for _ in range(self.c(3)):
            out.append("%s=%s" % (self.ident(), self.expr(3)))
        if self.p(1, 10) and out:
            out.append(out[self.c(len(out))])
        return ", ".join(out)

    # -- tags --------------------------------------------------------------------------
    def tag(self, content, out):
        d = self.d
        if self.line_ok and self.p(1, 3) and "\n" not in content and "\r" not in content:
            cur = "".join(out[-1:])
            if out and not cur.endswith(("\n", "\r")):
                out.append(self.pick(["\n", "\n", "\r\n", "\r"]))
            out.append(self.pick(["", "", " ", "\t"]) + d.ls + self.pick([" ", " ", ""]) + content + self.pick(["", "", ":", " "]) + self.pick(["\n", "\n", "\r\n", "\r"]))
            return
        lsign = self.pick(["-", "+"]) if self.p(1, 6) else ""
        rsign = self.pick(["-", "+"]) if self.p(1, 6) else ""
        out.append("%s%s%s%s%s%s%s" % (d.bs, lsign, self.sp(), content, self.sp(), rsign, d.be))

    def output(self, out):
        d = self.d
        lsign = "-" if self.p(1, 8) else ""
        rsign = "-" if self.p(1, 8) else ""
        e = self.expr(0, top=True)
        if d.ve == "}" and e.endswith("}"):
            e += " "
        out.append("%s%s%s%s%s%s%s" % (d.vs, lsign, self.sp(), e, self.sp(), rsign, d.ve))

    def data(self, out):
        for _ in range(1 + self.c(3)):
            out.append(self.pick(DATA))

    def body(self, depth, out):
        for _ in range(self.c(4)):
            self.stmt(depth, out)

    def stmt(self, depth, out):
        self.budget -= 1
        leaf = depth >= 4 or self.budget <= 0
        k = self.c(30)
        if k < 4:
            return self.data(out)
        if k < 9:
            return self.output(out)
        if k == 9:
            return self.tag("set %s = %s" % (self.target() if self.p(1, 2) else (self.ident() + "." + self.ident() if self.p(1, 4) else self.ident()), self.expr(1)), out)
        if k == 10:
            inc = "include " + self.pick(TEMPLATE_NAMES)
            if self.p(1, 3):
                inc += " ignore missing"
            if self.p(1, 3):
                inc += self.pick([" with context", " without context"])
            return self.tag(inc, out)
        if k == 11:
            if self.p(1, 2):
                return self.tag("import %s as %s%s" % (self.pick(TEMPLATE_NAMES), self.ident(), self.pick(["", "", " with context", " without context"])), out)
            names = ", ".join(self.ident() + ((" as " + self.ident()) if self.p(1, 3) else "") for _ in range(1 + self.c(3)))
            return self.tag("from %s import %s%s" % (self.pick(TEMPLATE_NAMES), names, self.pick(["", "", " with context", ","])), out)
        if k == 12:
            d = self.d
            return out.append(d.cs + self.pick(["", "-", "+"]) + self.pick([" c ", "", " {{ x }} ", "\n", " %} ", "{% if %}", "é", " # "]) + self.pick(["", "-", "+"]) + d.ce)
        if k == 13:
            d = self.d
            inner = self.pick(["", " ", "{{ x }}", "{% if %}", "{#", "text", "\n", d.vs + " y " + d.ve, d.bs + " endfor " + d.be, d.cs])
            self.tag("raw", out)
            out.append(inner)
            return self.tag("endraw", out)
        if k == 14:
            if self.env == "ext" or self.p(1, 8):
                kk = self.c(6)
                if kk == 0:
                    return self.tag("do " + self.expr(1), out)
                if kk == 1:
                    return self.tag("debug", out)
                if kk == 2:
                    return self.tag(self.pick(["break", "continue"]), out)
                tr = "trans"
                if self.p(1, 2):
                    tr += " " + ", ".join("%s=%s" % (self.ident(), self.expr(2)) for _ in range(1 + self.c(2)))
                if self.p(1, 4):
                    tr += self.pick([" trimmed", " notrimmed"])
                self.tag(tr, out)
                out.append(self.pick(["Hello", "%", "%(x)s", "a  b\n c", "{{ x }}", self.d.vs + " " + self.ident() + " " + self.d.ve, "100%%"]))
                if self.p(1, 3):
                    self.tag("pluralize" + (" " + self.ident() if self.p(1, 2) else ""), out)
                    out.append(self.pick(["many", self.d.vs + " n " + self.d.ve, "%"]))
                return self.tag("endtrans", out)
            return self.output(out)
        if k == 15 and depth == 0:
            return self.tag("extends " + self.pick(TEMPLATE_NAMES), out)
        if leaf:
            return self.output(out)
        if k < 19:
            t = "for %s in %s" % (self.target(), self.expr(1))
            if self.p(1, 4):
                t += " if " + self.expr(1)
            if self.p(1, 6):
                t += " recursive"
            self.tag(t, out)
            self.body(depth + 1, out)
            if self.p(1, 8):
                out.append(self.d.vs + " loop(" + self.ident() + ") " + self.d.ve)
            if self.env == "ext" and self.p(1, 6):
                self.tag(self.pick(["break", "continue"]), out)
            if self.p(1, 4):
                self.tag("else", out)
                self.body(depth + 1, out)
            return self.tag("endfor", out)
        if k < 22:
            self.tag("if " + self.expr(1), out)
            self.body(depth + 1, out)
            for _ in range(self.c(3) if self.p(1, 3) else 0):
                self.tag("elif " + self.expr(1), out)
                self.body(depth + 1, out)
            if self.p(1, 3):
                self.tag("else", out)
                self.body(depth + 1, out)
            return self.tag("endif", out)
        if k == 22:
            name = self.ident()
            self.tag("macro %s(%s)" % (name, self.params()), out)
            self.body(depth + 1, out)
            return self.tag("endmacro", out)
        if k == 23:
            t = "call"
            if self.p(1, 3):
                t += "(%s)" % self.params()
            t += " %s(%s)" % (self.ident() + (("." + self.ident()) if self.p(1, 4) else ""), self.args(1))
            self.tag(t, out)
            self.body(depth + 1, out)
            return self.tag("endcall", out)
        if k == 24:
            f = self.pick(FILTERS) if not self.p(1, 8) else self.ident()
            if self.p(1, 3):
                f += "(%s)" % self.args(1)
            if self.p(1, 3):
                f += "|" + self.pick(FILTERS)
            self.tag("filter " + f, out)
            self.body(depth + 1, out)
            return self.tag("endfilter", out)
        if k == 25:
            self.blocknames += 1
            name = self.pick(["b%d" % self.blocknames, "b%d" % self.blocknames, "b%d" % self.blocknames, self.ident(), "b1"])
            t = "block " + name
            if self.p(1, 4):
                t += " scoped"
            if self.p(1, 10):
                t += " required"
            self.tag(t, out)
            self.body(depth + 1, out)
            if self.p(1, 6):
                out.append(self.d.vs + " super() " + self.d.ve)
            return self.tag("endblock" + ((" " + name) if self.p(1, 3) else ""), out)
        if k == 26:
            self.tag("with " + ", ".join("%s=%s" % (self.ident(), self.expr(2)) for _ in range(self.c(3))), out)
            self.body(depth + 1, out)
            return self.tag("endwith", out)
        if k == 27:
            self.tag("autoescape " + (self.pick(["true", "false", "x", "none", "1"]) if self.p(2, 3) else self.expr(1)), out)
            self.body(depth + 1, out)
            return self.tag("endautoescape", out)
        if k == 28:
            t = "set " + self.ident()
            if self.p(1, 3):
                t += " | " + self.pick(FILTERS)
            self.tag(t, out)
            self.body(depth + 1, out)
            return self.tag("endset", out)
        if depth == 0 and self.p(1, 3):
            return self.deep(out)
        return self.output(out)

    # -- nesting close to (but under) the measured bounds --------------------------------
    def deep(self, out):
        d = self.d
        k = self.c(8)
        if k == 0:
            n = 8 + self.c(MAX_BLOCK_DEPTH - 8)  # up to 14 nested blocks of mixed kinds
            kinds = [("for x in y", "endfor"), ("if x", "endif"), ("with", "endwith"), ("filter e", "endfilter"),
                     ("macro m()", "endmacro"), ("call m()", "endcall"), ("set z", "endset"), ("autoescape 1", "endautoescape")]
            if self.p(1, 2):
                kinds = kinds[:1] * 8
            chosen = [self.pick(kinds) for _ in range(n)]
            s = "".join(d.bs + o + d.be for o, _ in chosen)
            s += self.pick(["", d.vs + "x" + d.ve, d.bs + "include 'a'" + d.be])
            s += "".join(d.bs + c + d.be for _, c in reversed(chosen))
            out.append(s)
            return
        n = 12 + self.c(MAX_EXPR_DEPTH - 13)  # up to 28
        x = self.pick(["x", "1", "'a'"])
        if k == 1:
            e = "(" * n + x + ")" * n
        elif k == 2:
            e = "[" * n + x + "]" * n
        elif k == 3:
            n = min(n, 12)
            e = "{1:" * n + x + "}" * n + " "
        elif k == 4:
            e = self.pick(["-", "+", "not ", "- "]) * n + x
        elif k == 5:
            n = min(n, 19)
            e = "f(" * n + x + ")" * n
        elif k == 6:
            e = x + "".join(self.pick([".a", "|e", "()", "[0]", "+x", "~x", " and x", "|d(1)"]) for _ in range(min(n, 19)))
        else:
            e = x + " if x else x" * min(n, 12)
        out.append(d.vs + " " + e + " " + d.ve)


def build_template(data, env):
    """bytes -> template source (<= 400 characters) for configuration ``env``; pure."""
    g = _Gen(data, env)
    parts = []
    total = 0
    for _ in range(1 + g.c(6)):
        out = []
        g.stmt(0, out)
        s = "".join(out)
        if total + len(s) > MAX_LEN:
            continue  # drop a whole top-level statement rather than cutting one in the middle
        parts.append(s)
        total += len(s)
    src = "".join(parts)
    if g.p(1, 6):  # end of input in the middle of the template, at a token boundary
        src = truncate(src, env, g.c(4), g.c(251))
    return src


def templates(env):
    """Strategy for grammar-generated template sources of configuration ``env`` (<= 400 characters)."""
    from hypothesis import strategies as st

    return st.binary(min_size=24, max_size=480).map(lambda b: build_template(b, env))


# ---------------------------------------------------------------------------------------
# stream 3: token-level mutation

_OTHER_DELIMS = ["{%", "%}", "{{", "}}", "{#", "#}", "<%", "%>", "${", "<!--", "-->", "#", "##", "{%-", "-%}", "{{-", "-}}", "{%+", "+%}", "{#-", "-#}"]
INJECT = _OTHER_DELIMS + [
    "-", "+", "'", '"', "(", ")", "[", "]", "{", "}", "\r", "\n", "\r\n", " ", "\\", ",", ":", "=", "|", ".", "~", "*", "/", "%",
    "!", ";", "<", ">", "==", "!=", "if", "else", "elif", "endif", "for", "in", "endfor", "is", "not", "and", "or", "set",
    "endset", "block", "endblock", "macro", "endmacro", "call", "endcall", "filter", "endfilter", "raw", "endraw", "with",
    "endwith", "include", "import", "from", "as", "extends", "autoescape", "endautoescape", "trans", "endtrans", "pluralize",
    "do", "break", "continue", "debug", "recursive", "scoped", "required", "ignore", "missing", "context", "without",
    "0x", "1.", "1e", "0b1", "1_0", "09", "1__0", "0_", ".5", "1.e1", "0X1F", "1j", "\x00", " ", "\x85", "﻿", "é",
    "\x0b", "\x0c", "\t", "\\N{", "\\x", "\\u12", "\u0663", "\u0d70", "\u0300", "\u00b7", "'''", '"""', "@", "$", "`", "?", "^", "&", "<<", "**", "//", "->", ":=",
]


def _is_string(tok):
    return len(tok) >= 2 and tok[0] in "'\"" and tok[-1] == tok[0]


def truncate(src, env, how, k):
    """Cut ``src`` at a token boundary: how 0/1 = after the k-th token, 2/3 = directly after the k-th
    string literal (keeping it), preferring literals that hold escape sequences."""
    toks = tokenize_flat(src, env)
    if not toks:
        return src
    if how >= 2:
        idx = [t for t in range(len(toks)) if _is_string(toks[t])]
        esc = [t for t in idx if "\\" in toks[t]]
        idx = esc if esc and how == 3 else idx
        if idx:
            return "".join(toks[: idx[k % len(idx)] + 1])
    return "".join(toks[: 1 + k % len(toks)])


def mutate(src, other, ops, env):
    """Apply token-level edit operations (tuples of small ints) to ``src``; pure function."""
    toks = tokenize_flat(src, env)
    d = delims(env)
    for kind, i, j, k in ops:
        n = len(toks)
        if n == 0:
            toks = [INJECT[k % len(INJECT)]]
            continue
        i %= n
        j %= n
        if kind == 0:  # delete
            del toks[i]
        elif kind == 1:  # duplicate
            toks.insert(i, toks[i])
        elif kind == 2:  # swap
            toks[i], toks[j] = toks[j], toks[i]
        elif kind == 3:  # replace
            toks[i] = INJECT[k % len(INJECT)]
        elif kind == 4:  # insert
            toks.insert(i, INJECT[k % len(INJECT)])
        elif kind == 5:  # splice with another template
            o = tokenize_flat(other, env)
            toks = toks[:i] + o[(j % len(o)) if o else 0:]
        elif kind == 6:  # unbalance a bracket
            idx = [t for t in range(n) if toks[t] in ("(", ")", "[", "]", "{", "}")]
            if idx:
                t = idx[k % len(idx)]
                if j % 2:
                    del toks[t]
                else:
                    toks[t] = "()[]{}"[(k // 7) % 6]
            else:
                toks.insert(i, "()[]{}"[k % 6])
        elif kind == 7:  # change string quotes
            idx = [t for t in range(n) if len(toks[t]) >= 2 and toks[t][0] in "'\"" and toks[t][-1] == toks[t][0]]
            if idx:
                t = idx[k % len(idx)]
                s = toks[t]
                q = '"' if s[0] == "'" else "'"
                toks[t] = (q + s[1:], s[:-1] + q, q + s[1:-1] + q, s[:-1], s[1:])[j % 5]
            else:
                toks.insert(i, "'\""[k % 2])
        elif kind == 8:  # carriage returns
            idx = [t for t in range(n) if toks[t] == "\n"]
            if idx and j % 2:
                toks[idx[k % len(idx)]] = ("\r\n", "\r")[k % 2]
            else:
                toks.insert(i, "\r")
        elif kind == 9:  # delete a short range
            del toks[i:i + 1 + k % 5]
        elif kind == 10:  # trouble identifier
            idx = [t for t in range(n) if toks[t][:1].isalpha() or toks[t][:1] == "_"]
            name = TROUBLE_IDENTS[k % len(TROUBLE_IDENTS)]
            if idx:
                toks[idx[j % len(idx)]] = name
            else:
                toks.insert(i, name)
        elif kind == 11:  # number spelling
            idx = [t for t in range(n) if toks[t][:1].isdigit()]
            num = NUMBERS[k % len(NUMBERS)]
            if idx:
                toks[idx[j % len(idx)]] = num
            else:
                toks.insert(i, num)
        elif kind == 12:  # duplicate a short range
            seg = toks[i:i + 1 + k % 4]
            toks[i:i] = seg
        elif kind == 13:  # stray delimiter of this configuration
            toks.insert(i, d.all()[k % len(d.all())])
        elif kind == 14:  # split a token in two with a space / join two tokens
            if j % 2 and len(toks[i]) > 1:
                c = 1 + k % (len(toks[i]) - 1)
                toks[i:i + 1] = [toks[i][:c], " ", toks[i][c:]]
            elif i + 1 < n and toks[i + 1].isspace():
                del toks[i + 1]
        elif kind == 15:  # end of input at a token boundary
            del toks[1 + i:]
        elif kind == 16:  # end of input directly after a string literal (escapes preferred)
            toks = tokenize_flat(truncate("".join(toks), env, 2 + j % 2, k), env)
        elif kind == 17:  # put a string literal with newline escapes somewhere
            lit = ('"a\\nb\\nc"', "'\\r\\n\\r'", '"\\n"', "'\\n\\n\\n\\n'")[k % 4]
            if j % 2:
                toks[i] = lit
            else:
                toks.insert(i, lit)
    return "".join(toks)[:MAX_LEN]


N_MUT_KINDS = 18


def mutated(env):
    """Strategy: a grammar template or a seed, hit by 1-3 token-level mutations."""
    from hypothesis import strategies as st

    seed = st.sampled_from(SEEDS)
    base = st.one_of(seed, templates(env))
    op = st.tuples(st.integers(0, N_MUT_KINDS - 1), st.integers(0, 199), st.integers(0, 199), st.integers(0, 999))
    return st.builds(lambda s, o, ops: mutate(s, o, ops, env), base, seed, st.lists(op, min_size=1, max_size=3))


# ---------------------------------------------------------------------------------------
# template strings lifted once from /repo/tests/*.py (string constants holding a delimiter)

SEEDS = [
    "{% for item in seq %}|{{ item }}{% endfor %}",
    "<{{ none }}>",
    "<{{ value }}>",
    "{{ value }}",
    "{{ 'hello' }}",
    "{{ foo }}",
    "{% for item in range(total) %}{{ item }}{% endfor %}",
    "{% set foo = 42 %}{{ bar + foo }}",
    "{% set foo = 42 %}{{ bar + foo }}{% macro meh(x) %}{{ x }}{% endmacro %}{% for item in seq %}{{ muh(item) + meh(seq) }}{% endfor %}",
    "{% for x in range(5) %}{{ x }}{% endfor %}{{ foo }}",
    "{% extends \"layout.html\" %}{% include helper %}",
    "{% extends \"layout.html\" %}{% from \"test.html\" import a, b as c %}{% import \"meh.html\" as meh %}{% include \"muh.html\" %}",
    "{% include [\"foo.html\", \"bar.html\"] %}",
    "{% include (\"foo.html\", \"bar.html\") %}",
    "{% include [\"foo.html\", \"bar.html\", foo] %}",
    "{% include (\"foo.html\", \"bar.html\", foo) %}",
    "<ul>{% for item in seq %}<li>{{ loop.index }} - {{ item }}</li>{%- endfor %}</ul>",
    "A{{ test() }}B",
    "A{{ test().missingattribute }}B",
    "{{ missing }}",
    "{{ no such element: int object['missing'] }}",
    "{{ var[42].foo }}",
    "{% set foo = \"foo\" %}{{ foo }}",
    "{{ foo.items()|list }}",
    "{{ foo|attr(\"items\")()|list }}",
    "{{ foo[\"items\"] }}",
    "{{ undefined value printed: ",
    "{{ missing.attribute }}",
    "{{ missing - 1}}",
    "{{ missing|list }}",
    "{{ 'foo' in missing }}",
    "{{ foo.missing }}",
    "{{ not missing }}",
    "{{ missing is not defined }}",
    "{{ missing.bar[\"baz\"] }}",
    "{{ foo.bar[\"baz\"]._undefined_name }}",
    "{{ missing|default(\"default\", true) }}",
    "{{ \"foo\" if false }}",
    "{% for item in [1, 2, 3] %}[{{ item }}]{% endfor %}",
    "{{ async_func() + normal_func() }}",
    "{% macro foo(x) %}[{{ x }}][{{ async_func() }}]{% endmacro %}{{ foo(42) }}",
    "{% block foo %}<Test>{% endblock %}{{ self.foo() }}",
    "{% for x in [1, 2, 3] %}{{ x }}{% endfor %}",
    "{% for x in rng %}{{ x }}{% endfor %}",
    "{% for x in rng %}{{ loop.index0 }}/{{ x }}{% endfor %}",
    "{{ (a|add_each(2))[1:] }}",
    "{{ add_each(a, 2)[1:] }}",
    "{% include \"header\" %}",
    "{% extends \"header\" %}",
    "{% import \"module\" as m %}{{ m.test() }}",
    "{% import \"module\" as m without context %}{{ m.test() }}",
    "{% import \"module\" as m with context %}{{ m.test() }}",
    "{% from \"module\" import test %}{{ test() }}",
    "{% from \"module\" import test without context %}{{ test() }}",
    "{% from \"module\" import test with context %}{{ test() }}",
    "{% from \"foo\" import bar, baz with context %}",
    "{% from \"foo\" import bar, baz, with context %}",
    "{% from \"foo\" import bar, with context %}",
    "{% from \"foo\" import bar, with, context %}",
    "{% from \"foo\" import bar, with with context %}",
    "{% set foo = 41 %}{% import \"module\" as m %}{{ m.test() }}",
    "{% include \"header\" with context %}",
    "{% include \"header\" without context %}",
    "{% include [\"missing\", \"header\"] %}",
    "{% include [\"missing\", \"missing2\"] ignore missing %}",
    "{% include [\"missing\", \"missing2\"] %}",
    "{% include x %}",
    "{% include [x, \"header\"] %}",
    "{% include [x] %}",
    "{% include \"missing\" %}",
    "\n            {% macro outer(o) %}\n            {% macro inner() %}\n            {% include \"o_printer\" %}\n            {% endmacro %}\n            {{ inner() }}\n            {% endmacro %}\n            {{ outer(\"FOO\") }}\n        ",
    "{% for item in seq %}{{ item }}{% endfor %}",
    "{% for item in seq %}XXX{% else %}...{% endfor %}",
    "<{% for item in seq %}{% else %}{% endfor %}>",
    "{% for item in seq %}{{ loop.index }}|{{ loop.index0 }}|{{ loop.revindex }}|{{ loop.revindex0 }}|{{ loop.first }}|{{ loop.last }}|{{ loop.length }}\n{% endfor %}",
    "{% for item in seq %}{{\n            loop.cycle('<1>', '<2>') }}{% endfor %}{%\n            for item in seq %}{{ loop.cycle(*through) }}{% endfor %}",
    "{% for item in seq -%}\n            {{ loop.previtem|default('x') }}-{{ item }}-{{\n            loop.nextitem|default('x') }}|\n        {%- endfor %}",
    "{% for item in seq -%}\n            {{ loop.changed(item) }},\n        {%- endfor %}",
    "{% for item in seq %}{% endfor %}{{ item }}",
    "{% for item in iter %}{{ item }}{% endfor %}",
    "{% for item in none %}...{% endfor %}",
    "{% for item in seq recursive -%}\n            [{{ item.a }}{% if item.b %}<{{ loop(item.b) }}>{% endif %}]\n        {%- endfor %}",
    "{% for item in seq recursive -%}\n            [{{ loop.previtem.a if loop.previtem is defined else 'x' }}.{{\n            item.a }}.{{ loop.nextitem.a if loop.nextitem is defined else 'x'\n            }}{% if item.b %}<{{ loop(item.b) }}>{% endif %}]\n        {%- endfor %}",
    "{% for item in seq recursive %}[{{ loop.depth0 }}:{{ item.a }}{% if item.b %}<{{ loop(item.b) }}>{% endif %}]{% endfor %}",
    "{% for item in seq recursive %}[{{ loop.depth }}:{{ item.a }}{% if item.b %}<{{ loop(item.b) }}>{% endif %}]{% endfor %}",
    "{% for row in table %}\n            {%- set rowloop = loop -%}\n            {% for cell in row -%}\n                [{{ rowloop.index }}|{{ loop.index }}]\n            {%- endfor %}\n        {%- endfor %}",
    "{% for i in items %}{{ i }}{% if not loop.last %},{% endif %}{% endfor %}",
    "{% for item in [1] if loop.index\n                                      == 0 %}...{% endfor %}",
    "{% for item in [] %}...{% else\n            %}{{ loop }}{% endfor %}",
    "{% for item in range(10) if item is even %}[{{ item }}]{% endfor %}",
    "\n            {%- for item in range(10) if item is even %}[{{\n                loop.index }}:{{ item }}]{% endfor %}",
    "{% for s in seq %}[{{ loop.first }}{% for c in s %}|{{ loop.first }}{% endfor %}]{% endfor %}",
    "{% for x in seq %}{{ loop.first }}{% for y in seq %}{% endfor %}{% endfor %}",
    "{% for x in seq %}{% for y in seq %}{{ loop.first }}{% endfor %}{% endfor %}",
    "\n        {%- for item in foo recursive -%}{%- endfor -%}\n        ",
    "\n        {%- macro do_something() -%}\n            [{{ caller() }}]\n        {%- endmacro %}\n\n        {%- for i in [1, 2, 3] %}\n            {%- call do_something() -%}\n                {{ i }}\n            {%- endcall %}\n        {%- endfor -%}\n        ",
    "\n        {%- for item in foo %}...{{ item }}...{% endfor %}\n        {%- macro item(a) %}...{{ a }}...{% endmacro %}\n        {{- item(2) -}}\n        ",
    "{% for a, b, c in [[1, 2, 3]] %}{{ a }}|{{ b }}|{{ c }}{% endfor %}",
    "\n        <?xml version=\"1.0\" encoding=\"UTF-8\"?>\n        <urlset xmlns=\"http://www.sitemaps.org/schemas/sitemap/0.9\">\n          {%- for page in [site.root] if page.url != this recursive %}\n          <url><loc>{{ page.url }}</loc></url>\n          {{- loop(page.children) }}\n          {%- endfor %}\n        </urlset>\n        ",
    "\n        <?xml version=\"1.0\" encoding=\"UTF-8\"?>\n        <urlset xmlns=\"http://www.sitemaps.org/schemas/sitemap/0.9\">\n          {%- for page in items if page.url != this %}\n          <url><loc>{{ page.url }}</loc></url>\n          {%- endfor %}\n        </urlset>\n        ",
    "{% for x in a.b[:1] %}{{ x }}{% endfor %}",
    "{% set ns = namespace(foo=\"Bar\") %}{{ ns.foo }}",
    "{% for x in a['b']['c'] %}{{ x }}{% endfor %}",
    "{{ x }}",
    "\n            {% macro toplevel() %}...{% endmacro %}\n            {% macro __private() %}...{% endmacro %}\n            {% set variable = 42 %}\n            {% for item in [1] %}\n                {% macro notthere() %}{% endmacro %}\n            {% endfor %}\n            ",
    "<?xml version=\"1.0\" encoding=\"UTF-8\"?>",
    "{% macro test() %}[{{ foo }}|{{ bar }}]{% endmacro %}",
    "[{{ foo }}|{{ 23 }}]",
    "({{ o }})",
    "{% include \"missing\" ignore missing ",
    "{% for item in [1, 2, 3] %}{% include 'item' %}{% endfor %}",
    "{{ item }}",
    "\n    {%- for grouper, list in items()|groupby('foo') -%}\n        {{ grouper }}{% for x in list %}: {{ x.foo }}, {{ x.bar }}{% endfor %}|\n    {%- endfor %}",
    "{% for k, vs in data|groupby('k', case_sensitive=cs) %}{{ k }}: {{ vs|join(', ', attribute='v') }}\n{% endfor %}",
    "\n    {%- for grouper, list in items()|groupby(0) -%}\n        {{ grouper }}{% for x in list %}:{{ x.1 }}{% endfor %}|\n    {%- endfor %}",
    "\n    {%- for year, list in articles()|groupby('date.year') -%}\n        {{ year }}{% for x in list %}[{{ x.title }}]{% endfor %}|\n    {%- endfor %}",
    "{{ items()|join(\"|\") }}",
    "{{ [\"<foo>\", \"<span>foo</span>\"|safe]|join }}",
    "{{ users()|join(', ', 'username') }}",
    "{{ items()|reject(\"odd\")|join(\"|\") }}",
    "{{ items()|reject|join(\"|\") }}",
    "{{ items()|select(\"odd\")|join(\"|\") }}",
    "{{ items()|select|join(\"|\") }}",
    "{{ users()|selectattr(\"is_active\")|map(attribute=\"name\")|join(\"|\") }}",
    "{{ items()|map(\"int\")|sum }}",
    "{{ [[1,2], [3], [4,5,6]]|map(\"sum\")|list }}",
    "{{ users()|map(attribute=\"name\")|join(\"|\") }}",
    "{{ none|map(\"upper\")|list }}",
    "{{ items()|sum }}",
    "{{ items()|sum('value') }}",
    "{{ values|sum('real.value') }}",
    "{{ values.items()|sum('1') }}",
    "{{ items()|slice(3)|list }}|{{ items()|slice(3, 'X')|list }}",
    "{{ items|reject('==', 'z')|unique|list }}",
    "{{ 'static'|customfilter }} {{ arg|customfilter }}",
    "{{ closing(foo())|first }}",
    "{{ closing(items())|customfilter }} .. {{ [3, 4, 5, 6]|customfilter }}",
    "{% for i in seq %}\n",
    "\n{% endfor %}",
    "{% block test %}\n",
    "\n{% endblock test %}",
    "{% import \"bar\" as bar",
    "{% set a",
    "  {% set a",
    "{% from 'macro' import m %}{{ m() }}",
    "{% for item in [] %}{% else %}{{ item }}{% endfor %}",
    "{% for item in seq recursive -%}\n        [{{ loop.depth0 }}:{{ item.a }}{% if item.b %}<{{ loop(item.b) }}>{% endif %}]\n        {%- endfor %}",
    "{% for item in seq recursive -%}\n        [{{ loop.depth }}:{{ item.a }}{% if item.b %}<{{ loop(item.b) }}>{% endif %}]\n        {%- endfor %}",
    "{% for loop in seq %}...{% endfor %}",
    "{% for item in seq %}{{ x }}{% set x = item %}{{ x }}{% endfor %}",
    "{% set x = 9 %}{% for item in seq %}{{ x }}{% set x = item %}{{ x }}{% endfor %}",
    "{% if true %}...{% endif %}",
    "{% if false %}XXX{% elif true\n            %}...{% else %}XXX{% endif %}",
    "{% if false %}XXX{% else %}...{% endif %}",
    "[{% if true %}{% else %}{% endif %}]",
    "{% if a %}A{% elif b %}B{% elif c == d %}C{% else %}D{% endif %}",
    "{% if a %}{% set foo = 1 %}{% endif %}{{ foo }}",
    "{% if true %}{% set foo = 1 %}{% endif %}{{ foo }}",
    "{% macro say_hello(name) %}Hello {{ name }}!{% endmacro %}\n{{ say_hello('Peter') }}",
    "{% macro level1(data1) %}\n{% macro level2(data2) %}{{ data1 }}|{{ data2 }}{% endmacro %}\n{{ level2('bar') }}{% endmacro %}\n{{ level1('foo') }}",
    "{% macro m(a, b, c='c', d='d') %}{{ a }}|{{ b }}|{{ c }}|{{ d }}{% endmacro %}\n{{ m() }}|{{ m('a') }}|{{ m('a', 'b') }}|{{ m(1, 2, 3) }}",
    "{% macro m(a, b=1, c) %}a={{ a }}, b={{ b }}, c={{ c }}{% endmacro %}",
    "{% macro a() %}{{ caller() }}{% endmacro %}\n{% call(x, y=1, z) a() %}{% endcall %}",
    "{% macro test() %}{{ varargs|join('|') }}{% endmacro %}{{ test(1, 2, 3) }}",
    "{% macro test() %}[[{{ caller() }}]]{% endmacro %}{% call test() %}data{% endcall %}",
    "{% macro test() %}[[{{ caller('data') }}]]{% endmacro %}{% call(data) test() %}{{ data }}{% endcall %}",
    "{% set caller = 42 %}{% macro test() %}{{ caller is not defined }}{% endmacro %}{{ test() }}",
    "{% from \"include\" import test %}{{ test(\"foo\") }}",
    "{% macro foo(a, b) %}{% endmacro %}{% macro bar() %}{{ varargs }}{{ kwargs }}{% endmacro %}{% macro baz() %}{{ caller() }}{% endmacro %}",
    "{% macro foo(x) %}{{ x }}{% if x > 1 %}|{{ foo(x - 1) }}{% endif %}{% endmacro %}{{ foo(5) }}",
    "\n            {%- set x = 42 %}\n            {%- macro m(a, b=x, x=23) %}{{ a }}|{{ b }}|{{ x }}{% endmacro -%}\n        ",
    "{% set foo = 1 %}{{ foo }}",
    "{% set foo %}42{% endset %}{{ foo }}",
    "{% set foo %}<em>{{ test }}</em>{% endset %}foo: {{ foo }}",
    "{% set foo['bar'] = 1 %}",
    "{% set foo.bar = 1 %}",
    "{% set ns = namespace() %}{% set ns.bar = 'hi' %}",
    "{% set ns = namespace() %}{% set ns.bar = '42' %}{{ ns.bar }}",
    "{% set ns = namespace() %}{% set ns.bar %}42{% endset %}{{ ns.bar }}",
    "{% set ns = namespace(d, self=37) %}{% set ns.b = 42 %}{{ ns.a }}|{{ ns.self }}|{{ ns.b }}",
    "{% set ns = namespace(found=false) %}{% for x in range(4) %}{% if x == v %}{% set ns.found = true %}{% endif %}{% endfor %}{{ ns.found }}",
    "{% set ns = namespace() %}{% set ns.a = 13 %}{% macro magic(x) %}{% set x.b = 37 %}{% endmacro %}{{ magic(ns) }}{{ ns.a }}|{{ ns.b }}",
    "{% set ns = namespace(a=12, b=36) %}{% set ns.a, ns.b = ns.a + 1, ns.b + 1 %}{{ ns.a }}|{{ ns.b }}",
    "{% set foo | trim %}<em>{{ test }}</em>    {% endset %}foo: {{ foo }}",
    "{% set foo | trim | length | string %} 42    {% endset %}{{ foo }}",
    "{% set a = \" xxx \" %}{% set foo | myfilter(a) | trim | length | string %} {% set b = \" yy \" %} 42 {{ a }}{{ b }}   {% endset %}{{ foo }}",
    "        {% with a=42, b=23 -%}\n            {{ a }} = {{ b }}\n        {% endwith -%}\n            {{ a }} = {{ b }}        ",
    "        {%- with a=1, b=2, c=b, d=e, e=5 -%}\n            {{ a }}|{{ b }}|{{ c }}|{{ d }}|{{ e }}\n        {%- endwith -%}\n        ",
    "{% for item in seq -%}\n            {{ loop.index }}|{{ loop.index0 }}|{{ loop.revindex }}|{{\n                loop.revindex0 }}|{{ loop.first }}|{{ loop.last }}|{{\n               loop.length }}###{% endfor %}",
    "{% if a == 0 %}0",
    "{% else %}x{% endif %}",
    "{% elif a == ",
    "{% macro test(foo) %}[{{ foo }}]{% endmacro %}",
    "(?sm)\n  File \".*?syntaxerror.html\", line 4, in (template|<module>)\n    \\{% endif %\\}.*?\n(jinja2\\.exceptions\\.)?TemplateSyntaxError: Encountered unknown tag 'endif'. Jinja was looking for the following tags: 'endfor' or 'else'. The innermost block that needs to be closed is 'for'.\n    ",
    "a\n{% include 'syntaxerror.html' %}\nb",
    "<title>{{ page_title|default(_(\"missing\")) }}</title>{% block body %}{% endblock %}",
    "{% extends \"default.html\" %}{% block body %}{% trans %}watch out{% endtrans %}{% endblock %}",
    "{% trans user_count %}One user online{% pluralize %}{{ user_count }} users online{% endtrans %}",
    "{% trans user_count=get_user_count() %}{{ user_count }}s{% pluralize %}{{ user_count }}p{% endtrans %}",
    "{{ _(\"User: %(num)s\")|format(num=user_count) }}",
    "{{ _(\"User: %(num)s\", num=user_count) }}",
    "{{ ngettext(\"%(num)s apple\", \"%(num)s apples\", apples) }}",
    "{% trans num=apples %}{{ num }} apple{% pluralize %}{{ num }} apples{% endtrans %}",
    "{{ pgettext(\"fruit\", \"Apple\") }}",
    "{{ npgettext(\"fruit\", \"%(num)s apple\", \"%(num)s apples\", apples) }}",
    "{% trans 'fruit' num=apples %}Apple{% endtrans %}",
    "{% trans 'fruit' num=apples %}{{ num }} apple{% pluralize %}{{ num }} apples{% endtrans %}",
    "{% trans %}User: {{ num }}{% endtrans %}",
    "{% trans num=count %}User: {{ num }}{% endtrans %}",
    "{% trans count=num %}User: {{ count }}{% endtrans %}",
    "{% trans %}%(hello)s{% endtrans %}",
    "{% trans %}{{ foo }}%(foo)s{% endtrans %}",
    "{% trans foo=\"42\" %}%(foo)s{% endtrans %}",
    "{%- trans %}  hello\n  world  {% endtrans -%}",
    "{% trans %}foo{% trans %}{% endtrans %}",
    "{% trans %}foo{% wibble bar %}{% endwibble %}{% endtrans %}",
    "{% macro m() %}<html>{% endmacro %}{% autoescape true %}{{ m() }}{% endautoescape %}",
    "\n        {% autoescape val %}\n            {% macro foo(x) %}\n                [{{ x }}]\n            {% endmacro %}\n            {{ foo().__class__.__name__ }}\n        {% endautoescape %}\n        {{ '<testing>' }}\n        ",
    "({{ foo }})",
    "{% autoescape true %}{{ \"<test>\" }}{% endautoescape %}",
    "\n            {%- for item in [1, 2, 3, 4] %}\n                {%- if item % 2 == 0 %}{% continue %}{% endif -%}\n                {{ item }}\n            {%- endfor %}",
    "\n            {%- for item in [1, 2, 3, 4] %}\n                {%- if item > 2 %}{% break %}{% endif -%}\n                {{ item }}\n            {%- endfor %}",
    "\n            {%- set items = [] %}\n            {%- for char in \"foo\" %}\n                {%- do items.append(loop.index0 ~ char) %}\n            {%- endfor %}{{ items|join(', ') }}",
    "{% test %}",
    "{% set test_var=\"test_content\" %}{% test %}",
    "{% for test_var in [\"test_content\"] %}{% test %}{% endfor %}",
    "Hello\n{% debug %}\nGoodbye",
    "{% trans foo=42, count=2 %}{{ count }} item{% pluralize count %}{{ count }} items{% endtrans %}",
    "{% trans foo %}...{% pluralize bar %}...{% endtrans %}",
    "{%- trans trimmed %}  hello\n  world  {% endtrans -%}",
    "{%- trans notrimmed %}  hello\n  world  {% endtrans -%}",
    "{%- trans trimmed x=\"world\" %}  hello\n  {{ x }} {% endtrans -%}",
    "{%- trans trimmed = 'world' %}  hello\n  {{ trimmed }}  {% endtrans -%}",
    "        {%- scope a=1, b=2, c=b, d=e, e=5 -%}\n            {{ a }}|{{ b }}|{{ c }}|{{ d }}|{{ e }}\n        {%- endscope -%}\n        ",
    "{% autoescape ae %}{{ gettext(\"foo\", name=\"<test>\") }}{% endautoescape %}",
    "\n            {% trans num=3 %}{{ num }} apple{% pluralize\n            %}{{ num }} apples{% endtrans %}\n        ",
    "\n            {{ \"<HelloWorld>\" }}\n            {% autoescape false %}\n                {{ \"<HelloWorld>\" }}\n            {% endautoescape %}\n            {{ \"<HelloWorld>\" }}\n        ",
    "\n            {{ \"<HelloWorld>\" }}\n            {% autoescape true %}\n                {{ \"<HelloWorld>\" }}\n            {% endautoescape %}\n            {{ \"<HelloWorld>\" }}\n        ",
    "{{ {\"foo\": \"<test>\"}|xmlattr|escape }}",
    "{% autoescape false %}{{ {\"foo\": \"<test>\"}|xmlattr|escape }}{% endautoescape %}",
    "{% autoescape foo %}{{ {\"foo\": \"<test>\"}|xmlattr|escape }}{% endautoescape %}",
    "{% autoescape true %}{% set x = \"<x>\" %}{{ x }}{% endautoescape %}{{ x }}{{ \"<y>\" }}",
    "\n            {{- x }}|{% set z = 99 %}\n            {%- overlay %}\n                {{- y }}|{{ z }}|{% for item in x %}[{{ item }}]{% endfor %}\n            {%- endoverlay %}|\n            {{- x -}}\n        ",
    "{{ \"foo bar\"|capitalize }}",
    "{{ \"foo\"|center(9) }}",
    "{{ missing|default('no') }}|{{ false|default('no') }}|{{ false|default('no', true) }}|{{ given|default('no') }}",
    "{{ foo|batch(3)|list }}|{{ foo|batch(3, 'X')|list }}",
    "{{ foo|slice(3)|list }}|{{ foo|slice(3, 'X')|list }}",
    "{{ '<\">&'|escape }}",
    "{{ foo|trim(chars) }}",
    "{{ foo|striptags }}",
    "{{ 100|filesizeformat }}|{{ 1000|filesizeformat }}|{{ 1000000|filesizeformat }}|{{ 1000000000|filesizeformat }}|{{ 1000000000000|filesizeformat }}|{{ 100|filesizeformat(true) }}|{{ 1000|filesizeformat(true) }}|{{ 1000000|filesizeformat(true) }}|{{ 1000000000|filesizeformat(true) }}|{{ 1000000000000|filesizeformat(true) }}",
    "{{ 300|filesizeformat }}|{{ 3000|filesizeformat }}|{{ 3000000|filesizeformat }}|{{ 3000000000|filesizeformat }}|{{ 3000000000000|filesizeformat }}|{{ 300|filesizeformat(true) }}|{{ 3000|filesizeformat(true) }}|{{ 3000000|filesizeformat(true) }}",
    "{{ foo|first }}",
    "{{ value|float }}",
    "{{ value|float(default=1.0) }}",
    "{{ '%s|%s'|format('a', 'b') }}",
    "{{ foo|indent(2, false, false) }}",
    "{{ foo|indent(2, false, true) }}",
    "{{ foo|indent(2, true, false) }}",
    "{{ foo|indent(2, true, true) }}",
    "{{ \"jinja\"|indent }}",
    "{{ \"jinja\"|indent(first=true) }}",
    "{{ \"jinja\"|indent(blank=true) }}",
    "{{ 'jinja\nflask'|indent(width='>>> ', first=True) }}",
    "{{ value|int }}",
    "{{ value|int(base=base) }}",
    "{{ value|int(default=1) }}",
    "{{ [1, 2, 3]|join(\"|\") }}",
    "{{ users|join(', ', 'username') }}",
    "{{ foo|last }}",
    "{{ \"hello world\"|length }}",
    "{{ \"FOO\"|lower }}",
    "{{ d|items|list }}",
    "{{ data|pprint }}",
    "{{ \"1234567890\"|random }}",
    "{{ 'foobar'|reverse|join }}|{{ [1, 2, 3]|reverse|list }}",
    "{{ obj|string }}",
    "{{ \"foo bar\"|title }}",
    "{{ \"foo's bar\"|title }}",
    "{{ \"foo   bar\"|title }}",
    "{{ \"f bar f\"|title }}",
    "{{ \"foo-bar\"|title }}",
    "{{ \"foo\tbar\"|title }}",
    "{{ \"FOO\tBAR\"|title }}",
    "{{ \"foo (bar)\"|title }}",
    "{{ \"foo {bar}\"|title }}",
    "{{ \"foo [bar]\"|title }}",
    "{{ \"foo <bar>\"|title }}",
    "{{ data|title }}",
    "{{ data|truncate(15, true, \">>>\") }}|{{ data|truncate(15, false, \">>>\") }}|{{ smalldata|truncate(15) }}",
    "{{ \"foo bar baz\"|truncate(9) }}|{{ \"foo bar baz\"|truncate(9, true) }}",
    "{{ \"Joel is a slug\"|truncate(7, true) }}",
    "{{ \"foo\"|upper }}",
    "{{ \"foo example.org bar\"|urlize }}",
    "{{ \"foo http://www.example.com/ bar\"|urlize }}",
    "{{ \"foo mailto:email@example.com bar\"|urlize }}",
    "{{ \"foo email@example.com bar\"|urlize }}",
    "{{ \"foo http://www.example.com/ bar\"|urlize(target=\"_blank\") }}",
    "{{ \"foo tel:+1-514-555-1234 ftp://localhost bar\"|urlize(extra_schemes=[\"tel:\", \"ftp:\"]) }}",
    "{{ \"foo bar baz\"|wordcount }}",
    "{{ s|wordcount }}",
    "{% filter lower|escape %}<HEHE>{% endfilter %}",
    "{{ ['<foo>', '<bar>']|first|upper|escape }}",
    "{{ [1, 2, 3, 4, 5, 6]|sum }}",
    "{{ values|sum('value') }}",
    "{{ -1|abs }}|{{ 1|abs }}",
    "{{ 2.7|round }}|{{ 2.1|round }}|{{ 2.1234|round(3, 'floor') }}|{{ 2.1|round(0, 'ceil') }}",
    "{{ 21.3|round(-1)}}|{{ 21.3|round(-1, 'ceil')}}|{{ 21.3|round(-1, 'floor')}}",
    "{{ {'foo': 42, 'bar': 23, 'fish': none, 'spam': missing, 'blub:blub': '<?>'}|xmlattr }}",
    "{{ [2, 3, 1]|sort }}|{{ [2, 3, 1]|sort(true) }}",
    "{{ \"\".join([\"c\", \"A\", \"b\", \"D\"]|sort) }}",
    "{{ ['foo', 'Bar', 'blah']|sort }}",
    "{{ items|sort(attribute='value')|join }}",
    "{{ items|sort(attribute='value.0')|join }}",
    "{{ items|sort(attribute='value1,value2')|join }}",
    "{{ items|sort(attribute='value2,value1')|join }}",
    "{{ items|sort(attribute='value1.0,value2.0')|join }}",
    "{{ \"\".join([\"b\", \"A\", \"a\", \"b\"]|unique) }}",
    "{{ \"\".join([\"b\", \"A\", \"a\", \"b\"]|unique(true)) }}",
    "{{ items|unique(attribute='value')|join }}",
    "\n        {%- for grouper, list in [{'foo': 1, 'bar': 2},\n                                  {'foo': 2, 'bar': 3},\n                                  {'foo': 1, 'bar': 1},\n                                  {'foo': 3, 'bar': 4}]|groupby('foo') -%}\n            {{ grouper }}{% for x in list %}: {{ x.foo }}, {{ x.bar }}{% endfor %}|\n        {%- endfor %}",
    "\n        {%- for grouper, list in [('a', 1), ('a', 2), ('b', 1)]|groupby(0) -%}\n            {{ grouper }}{% for x in list %}:{{ x.1 }}{% endfor %}|\n        {%- endfor %}",
    "\n        {%- for year, list in articles|groupby('date.year') -%}\n            {{ year }}{% for x in list %}[{{ x.title }}]{% endfor %}|\n        {%- endfor %}",
    "{% for city, items in users|groupby('city', default='NY') %}{{ city }}: {{ items|map(attribute='name')|join(', ') }}\n{% endfor %}",
    "{% filter upper|replace('FOO', 'foo') %}foobar{% endfilter %}",
    "{{ string|replace(\"o\", 42) }}",
    "{{ string|replace(\"<\", 42) }}",
    "{{ string|replace(\"o\", \">x<\") }}",
    "{{ x|forceescape }}",
    "{{ \"<div>foo</div>\"|safe }}",
    "{{ \"<div>foo</div>\" }}",
    "{{ value|urlencode }}",
    "{{ [\"1\", \"2\", \"3\"]|map(\"int\")|sum }}",
    "{{ users|map(attribute=\"name\")|join(\"|\") }}",
    "{{ users|map(attribute=\"lastname\", default=\"smith\")|join(\", \") }}",
    "{{ users|map(attribute=\"lastname\", default=[\"smith\",\"x\"])|join(\", \") }}",
    "{{ users|map(attribute=\"lastname\", default=\"\")|join(\", \") }}",
    "{{ [1, 2, 3, 4, 5]|select(\"odd\")|join(\"|\") }}",
    "{{ [none, false, 0, 1, 2, 3, 4, 5]|select|join(\"|\") }}",
    "{{ [1, 2, 3, 4, 5]|reject(\"odd\")|join(\"|\") }}",
    "{{ [none, false, 0, 1, 2, 3, 4, 5]|reject|join(\"|\") }}",
    "{{ users|selectattr(\"is_active\")|map(attribute=\"name\")|join(\"|\") }}",
    "{{ users|rejectattr(\"is_active\")|map(attribute=\"name\")|join(\"|\") }}",
    "{{ users|selectattr(\"id\", \"odd\")|map(attribute=\"name\")|join(\"|\") }}",
    "{{ users|rejectattr(\"id\", \"odd\")|map(attribute=\"name\")|join(\"|\") }}",
    "{{ x|tojson }}",
    "{{ s|wordwrap(20) }}",
    "{%- if x is defined -%}{{ x|f }}{%- else -%}x{% endif %}",
    "{%- if x is defined -%}{{ x }}{%- elif y is defined -%}{{ y|f }}{%- else -%}foo{%- endif -%}",
    "{%- if x is not defined -%}foo{%- else -%}{{ x|f }}{%- endif -%}",
    "{%- if x is not defined -%}foo{%- else -%}{%- if y is defined -%}{{ y|f }}{%- endif -%}{{ x }}{%- endif -%}",
    "{{ x|f if x is defined else 'foo' }}",
    "{{ 'foo' if x is not defined else x|f }}",
    "{{ foo|dictsort(",
    "  <p>just a small   \n <a href=\"#\">example</a> link</p>\n<p>to a webpage</p> <!-- <p>and some commented stuff</p> -->",
    "{{ [\"a\", \"B\"]|min }}",
    "{{ [\"a\", \"B\"]|min(case_sensitive=true) }}",
    "{{ []|min }}",
    "{{ [\"a\", \"B\"]|max }}",
    "{{ [\"a\", \"B\"]|max(case_sensitive=true) }}",
    "{{ []|max }}",
    "{{ var|f }}",
    "{{ items|",
    "{{ {key: 'my_class'}|xmlattr }}",
    "{% from \"foo\" import bar %}",
    "{% from \"foo\" import bar, baz %}",
    "{% from 'module' import nothing %}{{ nothing() }}",
    "{% set foobar = 42 %}{% from 'a' import x with context %}{{ x() }}",
    "{% from \"foo\" import %}",
    "{% from \"foo\" import bar, %}",
    "{% from \"foo\" import bar,, %}",
    "{% from \"foo\" import, %}",
    "{% from \"foo\" import bar,, with context %}",
    "{% from \"foo\" import bar with context, %}",
    "\n            {% macro toplevel() %}...{% endmacro %}\n            {% macro __private() %}...{% endmacro %}\n            {% set variable = 42 %}\n            {% for item in [1] %}\n                {% macro notthere() %}{% endmacro %}\n            {% endfor %}\n        ",
    "{% macro x() %}{{ foobar }}{% endmacro %}",
    "|{% block block1 %}block 1 from layout{% endblock %}\n|{% block block2 %}block 2 from layout{% endblock %}\n|{% block block3 %}\n{% block block4 %}nested block 4 from layout{% endblock %}\n{% endblock %}|",
    "{% extends \"layout\" %}\n{% block block1 %}block 1 from level1{% endblock %}",
    "{% extends \"level1\" %}\n{% block block2 %}{% block block5 %}nested block 5 from level2{%\nendblock %}{% endblock %}",
    "{% extends \"level2\" %}\n{% block block5 %}block 5 from level3{% endblock %}\n{% block block4 %}block 4 from level3{% endblock %}\n",
    "{% extends \"level3\" %}\n{% block block3 %}block 3 from level4{% endblock %}\n",
    "{% extends \"layout\" %}\n{% block block1 %}\n  {% if false %}\n    {% block block2 %}\n      this should work\n    {% endblock %}\n  {% endif %}\n{% endblock %}\n",
    "{% extends \"layout\" %}\n{% extends \"layout\" %}\n{% block block1 %}\n  {% if false %}\n    {% block block2 %}\n      this should work\n    {% endblock %}\n  {% endif %}\n{% endblock %}\n",
    "Ensures that a template with more than 1 {% extends ... %} usage\n        raises a ``TemplateError``.\n        ",
    "{{ self.foo() }}|{% block foo %}42{% endblock %}|{{ self.foo() }}",
    "{% extends 'default.html' %}{% block item %}{{ item }}{% endblock %}",
    "{% extends \"default.html\" %}{% block item %}{{ super() }}|{{ item * 2 }}{% endblock %}",
    "{% block intro %}INTRO{% endblock %}|BEFORE|{% block data %}INNER{% endblock %}|AFTER",
    "{% extends \"a\" %}{% block data %}({{ super() }}){% endblock %}",
    "{% extends \"b\" %}{% block intro %}--{{ super() }}--{% endblock %}\n{% block data %}[{{ super() }}]{% endblock %}",
    "{% if false %}{% block x %}A{% endblock %}{% endif %}{{ self.x() }}",
    "{% extends \"a\" %}{% block x %}B{{ super() }}{% endblock %}",
    "DEFAULT1{% block x %}{% endblock %}",
    "DEFAULT2{% block x %}{% endblock %}",
    "{% extends default %}{% block x %}CHILD{% endblock %}",
    "{% if default %}{% extends default %}{% else %}{% extends 'default1' %}{% endif %}{% block x %}CHILD{% endblock %}",
    "{% for item in seq %}[{% block item scoped %}{% endblock %}]{% endfor %}",
    "{% for item in seq %}[{% block item scoped %}{{ item }}{% endblock %}]{% endfor %}",
    "\n            {% block useless %}{% endblock %}\n            ",
    "\n            {%- extends 'layout.html' %}\n            {% from 'helpers.html' import foo with context %}\n            {% block useless %}\n                {% for x in [1, 2, 3] %}\n                    {% block testing scoped %}\n                        {{ foo(x) }}\n                    {% endblock %}\n                {% endfor %}\n            {% endblock %}\n            ",
    "\n            {% macro foo(x) %}{{ the_foo + x }}{% endmacro %}\n            ",
    "{% block x required %}{# comment #}\n {% endblock %}",
    "{% extends 'default' %}{% block x %}[1]{% endblock %}",
    "{% block x required %}{% endblock %}",
    "{% extends 'default' %}{% block x %}[2]{% endblock %}",
    "{% extends 'default' %}",
    "{% extends 'level1' %}{% block x %}[2]{% endblock %}",
    "{% extends 'level2' %}",
    "{% block x required %} {# c #}{% endblock %}",
    "{% block x required %}data {# c #}{% endblock %}",
    "{% block x required %}{% block y %}{% endblock %}{% endblock %}",
    "{% block x required %}{% if true %}{% endif %}{% endblock %}",
    "{% extends t %}{% block x %}CHILD{% endblock %}",
    "{% for item in seq %}[{% block item scoped required %}{% endblock %}]{% endfor %}",
    "{% extends 'default1' %}{% block item %}{{ item }}{% endblock %}",
    "{% for item in seq %}[{% block item required scoped %}{% endblock %}]{% endfor %}",
    "{% extends 'default2' %}{% block item %}{{ item }}{% endblock %}",
    "{% for item in seq %}[{% block item scoped scoped %}}{{% endblock %}}]{{% endfor %}}",
    "{% for item in seq %}[{% block item required required %}}{{% endblock %}}]{{% endfor %}}",
    "{% if default %}{% extends default %}{% else %}{% extends 'default1' %}{% endif %}{%- block x %}CHILD{% endblock %}",
    "        {% extends 'details.html' %}\n\n        {% macro my_macro() %}\n        my_macro\n        {% endmacro %}\n\n        {% block inner_box %}\n            {{ my_macro() }}\n        {% endblock %}\n            ",
    "        {% extends 'standard.html' %}\n\n        {% macro my_macro() %}\n        my_macro\n        {% endmacro %}\n\n        {% block content %}\n            {% block outer_box %}\n                outer_box\n                {% block inner_box %}\n                    inner_box\n                {% endblock %}\n            {% endblock %}\n        {% endblock %}\n        ",
    "\n        {% block content %}&nbsp;{% endblock %}\n        ",
    "{% set true = 42 %}",
    "{% for none in seq %}{% endfor %}",
    "{% raw %}foo{% endraw %}|{%raw%}{{ bar }}|{% baz %}{%       endraw    %}",
    "foo|{{ bar }}|{% baz %}",
    "1  {%- raw -%}   2   {%- endraw -%}   3",
    "bar\n{% raw %}\n  {{baz}}2 spaces\n{% endraw %}\nfoo",
    "bar\n\n  {{baz}}2 spaces\nfoo",
    "bar\n{%- raw -%}\n\n  \n  2 spaces\n space{%- endraw -%}\nfoo",
    "{% for item in seq\n            %}${{'foo': item}|upper}{% endfor %}",
    "<!--",
    "<ul>\n<!--- for item in seq -->\n  <li>{item}</li>\n<!--- endfor -->\n</ul>",
    "{{ 'foo'|pprint }}|{{ 'b\u00e4r'|pprint }}",
    "<html>\n    <body>\n    {%- block content -%}\n        <hr>\n        {{ item }}\n    {% endblock %}\n    </body>\n</html>",
    "<!-- I'm a comment, I'm not interesting --><? for item in seq -?>\n    <?= item ?>\n<?- endfor ?>",
    "<%# I'm a comment, I'm not interesting %><% for item in seq -%>\n    <%= item %>\n<%- endfor %>",
    "<!--#",
    "<!--# I'm a comment, I'm not interesting --><!-- for item in seq --->\n    ${item}\n<!--- endfor -->",
    "{{{'foo':'bar'}.foo}}",
    "{# foo comment\nand bar comment #}\n{% macro blub() %}foo{% endmacro %}\n{{ blub() }}",
    "<%# regular comment %>\n% for item in seq:\n    ${item}\n% endfor",
    "<%# regular comment %>\n% for item in seq:\n    ${item} ## the rest of the stuff\n% endfor",
    "/* ignore me.\n   I'm a multiline comment */\n## for item in seq:\n* ${item}          # this is just extra stuff\n## endfor",
    "/* ignore me.\n   I'm a multiline comment */\n# for item in seq:\n* ${item}          ## this is just extra stuff\n    ## extra stuff i just want to ignore\n# endfor",
    "{% for item in seq %}...{% endif %}",
    "{% if foo %}{% for item in seq %}...{% endfor %}{% endfor %}",
    "{% if foo %}",
    "{% for item in seq %}",
    "{% block foo-bar-baz %}",
    "{% unknown_tag %}",
    "{{ foo('a', c='d', e='f', *['b'], **{'g': 'h'}) }}",
    "{{ [1, 2, 3][:] }}|{{ [1, 2, 3][::-1] }}",
    "{{ foo.bar }}|{{ foo['bar'] }}",
    "{{ foo[0] }}|{{ foo[-1] }}",
    "{{ () }}|{{ (1,) }}|{{ (1, 2) }}",
    "{{ (1 + 1 * 2) - 3 / 2 }}|{{ 2**3 }}",
    "{{ 3 // 2 }}|{{ 3 / 2 }}|{{ 3 % 2 }}",
    "{{ +3 }}|{{ -3 }}",
    "{{ [1, 2] ~ 'foo' }}",
    "{{ i * (j < 5) }}",
    "{{ 1 in [1, 2, 3] }}|{{ 1 not in [1, 2, 3] }}",
    "{{ true and false }}|{{ false or true }}|{{ not false }}",
    "{{ (true and false) or (false and true) and not false }}",
    "{{ [1, 2, 3].0 }}|{{ [[1]].0.0 }}",
    "{{ 0 if true else 1 }}",
    "<{{ 1 if false }}>",
    "<{{ (1 if false).bar }}>",
    "{{ \"foo\"|upper + \"bar\"|upper }}",
    "{{ () }}",
    "{{ (1, 2) }}",
    "{{ (1, 2,) }}",
    "{{ 1, }}",
    "{{ 1, 2 }}",
    "{% for foo, bar in seq %}...{% endfor %}",
    "{% for x in foo, bar %}...{% endfor %}",
    "{% for x in foo, %}...{% endfor %}",
    "{{ (1, 2,) }}|{{ [1, 2,] }}|{{ {1: 2,} }}",
    "{% block foo %}...{% endblock foo %}",
    "{% block x %}{% endblock y %}",
    "{{ foo is string is sequence }}",
    "{{ \"foo\" \"bar\" \"baz\" }}",
    "{{ not 42 in bar }}",
    "{{ 2 * 3 + 4 % 2 + 1 - 2 }}",
    "{{ foo[1, 2] }}",
    "{% raw %}{{ FOO }} and {% BAR %}{% endraw %}",
    "{{ FOO }} and {% BAR %}",
    "{{ true }}|{{ false }}|{{ none }}|{{ none is defined }}|{{ missing is defined }}",
    "{{ -1|foo }}",
    "{% set foo = 0 %}{% for item in [1, 2] %}{% set foo = 1 %}{% endfor %}{{ foo }}",
    "{{ -foo[\"bar\"] }}",
    "{{ -foo[\"bar\"]|abs }}",
    "    {% if True %}\n    {% endif %}",
    "    {%+ if True %}\n    {%+ endif %}",
    "    hello{% if True %}\n    goodbye{% endif %}",
    "    {% if True %}hello    {% endif %}",
    "    {% if True %}a {% if True %}b {% endif %}c {% endif %}",
    "    abc {% if True %}\n        hello{% endif %}",
    "    {% set x = \" {% str %} \" %}{{ x }}",
    " {% str %} ",
    "\n\n\n{% set hello = 1 %}",
    "    {# if True #}\nhello\n    {#endif#}",
    "    <% if True %>hello    <% endif %>",
    "    <%# if True %>hello    <%# endif %>",
    "    <%# regular comment %>\n    <% for item in seq %>\n${item} ## the rest of the stuff\n   <% endfor %>",
    "    <%#regular comment%>\n    <%for item in seq%>\n${item} ## the rest of the stuff\n   <%endfor%>",
    "  {% if kvs %}(\n   {% for k, v in kvs %}{{ k }}={{ v }} {% endfor %}\n  ){% endif %}",
    "  ({% if kvs %}\n   {% for k, v in kvs %}{{ k }}={{ v }} {% endfor %}\n  {% endif %})",
    "  {% if kvs %}   {% for k, v in kvs %}{{ k }}={{ v }} {% endfor %}  {% endif %}",
    "  {% if kvs -%}   {% for k, v in kvs %}{{ k }}={{ v }} {% endfor -%}  {% endif -%}",
    "  {%- if kvs %}   {%- for k, v in kvs %}{{ k }}={{ v }} {% endfor -%}  {%- endif %}",
    " {# 1 space #}\n  {# 2 spaces #}    {# 4 spaces #}",
    "{{x}}\n{%- raw %} {% endraw -%}\n{{ y }}",
    "    <!-- I'm a comment, I'm not interesting -->\n    <? for item in seq -?>\n        <?= item ?>\n    <?- endfor ?>",
    "    <!-- I'm a comment, I'm not interesting -->\n    <? for item in seq ?>\n        <?= item ?>\n    <? endfor ?>",
    "    <!-- I'm a comment, I'm not interesting -->\n    <?for item in seq?>\n        <?=item?>\n    <?endfor?>",
    "<%# I'm a comment, I'm not interesting %>\n    <% for item in seq %>\n    <%= item %>\n    <% endfor %>\n",
    "<%# I'm a comment, I'm not interesting %>\n    <% for item in seq -%>\n        <%= item %>\n    <%- endfor %>",
    "<%# I'm a comment, I'm not interesting %>\n    <%+ for item in seq -%>\n        <%= item %>\n    <%- endfor %>",
    "    {% if True +%}\n    {% endif %}",
    "{% if True %}X{% endif +%}\nmore things",
    "    {# comment #}\n    ",
    "    {# comment +#}\n    ",
    "    {% raw %}{% endraw %}\n    ",
    "    {% raw %}{% endraw +%}\n    ",
    "    {% if True %}\na {% if True %}\nb {% endif %}\nc {% endif %}",
    "    {% if True +%}\na {% if True +%}\nb {% endif +%}\nc {% endif %}",
    "    {# comment #}\n\n  ",
    "    {# comment +#}\n\n  ",
    "   {# comment #}\n\n{# comment2 #}\n   \n{# comment3 #}\n\n ",
    "   {# comment +#}\n\n{# comment2 +#}\n   \n{# comment3 +#}\n\n ",
    "{{x}}{% raw %}\n\n    {% endraw %}\n\n{{ y }}",
    "{{x}}{% raw %}\n\n      {% endraw +%}\n\n{{ y }}",
    "    <% if True +%>\n\n    <% endif %>",
    "    <%# comment +%>\n\n   ",
    "    <? if True +?>\n\n    <? endif ?>",
    "    <!-- comment +-->\n\n    ",
    "{{ 4 < 2 < 3 }}",
    "{{ a < b < c }}",
    "{{ 4 > 2 > 3 }}",
    "{{ a > b > c }}",
    "{{ 4 > 2 < 3 }}",
    "{{ a > b < c }}",
    "{{x}}{% raw +%}\n\n  {% endraw +%}\n\n{{ y }}",
    " }}|{{ ",
    "{{ \"\u2668\" }}",
    "{{ 42 is string or 42 is number }}",
    "{{ foo(",
    "{{ missing is defined }}",
    "{{ 3 + missing }}",
    "{{ a + b }}",
    "{{ a }} + {{ b }}",
    "{% for x in value %}{{ x }}{% endfor %}",
    "{{ x.__class__ }}",
    "{{ true.__class__ }}",
    "{{ true.__class__|string }}",
    "[{{ 'all' }}]",
    "'{{ a }}', 'data', '{{ b }}', b'{{ c }}'",
    "--host='{{ host }}' --user \"{{ user }}\"",
    "0.000{{ a }}",
    "{{ true }}",
    " {{ True }}",
    "{%- macro x() -%}{{- [1,2] -}}{%- endmacro -%}{{- x()[1] -}}",
    "{% block b %}{% for i in range(1) %}{{ loop.index }}{% endfor %}{% endblock %}{{ self.b() }}",
    "{{ 1 == 1 }}",
    "{{ 2 + 2 == 5 }}",
    "{{ None is none }}",
    "{{ '' == None }}",
    "{%- macro x(y) -%}{{ y }}{%- endmacro -%}{{- x('not') }} {{ x('bad') -}}",
    "x={{ x }}",
    "{% macro m() %}<html>{% endmacro %}",
    "{% autoescape true %}{{ m() }}{% endautoescape %}",
    "{% if True %}{{ a.b }}{% set a = 1 %}{% elif False %}{% set a = 2 %}{% else %}{% set a = 3 %}{% endif %}{{ a }}",
    "\n        {%- for item in (1, 2, 3, 4) -%}\n            [{{ item }}]\n        {%- endfor %}\n        {{- item -}}\n        ",
    "\n        {%- for item in (1, 2, 3, 4) -%}\n            [{{ item }}]\n        {%- endfor %}\n        {%- set item = 42 %}\n        {{- item -}}\n        ",
    "\n        {%- set item = 42 %}\n        {%- for item in (1, 2, 3, 4) -%}\n            [{{ item }}]\n        {%- endfor %}\n        {{- item -}}\n        ",
    "\n        {%- set wrapper = \"<FOO>\" %}\n        {%- for item in (1, 2, 3, 4) %}\n            {%- macro wrapper() %}[{{ item }}]{% endmacro %}\n            {{- wrapper() }}\n        {%- endfor %}\n        {{- wrapper -}}\n        ",
    "\n        {%- for item in (1, 2, 3, 4) %}\n            {%- macro wrapper() %}[{{ item }}]{% endmacro %}\n            {{- wrapper() }}\n        {%- endfor %}\n        {%- set wrapper = \"<FOO>\" %}\n        {{- wrapper -}}\n        ",
    "\n        {%- for item in (1, 2, 3, 4) %}\n            {%- macro wrapper() %}[{{ item }}]{% endmacro %}\n            {{- wrapper() }}\n        {%- endfor %}\n        {{- wrapper -}}\n        ",
    "{% if expr %}{% extends \"parent.html\" %}{% endif %}[[{% block title %}title{% endblock %}]]{% for item in [1, 2, 3] %}({{ item }}){% endfor %}",
    "{{ \"http://www.example.org/<foo\"|urlize }}",
    "{{ \"(see http://www.example.org/?page=subj_<desc.h>)\"|urlize }}",
    "\n\n        {% macro test() %}\n            {{ caller() }}\n        {% endmacro %}\n\n        {% for num1 in range(5) %}\n            {% call test() %}\n                {% for num2 in range(10) %}\n                    {{ loop.index }}\n                {% endfor %}\n            {% endcall %}\n        {% endfor %}\n\n        ",
    "% for item in seq {# missing #}\n...% endfor",
    "{% for i in (1, 2) %}{{ i }}{% endfor %}{% macro i() %}3{% endmacro %}{{ i() }}",
    "{% if b %}{% set a = 42 %}{% endif %}{{ a }}",
    "# for j in [1, 2]:\n#   set x = 1\n#   for i in [1, 2]:\n#     print x\n#     if i % 2 == 0:\n#       set x = x + 1\n#     endif\n#   endfor\n# endfor\n# if a\n#   print 'A'\n# elif b\n#   print 'B'\n# elif c == d\n#   print 'C'\n# else\n#   print 'D'\n# endif\n    ",
    "\n            {% set x = 1 %}\n            {% for item in foo %}\n                {% if item == 1 %}\n                    {% set x = 2 %}\n                {% endif %}\n            {% endfor %}\n            {{ x }}\n        ",
    "{% if %}....{% endif %}",
    "{% if foo %}...{% elif %}...{% endif %}",
    "{% for x in %}..{% endfor %}",
    "\n            {% for p in foo recursive%}\n                {{p.bar}}\n                {% for f in p.fields recursive%}\n                    {{f.baz}}\n                    {{p.bar}}\n                    {% if f.rec %}\n                        {{ loop(f.sub) }}\n                    {% endif %}\n                {% endfor %}\n            {% endfor %}\n            ",
    "\n            {% for p in foo%}\n                {{p.bar}}\n                {% for f in p.fields recursive%}\n                    {{f.baz}}\n                    {{p.bar}}\n                    {% if f.rec %}\n                        {{ loop(f.sub) }}\n                    {% endif %}\n                {% endfor %}\n            {% endfor %}\n            ",
    "\n            {% for x in y %}\n                {{ loop.index0 }}\n            {% else %}\n                {% for i in range(3) %}{{ i }}{% endfor %}\n            {% endfor %}\n        ",
    "{{ callableclass() }}",
    "{% extends \"main\" %}{% set x %}42{% endset %}",
    "{% for x in y %}{{ loop.index0 }}{% else %}{% for i in range(3) %}{{ i }}{% endfor %}{% endfor %}",
    "\n        {% set i = 1 %}\n        {% macro test() %}\n            {% for i in range(0, 10) %}{{ i }}{% endfor %}\n        {% endmacro %}{{ test() }}\n        ",
    "\n        {% macro outer() %}\n            {% set i = 1 %}\n            {% macro test() %}\n                {% for i in range(0, 10) %}{{ i }}{% endfor %}\n            {% endmacro %}{{ test() }}\n        {% endmacro %}{{ outer() }}\n        ",
    "\n        {% macro test(a, b, c=get_int()) -%}\n             {{ a + b + c }}\n        {%- endmacro %}\n        {{ test(1, 2) }}|{{ test(1, 2, 3) }}\n        ",
    "\n        {% set n=[1,2,3,4,5] %}\n        {% for n in [[1,2,3], [3,4,5], [5,6,7]] %}\n\n        {% macro x(l) %}\n          {{ l.pop() }}\n          {% if l %}{{ x(l) }}{% endif %}\n        {% endmacro %}\n\n        {{ x(n) }}\n\n        {% endfor %}\n        ",
    "{% for x in x.y %}{{ x }}{% endfor %}",
    "{% for x in x.y %}{{ loop.index0 }}|{{ x }}{% endfor %}",
    "{% for x in x.y recursive %}{{ x }}{% endfor %}",
    "{% macro x(caller=none) %}[{% if caller %}{{ caller() }}{% endif %}]{% endmacro %}{{ x() }}{% call x() %}aha!{% endcall %}",
    "{% macro x(caller=none) %}[{% if caller %}{{ caller() }}{% endif %}]{% endmacro %}",
    "{% macro x() %}{% block foo %}x{% endblock %}{% endmacro %}{{ x() }}",
    "{% set x = 1 %}{% with x = 2 %}{% block y scoped %}{{ x }}{% endblock %}{% endwith %}",
    "{% if foo %}{% else %}42{% endif %}",
    "{% if object1.subproperty1 is eq object2.subproperty2 %}42{% endif %}",
    "{%- for value in values recursive %}1{% else %}0{% endfor -%}",
    "Start\n{% for i in [\"foo\", \"bar\"] -%}\n{% block body scoped -%}\n{{ loop.index }}) {{ i }}{% if loop.last %} last{% endif -%}\n{%- endblock %}\n{% endfor -%}\nEnd",
    "{% set i = 42 %}\n{%- for idx in range(2) -%}\n{{ i }}{{ j }}\n{% set i = idx -%}\n{%- set j = loop.index -%}\n{{ test() }}\n{{ i }}{{ j }}\n{% endfor -%}\n{{ i }}{{ j }}",
    "{% set i = 42 %}\n{%- for idx in range(2) -%}\n{{ i }}\n{%- set i = loop.index0 -%}\n{% block body scoped %}\n{{ test() }}\n{% endblock -%}\n{% endfor -%}\n{{ i }}",
    "{%- set i = 42 -%}\n{{ i }}\n{% block body -%}\n{% set i = 24 -%}\n{{ test() }}\n{% endblock -%}\n{{ i }}",
    "{%- set i = 42 -%}\n{% for idx in range(2) -%}\n{{ test() }}\n{%- set i = idx -%}\n{% block body scoped %}\n{{ test() }}\n{% set i = 24 -%}\n{{ test() }}\n{% endblock -%}\n{{ test() }}\n{% endfor -%}\n{{ test() }}",
    "{% set output %}{% for x in [1,2,3] %}hello{% endfor %}{% endset %}{{ output }}",
    "{% for x in ['one', 'foo'] | select('foo') %}{{ x }}{% endfor %}",
    "{% macro x(caller) %}[{% if caller %}{{ caller() }}{% endif %}]{% endmacro %}",
    "{{ foobar }}",
    "{% extends \"base\" %}",
    "{{ 'test'|testing(some='stuff') }}",
    "(({% block title %}{% endblock %}))",
    "{% block body %}[{{ x }}]{% endblock %}",
    "\n                {%- set foo = 'bar' -%}\n                {% include 'x.html' -%}\n            ",
    "\n                {%- set foo = 'bar' -%}\n                {% block test %}{% include 'x.html' %}{% endblock -%}\n                ",
    "\n                {%- set foo = 'bar' -%}\n                {% block test %}{% set foo = foo\n                    %}{% include 'x.html' %}{% endblock -%}\n            ",
    "{{ foo }}|{{ test }}",
    "{{ var }}",
    "{% include \"include.html\" %}",
    "{% extends \"base.html\" %}{% set var = 42 %}",
    "{% set foo = \"foo\" %}{{ foo }}{% include \"inc\" %}",
    "{{ i }}",
    "{% for i in [1, 2, 3] %}{% include \"inc\" %}{% endfor %}",
    "{{ x }} {{ y }}",
    "[{% for i in lst|reverse %}(len={{ loop.length }}, revindex={{ loop.revindex }}, index={{ loop.index }}, val={{ i }}){% endfor %}]",
    "[{% for i in lst|reverse %}(len={{ loop.length }}, revindex0={{ loop.revindex0 }}, index0={{ loop.index0 }}, val={{ i }}){% endfor %}]",
    "{% for _, g in gs %}{{ loop.index }} {{ g|list }}\n{% endfor %}",
    "{{ calc() }}",
    "{% for item.attribute in seq %}...{% endfor %}",
    "{% for foo, bar.baz in seq %}...{% endfor %}",
    "{% macro say_hello(name) %}<p>Hello {{ name }}!</p>{% endmacro %}{{ say_hello(\"<blink>foo</blink>\") }}",
    "{{ cls|attr(\"__subclasses__\")() }}",
    "{{ \"a{0.__class__}b\".format(42) }}",
    "{{ \"a{0.foo}b\".format({\"foo\": 42}) }}",
    "{{ (\"a{0.__class__}b{1}\"|safe).format(42, \"<foo>\") }}",
    "{{ (\"a{0.foo}b{1}\"|safe).format({\"foo\": 42}, \"<foo>\") }}",
    "{{ (\"a{}b{}\").format(\"foo\", \"42\")}}",
    "{{ (\"a{}b{}\"|safe).format(42, \"<foo>\") }}",
    "{{ \"a{x.__class__}b\".format_map({\"x\":42}) }}",
    "{{ \"a{x.foo}b\".format_map({\"x\":{\"foo\": 42}}) }}",
    "{{ (\"a{x.foo}b{y}\"|safe).format_map({\"x\":{\"foo\": 42}, \"y\":\"<foo>\"}) }}",
    "{% set\n                ns = namespace(run=\"{0.__call__.__builtins__[__import__]}\".format)\n            %}\n            {{ ns | run(not_here) }}\n            ",
    "{{ \"{0.__call__.__builtins__[__import__]}\"\n                  | attr(\"format\")(not_here) }}",
    "{{ foo.foo() }}",
    "{{ foo._foo() }}",
    "{{ foo.__class__.__subclasses__() }}",
    "{{ [].append(23) }}",
    "{{ [].clear() }}",
    "{{ [1].pop() }}",
    "{{ {1:2}.clear() }}",
    "{{ foo.bar() }}",
    "{{ foo.__class__ }}",
    "{{ foo.func_code }}",
    "{% if x is defined %}{{ x is f }}{% endif %}",
    "{{ missing is defined }}|{{ true is defined }}",
    "{{ 1 is even }}|{{ 2 is even }}",
    "{{ 1 is odd }}|{{ 2 is odd }}",
    "{{ \"foo\" is lower }}|{{ \"FOO\" is lower }}",
    "{{ \"FOO\" is upper }}|{{ \"foo\" is upper }}",
    "{{ foo is eq 12 }}|{{ foo is eq 0 }}|{{ foo is eq (3 * 4) }}|{{ bar is eq \"baz\" }}|{{ bar is eq \"zab\" }}|{{ bar is eq (\"ba\" + \"z\") }}|{{ bar is eq bar }}|{{ bar is eq foo }}",
    "{{ foo is sameas false }}|{{ 0 is sameas false }}",
    "{{ foo is sameas none }}",
    "{{ x is escaped }}|{{ y is escaped }}",
    "{{ 1 is greaterthan 0 }}|{{ 0 is greaterthan 1 }}",
    "{{ 0 is lessthan 1 }}|{{ 1 is lessthan 0 }}",
    "{{ 'us-west-1' is matching '(us-east-1|ap-northeast-1)' or 'stage' is matching '(dev|stage)' }}",
    "{{ \"o\" is in \"foo\" }}|{{ \"foo\" is in \"foo\" }}|{{ \"b\" is in \"foo\" }}|{{ 1 is in ((1, 2)) }}|{{ 3 is in ((1, 2)) }}|{{ 1 is in [1, 2] }}|{{ 3 is in [1, 2] }}|{{ \"foo\" is in {\"foo\": 1}}}|{{ \"baz\" is in {\"bar\": 1}}}",
    "{{ x is f }}",
    "{{ 2 is ",
]
