"""C04 - template inheritance renders the most-derived block overrides.

Case: {"ir": hierarchy IR (vt/gen/tsets.py, kind "inherit"), "data": {...}}.
Every template of the chain is rendered as an entry point (so one case exercises chain depths
1..k+1), in a sync and in an enable_async environment, via ``get_template(name).render(data)`` from a
DictLoader, and compared with the independent resolver ``vt.ref.resolve`` (which never imports
jinja2): the expected text, or the expected error family (TemplateRuntimeError for a required block
nobody overrides, UndefinedError for a *called* super() beyond the root).
"""
import asyncio

from vt import core
from vt.gen import tsets
from vt.ref import resolve as ref

PID = "C04"
LEVEL = "exploration"
RULE = (
    "Hypothesis-generated inheritance chains t0<-..<-tk (k<=3 quick, <=4 thorough; 1-5 block names; nested blocks; "
    "super()/super.super()/self.x(); scoped and unscoped blocks inside loops; required blocks; static / conditional-"
    "expression / variable / Template-object / if-wrapped extends; stray text, outputs, loops, includes, call blocks, filter "
    "blocks, assignments and macros at the top level of children; blocks inside if/for/with/set-blocks of children; required blocks also in "
    "children whose extends is if-wrapped; environment autoescape off / on / callable-by-name, {% autoescape %} sections around "
    "super()/self.b()/macro calls, `super() + text`, metacharacters in text and data), every template rendered as "
    "an entry in sync and async mode and compared with the reference resolver. Non-trivial = a super() call was executed "
    "on a block overridden at >=2 levels, or a scoped block saw local variables, or stray child content was suppressed / "
    "a stray assignment executed; distinct = distinct serialised case."
)
ASSUMPTIONS = [
    "the resolver's visibility model (one shared context written in execution order leaf-first) is DESIGN.md 3.3, validated by probing",
    "not decided (discarded, counted): blocks run via self.b() or via a non-scoped nested placement that read names of a derived "
    "(scoped) context, super() reaching a required block, multi-level required",
    "never generated: required placements that may be unreachable, blocks before the extends tag, free-variable reads in macro bodies",
    "errors are compared by class family only",
    "escaping model: outputs are escaped by the lexical setting, block references / macro results are safe markup; cases where "
    "the context's run-time setting and the lexical one differ visibly are discarded",
]

_ERRS = None


def _errs():
    global _ERRS
    if _ERRS is None:
        import jinja2

        _ERRS = (jinja2.UndefinedError, jinja2.TemplateRuntimeError, jinja2.TemplateNotFound, jinja2.TemplateSyntaxError)
    return _ERRS


def family(exc):
    import jinja2

    if isinstance(exc, jinja2.UndefinedError):
        return "UndefinedError"
    if isinstance(exc, jinja2.TemplateNotFound):
        return "TemplateNotFound"
    if isinstance(exc, jinja2.TemplateSyntaxError):
        return "TemplateSyntaxError"
    if isinstance(exc, jinja2.TemplateRuntimeError):
        return "TemplateRuntimeError"
    raise exc


def observe(ir, data, enable_async, loop):
    """-> {entry: {"out": text} | {"err": family}} from the code under test"""
    env = tsets.make_env(ir, enable_async=enable_async)
    got = {}
    for name in ir["entries"]:
        try:
            got[name] = {"out": tsets.render_entry(env, name, data, loop)}
        except _errs() as e:
            got[name] = {"err": family(e)}
    return got


def compare(ir, data, expected, got, mode):
    for name in ir["entries"]:
        if expected[name] != got[name]:
            srcs = tsets.print_set(ir)
            raise core.Violation(
                "%s render of %r: expected %r, observed %r\n  data=%r\n  %s"
                % (mode, name, expected[name], got[name], data, "\n  ".join("%s: %s" % kv for kv in sorted(srcs.items()))),
                expected=expected[name], observed=got[name], sources=srcs,
            )


def check_case(case):
    ir, data = case["ir"], case["data"]
    bad = tsets.validate(ir)
    if bad:
        raise core.HarnessError("malformed case (generator bug): " + bad)
    try:
        expected, events = ref.resolve_with_events(ir, data)
    except ref.Ambiguous:
        raise core.Discard() from None
    loop = asyncio.new_event_loop()
    try:
        for mode, flag in (("sync", False), ("async", True)):
            compare(ir, data, expected, observe(ir, data, flag, loop), mode)
    finally:
        loop.close()
    depth = len(ir["entries"])
    nontrivial = (
        (depth >= 2 and any(e.startswith("super") for e in events) and any(e.startswith("override_depth") for e in events))
        or "scoped_with_locals" in events
        or "stray_output_suppressed" in events
        or "stray_assignment_executed" in events
        or "stray_include_suppressed" in events
        or "stray_callblock_suppressed" in events
        or "stray_filterblock_suppressed" in events
    )
    labels = ["depth_%d" % depth] + sorted(events)
    for r in expected.values():
        labels.append("exp_" + ("out" if "out" in r else r["err"]))
    return core.Outcome(nontrivial, labels)


def shards(tier):
    return [{"i": i} for i in range(16)]


def run_shard(spec, ctx):
    # measured single-process cost incl. generation: ~11 ms per case (quick sizes), ~16 ms (thorough sizes)
    n = ctx.pick(2400, 36000)
    strat = tsets.hierarchies(max_depth=ctx.pick(3, 4), max_blocks=ctx.pick(4, 5), size=ctx.pick(3, 4))
    rec = core.Rec()
    chunk = 6000  # several seeded Hypothesis runs per shard keep each run's example database small
    done = 0
    while done < n and not rec.violations:
        m = min(chunk, n - done)
        core.hyp_shard(strat, check_case, ctx, m, rec=rec, tag="inherit-%d" % done)
        done += m
    return rec


FLOORS = {
    "super1": 0.10, "super2": 0.02, "selfcall": 0.03, "scoped_with_locals": 0.05, "required_overridden": 0.02,
    "exp_TemplateRuntimeError": 0.02, "stray_output_suppressed": 0.10, "stray_assignment_executed": 0.10,
    "extends_cond": 0.03, "extends_n": 0.05, "unscoped_in_local_scope": 0.03, "stray_include_suppressed": 0.02,
    "child_block_in_local_scope": 0.01, "stray_callblock_suppressed": 0.02, "stray_filterblock_suppressed": 0.02,
    "autoescape_section_flips": 0.05,
}


def floors(total, tier):
    n = max(total.evaluations, 1)
    low = ["%s=%d" % (k, total.labels.get(k, 0)) for k, f in FLOORS.items() if total.labels.get(k, 0) < f * n * 0.5]
    if low:
        return "classes below floor: " + ", ".join(low)
    if total.discarded > 0.15 * n:
        return "too many discarded cases: %d of %d" % (total.discarded, n)
    return None
