"""C01 stream 4 (thorough tier): atheris / libFuzzer coverage-guided target.

Input bytes: byte 0 selects the environment (mod 7) and the interpretation of the rest:
three times out of four the rest is the template text itself (UTF-8, undecodable bytes replaced),
otherwise it drives the grammar printer ``srcgen.build_template`` (structure-aware mode).
The oracle is ``vt.props.c01.check_case`` - the same function every other stream uses; a Violation
escapes TestOneInput, libFuzzer stores the input as ``crash-*`` and the parent shard re-judges the
decoded case through the normal recorder, so a finding here is reported like any other.

Runs as a subprocess (``python -m vt.fuzz.c01_atheris <libFuzzer args>``) because
``atheris.Fuzz()`` never returns.  ``-runs`` and ``-seed`` are always given: the stream is bounded by
a case count and is a function of VERIF_SEED.
"""
import glob
import os
import re
import shutil
import subprocess
import sys

from vt.gen import srcgen

TIMEOUT_S = 120


def case_from_bytes(data):
    if not data:
        return None
    sel = data[0]
    env = srcgen.ENV_NAMES[sel % len(srcgen.ENV_NAMES)]
    if (sel // len(srcgen.ENV_NAMES)) % 4 == 3:
        src = srcgen.build_template(bytes(data[1:]), env)
    else:
        src = bytes(data[1:]).decode("utf-8", "replace")[: srcgen.MAX_LEN]
    return {"env": env, "src": src, "via": "atheris", "mode": "all"}


def bytes_from_source(env, src):
    return bytes([srcgen.ENV_NAMES.index(env)]) + src.encode("utf-8", "replace")


def _write_corpus(d, index):
    """Seed corpus: repository seed templates, the fragment alphabet, a few grammar outputs."""
    os.makedirs(d, exist_ok=True)
    n = 0
    for k, s in enumerate(srcgen.SEEDS):
        if k % 4 != index % 4:
            continue
        env = srcgen.ENV_NAMES[k % len(srcgen.ENV_NAMES)]
        with open(os.path.join(d, "seed%04d" % n), "wb") as f:
            f.write(bytes_from_source(env, s))
        n += 1
    for env in srcgen.ENV_NAMES:
        with open(os.path.join(d, "frag-" + env), "wb") as f:
            f.write(bytes_from_source(env, " ".join(srcgen.fragments(env))))
    for k in range(40):
        blob = bytes((k * 37 + j * (index + 11)) % 251 for j in range(120))
        with open(os.path.join(d, "gram%02d" % k), "wb") as f:
            f.write(bytes([21 + k % 7]) + blob)
    return n


def run_subprocess(seed, runs, index, extra):
    """Run the fuzzer; return the list of cases that made it stop (to be re-judged by the caller).
    Raises core.HarnessError for timeouts / out-of-memory / an unusable fuzzer."""
    from vt import core

    work = os.path.join(core.VERIF, ".work", "c01-atheris-%d-%d" % (os.getpid(), index))
    shutil.rmtree(work, ignore_errors=True)
    corpus = os.path.join(work, "corpus")
    art = os.path.join(work, "artifacts") + os.sep
    os.makedirs(art)
    os.makedirs(corpus)
    if index % 2 == 0:  # odd shards start from an empty corpus
        _write_corpus(corpus, index)
    cmd = [
        sys.executable, "-W", "ignore", "-m", "vt.fuzz.c01_atheris", corpus,
        "-runs=%d" % runs, "-seed=%d" % (seed % (2**31 - 1) + 1), "-max_len=700", "-timeout=%d" % TIMEOUT_S,
        "-artifact_prefix=" + art, "-print_final_stats=1", "-verbosity=0", "-rss_limit_mb=4096",
    ]
    try:
        p = subprocess.run(cmd, capture_output=True, text=True, errors="replace", cwd=core.VERIF)
        m = re.search(r"stat::number_of_executed_units:\s*(\d+)", p.stderr)
        executed = int(m.group(1)) if m else 0
        extra["atheris_executions"] = extra.get("atheris_executions", 0) + executed
        arts = sorted(glob.glob(art + "*"))
        cases = []
        for a in arts:
            with open(a, "rb") as f:
                data = f.read()
            case = case_from_bytes(data)
            base = os.path.basename(a)
            if base.startswith("crash-") and case is not None:
                cases.append(case)
            else:
                keep = os.path.join(os.environ.get("VERIF_FOUND_DIR") or os.path.join(core.VERIF, "found"), "C01")
                os.makedirs(keep, exist_ok=True)
                shutil.copy(a, os.path.join(keep, "atheris-" + base))
                raise core.HarnessError("atheris stopped with %s (input kept in %s); stderr tail: %s" % (base, keep, p.stderr[-800:]))
        if not arts and (p.returncode != 0 or executed == 0):
            raise core.HarnessError("atheris target failed (rc=%s, executed=%d): %s" % (p.returncode, executed, p.stderr[-1500:]))
        return cases
    finally:
        shutil.rmtree(work, ignore_errors=True)


def main(argv):
    import atheris

    with atheris.instrument_imports(include=["jinja2"]):
        import jinja2  # noqa: F401
        import jinja2.ext  # noqa: F401
        import jinja2.sandbox  # noqa: F401
    from vt import core
    from vt.props import c01

    c01._envs()

    def test_one_input(data):
        case = case_from_bytes(data)
        if case is None:
            return
        try:
            c01.check_case(case)
        except (core.Excluded, core.Discard):
            return

    atheris.Setup(argv, test_one_input)
    atheris.Fuzz()


if __name__ == "__main__":
    main(sys.argv)
