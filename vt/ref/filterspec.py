"""Executable specifications / validity predicates for the built-in filters (C22, C23, C24).

Written from the filter docstrings in src/jinja2/filters.py (= the "List of Builtin Filters" of
docs/templates.rst, which is generated from them), the docstrings of the built-in tests and the
Python functions those docstrings cite (``sorted``, ``min``, ``max``, ``sum``, ``str %``, ``int``,
``float``, ``str.center`` ...).  Nothing here imports or calls ``jinja2.filters`` / ``jinja2.utils``:
the expected side is computed with Python built-ins only.

Three kinds of things live here:

* a small tagged JSON codec (``dec`` / ``snap``) for values that JSON cannot express;
* the documented signatures (``SIGS`` / ``bind``) so a call shape (positional + keyword arguments)
  can be turned into parameter values without looking at the implementation;
* one ``spec_<filter>`` per filter, returning either ``Exact(value)`` or ``Pred(fn)`` where
  ``fn(result)`` returns ``None`` (acceptable) or a message.  Where a docstring leaves freedom the
  spec is a predicate over the output (nothing lost, nothing invented), not one expected value.
"""
from __future__ import annotations

import math
import re
from fractions import Fraction

from markupsafe import Markup

MISSING = type("Missing", (), {"__repr__": lambda self: "MISSING", "__bool__": lambda self: False})()
REQ = type("Required", (), {"__repr__": lambda self: "REQUIRED"})()


# --------------------------------------------------------------------------------------------
# codec


class Obj:
    """Attribute carrier for generated data (identity equality, so stability is observable)."""

    def __init__(self, attrs):
        self.__dict__.update(attrs)

    def __repr__(self):
        return "Obj(%r)" % (self.__dict__,)


class HtmlObj:
    """An object that provides its own HTML representation."""

    def __init__(self, html):
        self.html = html

    def __html__(self):
        return self.html

    def __str__(self):
        return "HtmlObj<%s>" % self.html

    __repr__ = __str__


class StrObj:
    """An arbitrary object whose string form is chosen by the case (no __html__: not trusted)."""

    def __init__(self, text):
        self.text = text

    def __str__(self):
        return self.text

    def __repr__(self):
        return "StrObj(%r)" % self.text


def dec(v):
    """Decode the tagged JSON encoding used in cases into Python values."""
    if isinstance(v, list):
        return [dec(x) for x in v]
    if isinstance(v, dict):
        tag = v.get("$")
        if tag is None:
            return {k: dec(x) for k, x in v.items()}
        if tag == "t":
            return tuple(dec(x) for x in v["v"])
        if tag == "m":
            return Markup(v["v"])
        if tag == "o":
            return Obj({k: dec(x) for k, x in v["v"].items()})
        if tag == "d":
            return {_hashable(dec(k)): dec(x) for k, x in v["v"]}
        if tag == "f":
            return float(v["v"])
        if tag == "pow":
            return v["b"] ** v["e"] * v.get("s", 1)
        if tag == "rep":
            return v["v"] * v["n"]
        if tag == "undef":
            from jinja2.runtime import Undefined

            return Undefined(name=v.get("name", "missing_value"))
        if tag == "set":
            return {_hashable(dec(x)) for x in v["v"]}
        if tag == "html":
            return HtmlObj(v["v"])
        if tag == "strobj":
            return StrObj(v["v"])
        if tag == "bytes":
            return v["v"].encode("latin-1")
        raise ValueError("unknown tag %r" % (tag,))
    return v


def _hashable(x):
    return tuple(x) if isinstance(x, list) else x


def snap(v):
    """Structural snapshot used to detect mutation of arguments (Obj compared by content here)."""
    if isinstance(v, Obj):
        return ("Obj", id(v), tuple((k, snap(x)) for k, x in sorted(v.__dict__.items())))
    if isinstance(v, dict):
        return ("dict", tuple((snap(k), snap(x)) for k, x in v.items()))
    if isinstance(v, (list, tuple)):
        return (type(v).__name__, tuple(snap(x) for x in v))
    if isinstance(v, float):
        return ("float", repr(v))
    if isinstance(v, str):
        return (type(v).__name__, str(v))
    if isinstance(v, (int, bool, type(None))):
        return (type(v).__name__, v)
    return ("other", type(v).__name__, repr(v))


# --------------------------------------------------------------------------------------------
# documented signatures: name -> ordered (parameter, default); REQ = required

SIGS = {
    "batch": [("linecount", REQ), ("fill_with", None)],
    "slice": [("slices", REQ), ("fill_with", None)],
    "unique": [("case_sensitive", False), ("attribute", None)],
    "groupby": [("attribute", REQ), ("default", None), ("case_sensitive", False)],
    "sort": [("reverse", False), ("case_sensitive", False), ("attribute", None)],
    "dictsort": [("case_sensitive", False), ("by", "key"), ("reverse", False)],
    "min": [("case_sensitive", False), ("attribute", None)],
    "max": [("case_sensitive", False), ("attribute", None)],
    "sum": [("attribute", None), ("start", 0)],
    "join": [("d", ""), ("attribute", None)],
    "reverse": [], "first": [], "last": [], "list": [], "length": [], "count": [],
    "truncate": [("length", 255), ("killwords", False), ("end", "..."), ("leeway", None)],
    "wordwrap": [("width", 79), ("break_long_words", True), ("wrapstring", None), ("break_on_hyphens", True)],
    "indent": [("width", 4), ("first", False), ("blank", False)],
    "center": [("width", 80)],
    "trim": [("chars", None)],
    "replace": [("old", REQ), ("new", REQ), ("count", None)],
    "int": [("default", 0), ("base", 10)],
    "float": [("default", 0.0)],
    "round": [("precision", 0), ("method", "common")],
    "filesizeformat": [("binary", False)],
    "title": [], "capitalize": [], "upper": [], "lower": [], "wordcount": [], "striptags": [], "urlencode": [],
    "escape": [], "e": [], "forceescape": [],
    "tojson": [("indent", None)],
    "xmlattr": [("autospace", True)],
    "urlize": [("trim_url_limit", None), ("nofollow", False), ("target", None), ("rel", None), ("extra_schemes", None)],
}


def bind(name, args, kwargs):
    """Positional + keyword arguments -> {parameter: value} following the documented signature."""
    sig = SIGS[name]
    if len(args) > len(sig):
        raise ValueError("too many positional arguments for %s" % name)
    out = {}
    for (p, _), a in zip(sig, args):
        out[p] = a
    for k, v in kwargs.items():
        if k in out or k not in dict(sig):
            raise ValueError("bad keyword %r for %s" % (k, name))
        out[k] = v
    for p, d in sig:
        if p not in out:
            if d is REQ:
                raise ValueError("missing %s for %s" % (p, name))
            out[p] = d
    return out


# --------------------------------------------------------------------------------------------
# outcome kinds


class Undecided(Exception):
    """The documentation does not decide this input (callers count it as discarded)."""


class Exact:
    def __init__(self, value):
        self.value = value

    def check(self, got):
        if not same(got, self.value):
            return "expected %r, got %r" % (self.value, got)
        return None


class Pred:
    def __init__(self, fn, desc=""):
        self.fn, self.desc = fn, desc

    def check(self, got):
        return self.fn(got)


class IsUndefined:
    """The documented result is an undefined value (e.g. first of an empty sequence)."""

    def check(self, got):
        from jinja2.runtime import Undefined

        if not isinstance(got, Undefined):
            return "expected an undefined value, got %r" % (got,)
        return None


def same(a, b):
    """Type-aware deep equality (1 != True != 1.0; list != tuple; Obj by identity; floats by repr)."""
    if a is b:
        return True
    if isinstance(a, bool) or isinstance(b, bool):
        return isinstance(a, bool) and isinstance(b, bool) and a == b
    if isinstance(a, float) or isinstance(b, float):
        return isinstance(a, float) and isinstance(b, float) and repr(a) == repr(b)
    if isinstance(a, str) and isinstance(b, str):
        return str(a) == str(b)
    if isinstance(a, tuple) and isinstance(b, tuple) or isinstance(a, list) and isinstance(b, list):
        return len(a) == len(b) and all(same(x, y) for x, y in zip(a, b))
    if isinstance(a, dict) and isinstance(b, dict):
        return list(a.keys()) == list(b.keys()) and all(same(a[k], b[k]) for k in a)
    if isinstance(a, (list, tuple, dict, str)) or isinstance(b, (list, tuple, dict, str)):
        return False
    return type(a) is type(b) and a == b


# --------------------------------------------------------------------------------------------
# attribute lookup "with the rules of the environment": subscript first, then attribute; dotted
# paths; all-digit parts are integers


def _get1(obj, part):
    if isinstance(obj, dict):
        return obj[part] if part in obj else MISSING
    if isinstance(obj, (list, tuple)):
        if isinstance(part, int) and not isinstance(part, bool) and -len(obj) <= part < len(obj):
            return obj[part]
        return MISSING
    if isinstance(obj, Obj):
        if isinstance(part, str) and part in obj.__dict__:
            return obj.__dict__[part]
        return MISSING
    return MISSING


def parts_of(attribute):
    if attribute is None:
        return []
    if isinstance(attribute, str):
        return [int(p) if p.isdigit() else p for p in attribute.split(".")]
    return [attribute]


def lookup(obj, attribute, default=None):
    for part in parts_of(attribute):
        obj = _get1(obj, part)
        if obj is MISSING:
            if default is None:
                return MISSING
            obj = default
    return obj


def fold(v, case_sensitive):
    """ignore_case: 'Converts strings to lowercase and returns other types as-is.'"""
    if not case_sensitive and isinstance(v, str):
        return v.lower()
    return v


# --------------------------------------------------------------------------------------------
# C22 collection filters


def spec_batch(items, p):
    n, fill = p["linecount"], p["fill_with"]
    out = [list(items[i:i + n]) for i in range(0, len(items), n)]
    if out and fill is not None:
        out[-1] = out[-1] + [fill] * (n - len(out[-1]))
    return Exact(out)


def spec_slice(items, p):
    k, fill = p["slices"], p["fill_with"]
    per, extra = divmod(len(items), k)
    out, pos = [], 0
    for col in range(k):
        size = per + (1 if col < extra else 0)
        chunk = list(items[pos:pos + size])
        pos += size
        # "used to fill missing values on the last iteration": only columns that are one short
        if fill is not None and extra and col >= extra:
            chunk.append(fill)
        out.append(chunk)
    return Exact(out)


def spec_unique(items, p):
    seen, out = [], []
    for it in items:
        k = fold(lookup(it, p["attribute"]), p["case_sensitive"])
        if k not in seen:
            seen.append(k)
            out.append(it)
    return Exact(out)


def spec_sort(items, p):
    attr = p["attribute"]
    attrs = attr.split(",") if isinstance(attr, str) else [attr]
    cs = p["case_sensitive"]

    def key(it):
        return [fold(lookup(it, a), cs) for a in attrs]

    return Exact(sorted(items, key=key, reverse=bool(p["reverse"])))


def spec_dictsort(d, p):
    pos = {"key": 0, "value": 1}[p["by"]]
    return Exact(sorted(d.items(), key=lambda kv: fold(kv[pos], p["case_sensitive"]), reverse=bool(p["reverse"])))


def spec_groupby(items, p):
    cs = p["case_sensitive"]
    groups = []  # (folded key, first-seen spelling, members) in first-seen order
    for it in items:
        raw = lookup(it, p["attribute"], p["default"])
        k = fold(raw, cs)
        for g in groups:
            if g[0] == k:
                g[2].append(it)
                break
        else:
            groups.append((k, raw, [it]))
    groups.sort(key=lambda g: g[0])
    # case-insensitive: "The key for each group will have the case of the first item in that group"
    return Exact([(g[0] if cs else g[1], g[2]) for g in groups])


def _spec_extreme(items, p, pick):
    """Python's min()/max(): 'If multiple items are minimal [maximal], the function returns the first one
    encountered' - the result is that very item (identity; for equal immutable values same type and value)."""
    if not items:
        return IsUndefined()
    keys = [fold(lookup(it, p["attribute"]), p["case_sensitive"]) for it in items]
    best = pick(keys)
    first = [it for it, k in zip(items, keys) if k == best][0]

    def pred(got):
        if got is first or (type(got) is type(first) and not isinstance(first, (Obj, dict, list)) and same(got, first)):
            return None
        return "expected the first item with extreme key %r, i.e. %r, got %r" % (best, first, got)

    return Pred(pred)


def spec_min(items, p):
    return _spec_extreme(items, p, min)


def spec_max(items, p):
    return _spec_extreme(items, p, max)


def spec_sum(items, p):
    vals = [lookup(it, p["attribute"]) for it in items]
    total = p["start"]
    if isinstance(total, list):
        total = list(total)
    for v in vals:
        total = total + v
    if isinstance(total, float):
        # float addition is not associative and Python's sum() may compensate: accept a rounding-sized band
        exact = Fraction(p["start"]) + sum((Fraction(v) for v in vals), Fraction(0))
        scale = max([abs(Fraction(v)) for v in vals] + [abs(Fraction(p["start"])), Fraction(1)])

        def pred(got):
            if not isinstance(got, float) or abs(Fraction(got) - exact) > scale * (len(vals) + 1) / 2 ** 50:
                return "expected about %r, got %r" % (float(exact), got)
            return None

        return Pred(pred)
    return Exact(total)


def spec_join(items, p):
    vals = [lookup(it, p["attribute"]) for it in items]
    return Exact(str(p["d"]).join(str(v) for v in vals))


def spec_reverse(items, p):
    if isinstance(items, str):
        return Exact(items[::-1])
    return Exact(list(items)[::-1])


def spec_first(items, p):
    return Exact(items[0]) if len(items) else IsUndefined()


def spec_last(items, p):
    return Exact(items[-1]) if len(items) else IsUndefined()


def spec_list(items, p):
    return Exact(list(items))


def spec_length(items, p):
    return Exact(len(items))


spec_count = spec_length

# built-in tests, from their docstrings
TESTS = {
    "odd": lambda v: v % 2 == 1,
    "even": lambda v: v % 2 == 0,
    "divisibleby": lambda v, n: v % n == 0,
    "defined": lambda v: v is not MISSING,
    "undefined": lambda v: v is MISSING,
    "none": lambda v: v is None,
    "string": lambda v: isinstance(v, str),
    "number": lambda v: isinstance(v, (int, float)) ,
    "integer": lambda v: isinstance(v, int) and not isinstance(v, bool),
    "boolean": lambda v: isinstance(v, bool),
    "true": lambda v: v is True,
    "false": lambda v: v is False,
    "mapping": lambda v: isinstance(v, dict),
    "sequence": lambda v: isinstance(v, (list, tuple, str)),
    "in": lambda v, seq: v in seq,
    "eq": lambda a, b: a == b, "==": lambda a, b: a == b, "equalto": lambda a, b: a == b,
    "ne": lambda a, b: a != b, "!=": lambda a, b: a != b,
    "lt": lambda a, b: a < b, "<": lambda a, b: a < b, "lessthan": lambda a, b: a < b,
    "le": lambda a, b: a <= b, "<=": lambda a, b: a <= b,
    "gt": lambda a, b: a > b, ">": lambda a, b: a > b, "greaterthan": lambda a, b: a > b,
    "ge": lambda a, b: a >= b, ">=": lambda a, b: a >= b,
    "lower": lambda v: str(v).islower(),
    "upper": lambda v: str(v).isupper(),
}


def _truth(v):
    return False if v is MISSING else bool(v)


def spec_select_family(name, items, args):
    """select / reject / selectattr / rejectattr: '(n for n in numbers if [not] test(n [.attr], *args))'"""
    args = list(args)
    attr = None
    if name.endswith("attr"):
        attr = args.pop(0)
    if args:
        test = TESTS[args[0]]
        targs = args[1:]
        fn = lambda v: bool(test(v, *targs))  # noqa: E731
    else:
        fn = _truth
    want = not name.startswith("reject")
    out = []
    for it in items:
        v = lookup(it, attr) if attr is not None else it
        if fn(v) is want:
            out.append(it)
    return Exact(out)


# filters usable inside map(), as plain Python definitions
MAPPABLE = {
    "upper": lambda v: str(v).upper(),
    "lower": lambda v: str(v).lower(),
    "string": lambda v: str(v),
    "abs": lambda v: abs(v),
    "length": lambda v: len(v),
    "first": lambda v: v[0],
    "last": lambda v: v[-1],
    "list": lambda v: list(v),
    "int": lambda v: int(v),
    "default": lambda v, d="": v,
    "replace": lambda v, a, b: str(v).replace(a, b),
    "center": lambda v, w=80: str(v).center(w),
}


def spec_map(items, args, kwargs):
    if not args and "attribute" in kwargs:
        return Exact([lookup(it, kwargs["attribute"], kwargs.get("default")) for it in items])
    fn = MAPPABLE[args[0]]
    return Exact([fn(it, *args[1:], **kwargs) for it in items])


# --------------------------------------------------------------------------------------------
# C23 string filters

WS_TEXTWRAP = "\t\n\x0b\x0c\r "


def spec_truncate(s, p, policy_leeway=5):
    length, kill, end = p["length"], p["killwords"], p["end"]
    leeway = policy_leeway if p["leeway"] is None else p["leeway"]
    if len(s) <= length + leeway:
        return Exact(s)
    room = length - len(end)

    def pred(got):
        if not isinstance(got, str):
            return "expected a string, got %r" % (got,)
        if not got.endswith(end):
            return "truncated text does not end with the ellipsis %r: %r" % (end, got)
        if len(got) > length:
            return "truncated text is %d long, more than the requested %d: %r" % (len(got), length, got)
        kept = got[:len(got) - len(end)]
        if not s.startswith(kept):
            return "kept text %r is not a prefix of the input" % (kept,)
        if kill:
            if len(kept) != room:
                return "killwords: expected the text to be cut at %d characters, kept %d" % (room, len(kept))
            return None
        window = s[:room]
        if " " not in window:
            if kept != window:
                return "no space to cut at: expected %r, kept %r" % (window, kept)
            return None
        if kept == window and s[room:room + 1] == " ":
            return None  # cut exactly at a word boundary: nothing to discard
        cut = len(kept)
        if cut >= room or s[cut] != " " or " " in s[cut + 1:room]:
            return "expected only the last (partial) word to be discarded from %r, kept %r" % (window, kept)
        return None

    return Pred(pred)


def spec_wordwrap(s, p, newline="\n"):
    """Validity predicate: every paragraph (line of the input) is wrapped separately; each output line
    is a verbatim slice of its paragraph, in order, and only whitespace disappears between slices;
    no line exceeds the width when long words may be broken; a word is only broken when it is longer
    than the width (break_long_words) or next to a hyphen (break_on_hyphens)."""
    width, blw = p["width"], p["break_long_words"]
    hyph = p["break_on_hyphens"]
    sep = newline if p["wrapstring"] is None else p["wrapstring"]
    paragraphs = s.splitlines()
    ws = WS_TEXTWRAP
    # textwrap (the documented engine) breaks at its ASCII whitespace set only but strips lines with
    # str.strip(), which also removes other Unicode whitespace: what happens to such characters is not
    # a documented contract, so paragraphs containing them are declined.
    if any(ch.isspace() and ch not in ws for para in paragraphs for ch in para):
        raise Undecided("whitespace outside textwrap's ASCII set")

    def pred(got):
        if not isinstance(got, str):
            return "expected a string, got %r" % (got,)
        if not paragraphs:
            return None if got == "" else "expected '' for an input without lines, got %r" % (got,)
        lines = got.split(sep)
        li = 0
        for para in paragraphs:
            if para.strip() == "":
                if para.strip(ws) != "":
                    # only non-ASCII whitespace: textwrap does not break there but may drop it; not defined
                    raise Undecided("paragraph of non-ASCII whitespace only")
                if li >= len(lines) or lines[li] != "":
                    return "blank paragraph %r must give one empty line, got %r" % (para, lines[li:li + 1])
                li += 1
                continue
            pos = 0
            while para[pos:].strip() != "":
                if li >= len(lines):
                    return "text %r was lost" % (para[pos:],)
                ln = lines[li]
                li += 1
                if ln == "":
                    return "empty line while %r of paragraph %r is pending" % (para[pos:], para)
                if blw and len(ln) > width:
                    return "line %r is longer than width %d" % (ln, width)
                rest = para[pos:]
                skipped = len(rest) - len(rest.lstrip())  # any Unicode whitespace may be dropped
                at = None
                for c in range(pos, pos + skipped + 1):
                    if para.startswith(ln, c):
                        at = c
                        break
                if at is None:
                    return "line %r is not the next slice of paragraph %r (from offset %d)" % (ln, para, pos)
                end = at + len(ln)
                if not blw and len(ln) > width and any(ch in ws for ch in ln.strip(ws)):
                    return "line %r exceeds width %d although it could be broken at whitespace" % (ln, width)
                if end < len(para) and para[end] not in ws and ln[-1] not in ws:
                    a = end
                    while a > 0 and para[a - 1] not in ws:
                        a -= 1
                    b = end
                    while b < len(para) and para[b] not in ws:
                        b += 1
                    long_word = blw and b - a > width
                    at_hyphen = hyph and (ln[-1] == "-" or para[end] == "-")
                    if not (long_word or at_hyphen):
                        return "line %r ends inside the word %r" % (ln, para[a:b])
                pos = end
            # trailing non-ASCII whitespace may surface as a whitespace-only line of this paragraph
            while li < len(lines) and lines[li] != "" and lines[li].strip() == "" and lines[li] in para[pos:]:
                pos = para.index(lines[li], pos) + len(lines[li])
                li += 1
        if li != len(lines):
            return "unexpected extra lines %r" % (lines[li:],)
        return None

    return Pred(pred)


def split_lines(s):
    """Lines of s by Python's definition of line boundaries; a trailing break opens a last empty line."""
    lines = s.splitlines()
    if s == "" or s.splitlines(True)[-1] != lines[-1]:
        lines.append("")
    return lines


def spec_indent(s, p, esc=None):
    width, first, blank = p["width"], p["first"], p["blank"]
    ind = width if isinstance(width, str) else " " * width
    if esc is not None:
        ind = esc(ind)
    lines = split_lines(s)

    def pred(got):
        if not isinstance(got, str):
            return "expected a string, got %r" % (got,)
        pos = 0
        for i, ln in enumerate(lines):
            if i:
                if got[pos:pos + 1] != "\n":
                    return "expected a newline before line %d at offset %d of %r" % (i, pos, got)
                pos += 1
            last_pseudo = i == len(lines) - 1 and ln == "" and len(lines) > 1
            if i == 0 and not first:
                want = [False]
            elif ln == "":
                # an empty first line with first=True: 'first' and 'blank' disagree, either is accepted
                want = [True, False] if last_pseudo or (i == 0 and not blank) else [bool(blank)]
            elif ln.strip() == "" and not blank:
                want = [True, False]  # "blank" for whitespace-only lines is not defined
            else:
                want = [True]
            for w in want:
                cand = (ind if w else "") + ln
                nxt = pos + len(cand)
                if got.startswith(cand, pos) and (got[nxt:nxt + 1] == "\n" if i < len(lines) - 1 else nxt == len(got)):
                    pos = nxt
                    break
            else:
                return "line %d: expected %s%r at offset %d of %r" % (i, "indented " if want[0] else "unindented ", ln, pos, got)
        return None

    return Pred(pred)


def spec_center(s, p):
    s, width = str(s), p["width"]
    pad = max(0, width - len(s))

    def pred(got):
        if not isinstance(got, str) or len(got) != len(s) + pad:
            return "expected a string of length %d, got %r" % (len(s) + pad, got)
        for left in {pad // 2, pad - pad // 2}:
            if got == " " * left + s + " " * (pad - left):
                return None
        return "value is not centered: %r" % (got,)

    return Pred(pred)


def spec_trim(s, p):
    s, chars = str(s), p["chars"]
    drop = (lambda c: c.isspace()) if chars is None else (lambda c: c in chars)
    a, b = 0, len(s)
    while a < b and drop(s[a]):
        a += 1
    while b > a and drop(s[b - 1]):
        b -= 1
    return Exact(s[a:b])


def spec_upper(s, p):
    return Exact(str(s).upper())


def spec_lower(s, p):
    return Exact(str(s).lower())


def spec_capitalize(s, p):
    s = str(s)
    return Exact(s[:1].upper() + s[1:].lower())


def spec_title(s, p):
    s = str(s)

    def pred(got):
        if not isinstance(got, str) or len(got) != len(s):
            return "expected a string of length %d, got %r" % (len(s), got)
        for i, ch in enumerate(s):
            prev = s[i - 1] if i else " "
            if prev.isspace():
                want = {ch.upper()}
            elif prev.isalnum():
                want = {ch.lower()}
            else:
                want = {ch.upper(), ch.lower()}  # after punctuation: word boundary or not is not defined
            if got[i] not in want:
                return "character %d of %r: expected %s, got %r" % (i, got, sorted(want), got[i])
        return None

    return Pred(pred)


def spec_replace(s, p):
    s, old, new, count = str(s), str(p["old"]), str(p["new"]), p["count"]
    out, pos, n = [], 0, 0
    while count is None or n < count:
        i = s.find(old, pos)
        if i < 0:
            break
        out.append(s[pos:i])
        out.append(new)
        pos = i + len(old)
        n += 1
    out.append(s[pos:])
    return Exact("".join(out))


def wordcount_defined(s):
    """False when the string has a non-alphanumeric joiner inside a word (don't, a-b, a_b): the
    docstring does not say whether that is one word or two."""
    for i, ch in enumerate(s):
        if not ch.isalnum() and not ch.isspace():
            before = s[i - 1] if i else " "
            after = s[i + 1] if i + 1 < len(s) else " "
            if ch == "_" or (before.isalnum() and after.isalnum()) or not (ch.isascii()):
                return False
    return True


def spec_wordcount(s, p):
    s = str(s)
    n, inword = 0, False
    for ch in s:
        if ch.isalnum():
            if not inword:
                n += 1
            inword = True
        else:
            inword = False
    return Exact(n)


def spec_format(fmt, args, kwargs):
    return Exact(str(fmt) % (kwargs or tuple(args)))


def spec_striptags_parts(parts):
    """parts: [["text", s] | ["tag", s] | ["comment", s]] -> expected text"""
    text = "".join(s for kind, s in parts if kind == "text")
    return Exact(" ".join(text.split()))


_UNRESERVED = set(b"ABCDEFGHIJKLMNOPQRSTUVWXYZabcdefghijklmnopqrstuvwxyz0123456789_.-~")


def pct(value, safe=b"", plus=False):
    data = value if isinstance(value, bytes) else str(value).encode("utf-8")
    out = []
    for b in data:
        if b in _UNRESERVED or b in safe:
            out.append(chr(b))
        elif plus and b == 0x20:
            out.append("+")
        else:
            out.append("%%%02X" % b)
    return "".join(out)


def spec_urlencode(value, p):
    if isinstance(value, dict):
        pairs = list(value.items())
    elif isinstance(value, (list, tuple)):
        pairs = list(value)
    else:
        return Exact(pct(value, safe=b"/"))
    return Exact("&".join("%s=%s" % (pct(k, plus=True), pct(v, plus=True)) for k, v in pairs))


_DEC = ["kB", "MB", "GB", "TB", "PB", "EB", "ZB", "YB"]
_BIN = ["KiB", "MiB", "GiB", "TiB", "PiB", "EiB", "ZiB", "YiB"]


def spec_filesizeformat(value, p):
    v = Fraction(float(value)) if not isinstance(value, int) else Fraction(value)
    fv = Fraction(float(value))
    base = 1024 if p["binary"] else 1000
    units = _BIN if p["binary"] else _DEC

    def pred(got):
        if not isinstance(got, str):
            return "expected a string, got %r" % (got,)
        if fv == 1:
            return None if got == "1 Byte" else "expected '1 Byte', got %r" % got
        if fv < base:
            want = "%d Bytes" % int(fv)
            return None if got == want else "expected %r, got %r" % (want, got)
        m = re.fullmatch(r"(\d+\.\d) (\w+)", got)
        if not m:
            return "expected '<number with one decimal> <unit>', got %r" % got
        num, unit = Fraction(m.group(1)), m.group(2)
        i = 0
        while i < len(units) - 1 and fv >= base ** (i + 2):
            i += 1
        # at a unit boundary rounding may legitimately print e.g. 1000.0 kB or 1.0 MB
        ok = []
        for j in {i, min(i + 1, len(units) - 1)}:
            exact = fv / base ** (j + 1)
            if j == i or exact * 1000 >= 999:
                ok.append((units[j], exact))
        for u, exact in ok:
            if unit == u and abs(num - exact) <= Fraction(1, 20) + exact * Fraction(1, 10 ** 12):
                return None
        return "expected about %s, got %r" % (" or ".join("%.4f %s" % (float(e), u) for u, e in ok), got)

    return Pred(pred)


def spec_round(value, p):
    prec, method = p["precision"], p["method"]
    if method == "common":
        # 'common' is ordinary rounding = Python's round(value, precision), compared exactly (it works on the
        # decimal value of the float, not on value * 10**precision, and returns non-finite / huge floats as they are)
        return Exact(round(value, prec))
    v = Fraction(value)
    q = Fraction(10) ** prec
    scaled = v * q
    tol = Fraction(max(abs(float(value)), 1.0)) * Fraction(4, 2 ** 52) + Fraction(4, 2 ** 52) / q

    def pred(got):
        if isinstance(got, bool) or not isinstance(got, (int, float)):
            return "expected a number, got %r" % (got,)
        if isinstance(value, float) and not isinstance(got, float):
            return "expected a float ('even if rounded to 0 precision, a float is returned'), got %r" % (got,)
        g = Fraction(got)
        gs = g * q
        # the result is a multiple of 10**-precision (up to float error)
        if abs(gs - round(gs)) > tol * q:
            return "%r is not a multiple of 10**%d" % (got, -prec)
        if method == "common":
            if abs(g - v) > Fraction(1, 2) / q + tol:
                return "%r is not %r rounded to %d places" % (got, value, prec)
        elif method == "ceil":
            want = Fraction(math.ceil(scaled)) / q
            lo = Fraction(math.ceil(scaled - tol * q)) / q
            if not (abs(g - want) <= tol or abs(g - lo) <= tol):
                return "ceil: expected %s, got %r" % (float(want), got)
        else:
            want = Fraction(math.floor(scaled)) / q
            hi = Fraction(math.floor(scaled + tol * q)) / q
            if not (abs(g - want) <= tol or abs(g - hi) <= tol):
                return "floor: expected %s, got %r" % (float(want), got)
        return None

    return Pred(pred)


def spec_int(value, p):
    default, base = p["default"], p["base"]
    try:
        if isinstance(value, str):
            return Exact(int(value, base))
        return Exact(int(value))
    except Exception:  # noqa: BLE001 - "If the conversion doesn't work it will return 0 [the default]"
        try:
            return Exact(int(float(value)))  # '"42.23"|int gives 42'
        except Exception:  # noqa: BLE001
            return Exact(default)


def spec_float(value, p):
    try:
        return Exact(float(value))
    except Exception:  # noqa: BLE001 - "If the conversion doesn't work it will return 0.0 [the default]"
        return Exact(p["default"])


# --------------------------------------------------------------------------------------------
# C24 HTML

_ESC = {"&": "&amp;", "<": "&lt;", ">": "&gt;", '"': "&#34;", "'": "&#39;"}
META = set(_ESC)


def esc(s):
    """MarkupSafe escaping of a plain string: & < > " ' -> &amp; &lt; &gt; &#34; &#39;"""
    return "".join(_ESC.get(ch, ch) for ch in str(s))


def esc_auto(v):
    """Escape unless the value is marked safe (has __html__)."""
    if hasattr(v, "__html__"):
        return str(v.__html__())
    return esc(v)


_ENT = re.compile(r"&(amp|lt|gt|#34|#39|quot|#x27|apos);")
_UNESC = {"amp": "&", "lt": "<", "gt": ">", "#34": '"', "#39": "'", "quot": '"', "#x27": "'", "apos": "'"}


def unesc(s):
    return _ENT.sub(lambda m: _UNESC[m.group(1)], s)


def has_raw_meta(s, amp=True):
    """True when s contains < > " ' or (amp=True) an & that does not start one of the escape entities."""
    for i, ch in enumerate(s):
        if ch in "<>\"'":
            return True
        if amp and ch == "&" and not _ENT.match(s, i):
            return True
    return False


XMLATTR_MUST_REJECT = set(" \t\n\r\f/>=")
XMLATTR_MAY_REJECT = set("\x0b")

# attribute-name state of the HTML tokenizer: a name ends at tab, LF, FF, CR, space, "/", ">" and "="
_ATTR_TOKEN = re.compile(r' ([^ \t\n\f\r"\'<>/=]+)="([^"<>\']*)"')


def parse_attrs(text):
    """Strict tokenizer for an attribute string: ( name="value")* -> [(name, value)] or None."""
    out, pos = [], 0
    while pos < len(text):
        m = _ATTR_TOKEN.match(text, pos)
        if not m:
            return None
        if has_raw_meta(m.group(2)) or has_raw_meta(m.group(1)):
            return None
        out.append((m.group(1), m.group(2)))
        pos = m.end()
    return out


_ANCHOR = re.compile(r'<a href="([^"<>]*)"((?: [a-z]+="[^"<>]*")*)>([^<>]*)</a>')
_ANCHOR_ATTR = re.compile(r' ([a-z]+)="([^"<>]*)"')


def parse_urlize(text, trimmed=False):
    """Tokenise urlize output into [("text", s) | ("a", href, {attr: value}, label)]; None if an
    anchor is malformed or text outside anchors holds markup characters.  trimmed: labels may end in a
    cut-off entity (the documented trimming shortens the displayed text), so a bare & is tolerated there."""
    out, pos = [], 0
    while True:
        i = text.find("<", pos)
        if i < 0:
            tail = text[pos:]
            if tail:
                out.append(("text", tail))
            break
        if i > pos:
            out.append(("text", text[pos:i]))
        m = _ANCHOR.match(text, i)
        if not m:
            return None
        attrs = _ANCHOR_ATTR.findall(m.group(2))
        names = [a for a, _ in attrs]
        if len(set(names)) != len(names) or any(a not in ("rel", "target") for a in names):
            return None
        out.append(("a", m.group(1), dict(attrs), m.group(3)))
        pos = m.end()
    for tok in out:
        if tok[0] == "text":
            if has_raw_meta(tok[1]):
                return None
        else:
            if has_raw_meta(tok[1]) or has_raw_meta(tok[3], amp=not trimmed) or any(has_raw_meta(v) for v in tok[2].values()):
                return None
    return out
