"""C34 - native rendering returns native values as documented.

Case (plain JSON):
    {"pieces": [piece, ...], "data": {name: enc, ...}, "configs": [[env, mode], ...]}

    piece := {"t": "text", "s": str}
           | {"t": "out", "e": expr}
           | {"t": "if", "c": name, "a": [piece], "b": [piece]}       {% if c %}a{% else %}b{% endif %}
           | {"t": "for", "v": name, "body": [piece]}                  {% for it in v %}body{% endfor %}
           | {"t": "macro", "body": [piece]}                           {% macro mK() %}body{% endmacro %}{{ mK() }}
    expr  := {"k": "var", "n": name} | {"k": "it"} | {"k": "const", "v": enc}
           | {"k": "call", "e": expr} (ident(e)) | {"k": "filter", "e": expr} (e|ident)
    enc   := JSON scalar | [enc, ...] (list) | {"$": tag, ...} for tuple / dict / set / frozenset / bytes / complex /
             f (non-finite float) / markup / obj (a non-literal object whose str() is given) / ellipsis
    env   := "sync" | "async" | "sandbox";  mode := "render" | "render_async"

Oracle (reference native_concat, written from docs/nativetypes.rst and the NativeTemplate.render docstring):
the run-time output pieces are computed by a small interpreter over the IR; no piece -> None; exactly one piece
that is not a str -> that very object; otherwise the text ''.join(str(p)) -> its Python literal value when
ast.literal_eval(ast.parse(text, mode="eval")) succeeds, the text otherwise.
"""
import ast
import asyncio
import warnings

from vt import core

PID = "C34"
LEVEL = "exploration"
RULE = (
    "Hypothesis-generated native templates in three families: (a) a single output expression ({{ v }}, ident(v), v|ident, "
    "optionally inside if / one-iteration for / macro) over random values incl. literal-looking strings, bytes, Markup, "
    "non-literal objects and undefined; (b) the repr of a random Python literal (or a hand-picked near-literal), "
    "optionally damaged by one character edit and padded with blanks, cut into 1-5 chunks each rendered as template text, "
    "string variable, native variable, template constant or through if/for/macro; (c) random piece trees; (d) DictLoader template sets: a base template whose layout "
    "places 1-3 blocks (bodies of 0-5 chunks: text, native variables, constants) and 0-2 extending templates overriding "
    "blocks, with super() and self.other() used as output, via set, |length, + 1 and as a loop iterable. Every case is "
    "rendered under NativeEnvironment render, async NativeEnvironment render and render_async, and a sandboxed native "
    "environment. Non-trivial = at least two run-time output pieces, or a single string piece that parses as a literal, "
    "or a text that parses but fails literal_eval for a non-syntax reason; distinct = distinct serialised case."
)
ASSUMPTIONS = [
    "the literal value of a text is Python's own ast.literal_eval(ast.parse(text, mode='eval')) (leading blanks are not stripped: repo test test_leading_spaces); any exception there means 'not a literal'",
    "'single node' is decided on run-time output pieces (an untaken if / a one-iteration loop around one expression still returns the object), as the implementation and repo tests test_loop_look_alike / test_macro do",
    "macros called in a native template return the native value of their body (repo test test_macro)",
    "the value of super() / self.block() is the native value of that block's chunks (repo test test_block: self.b() == 11); a block placed in a layout contributes its chunks, not its joined value, to the template's chunk list",
    "template text avoids \\r and delimiter starts; keep_trailing_newline=True so text is emitted verbatim (whitespace handling is C11/C12)",
    "native environments created with autoescape=True are judged only where HTML-escaping cannot matter (single non-string value, or text without & < > ' \"; no macros / block references, whose values are wrapped in Markup under autoescape)",
    "values compare by exact type and value (floats by repr); a single non-string run-time value supplied through the context must come back as the identical object",
]

ALL_CONFIGS = [["sync", "render"], ["async", "render"], ["async", "render_async"], ["sandbox", "render"]]

_state = {}


class Obj:
    """A non-literal object; str() may look like a literal."""

    def __init__(self, s):
        self.s = s

    def __str__(self):
        return self.s

    __repr__ = __str__


def ident(x):
    return x


def _setup():
    if _state:
        return _state
    import jinja2
    from jinja2.nativetypes import NativeEnvironment
    from jinja2.sandbox import SandboxedEnvironment
    from markupsafe import Markup

    class SandboxedNativeEnvironment(SandboxedEnvironment, NativeEnvironment):
        pass

    _state.update(DictLoader=jinja2.DictLoader, Native=NativeEnvironment, SandNative=SandboxedNativeEnvironment, Markup=Markup, Undefined=jinja2.Undefined)
    return _state


class _Undef:
    def __str__(self):
        return ""


UNDEF = _Undef()

# ---------------------------------------------------------------------------------------
# value encoding


def dec(e):
    if isinstance(e, list):
        return [dec(x) for x in e]
    if isinstance(e, dict):
        tag = e["$"]
        if tag == "tuple":
            return tuple(dec(x) for x in e["v"])
        if tag == "dict":
            return {dec(k): dec(v) for k, v in e["v"]}
        if tag == "set":
            return {dec(x) for x in e["v"]}
        if tag == "frozenset":
            return frozenset(dec(x) for x in e["v"])
        if tag == "bytes":
            return e["v"].encode("latin-1")
        if tag == "complex":
            return complex(float(e["v"][0]), float(e["v"][1]))
        if tag == "f":
            return float(e["v"])
        if tag == "markup":
            return _setup()["Markup"](e["v"])
        if tag == "obj":
            return Obj(e["s"])
        if tag == "ellipsis":
            return Ellipsis
        raise core.HarnessError("bad tag %r" % (tag,))
    return e


def enc_of(v):
    """Inverse of dec for plain literal values (used by the generator); None when not encodable."""
    if v is None or isinstance(v, (bool, int, str)):
        return v
    if isinstance(v, float):
        if v != v or v in (float("inf"), float("-inf")) or (v == 0 and repr(v) == "-0.0"):
            return {"$": "f", "v": repr(v)}
        return v
    if isinstance(v, complex):
        return {"$": "complex", "v": [repr(v.real), repr(v.imag)]}
    if isinstance(v, bytes):
        return {"$": "bytes", "v": v.decode("latin-1")}
    if v is Ellipsis:
        return {"$": "ellipsis"}
    if isinstance(v, list):
        out = [enc_of(x) for x in v]
        return None if any(x is None and y is not None for x, y in zip(out, v)) else out
    if isinstance(v, (tuple, set, frozenset)):
        items = list(v)
        out = [enc_of(x) for x in items]
        if any(x is None and y is not None for x, y in zip(out, items)):
            return None
        return {"$": type(v).__name__, "v": out}
    if isinstance(v, dict):
        out = []
        for k, x in v.items():
            ek, ex = enc_of(k), enc_of(x)
            if (ek is None and k is not None) or (ex is None and x is not None):
                return None
            out.append([ek, ex])
        return {"$": "dict", "v": out}
    return None


_SAFE_STR = set("abcxyz ABC019_-+.,:;!?/|=@~^()[]")


def jinja_lit(v):
    """Jinja source of a constant with the decoded value v; None when this printer does not cover it."""
    if v is None:
        return "none"
    if v is True:
        return "true"
    if v is False:
        return "false"
    if isinstance(v, int):
        return str(v) if 0 <= v < 10**30 else ("(-%d)" % -v if -(10**30) < v < 0 else None)
    if isinstance(v, float):
        r = repr(v)
        if v != v or v in (float("inf"), float("-inf")) or r.startswith("-") or "e" in r:
            return None
        return r
    if type(v) is str:
        return "'%s'" % v if set(v) <= _SAFE_STR else None
    if isinstance(v, list):
        parts = [jinja_lit(x) for x in v]
        return None if None in parts else "[%s]" % ", ".join(parts)
    if isinstance(v, tuple):
        parts = [jinja_lit(x) for x in v]
        if None in parts:
            return None
        return "(%s,)" % parts[0] if len(parts) == 1 else "(%s)" % ", ".join(parts)
    if isinstance(v, dict):
        parts = []
        for k, x in v.items():
            if not isinstance(k, (str, int)) or isinstance(k, bool):
                return None
            a, b = jinja_lit(k), jinja_lit(x)
            if a is None or b is None:
                return None
            parts.append("%s: %s" % (a, b))
        return "{%s}" % ", ".join(parts)
    return None


# ---------------------------------------------------------------------------------------
# source printer and reference interpreter

_BAD = ("{{", "{%", "{#", "\r")


def text_ok(s, last_before_tag=True):
    return not any(b in s for b in _BAD) and not s.endswith("{")


def sanitize(s):
    """Generator-side: make a text usable as template data (no delimiter start, no \\r)."""
    s = s.replace("\r", "\n")
    out = []
    for i, ch in enumerate(s):
        out.append(ch)
        if ch == "{" and (i + 1 == len(s) or s[i + 1] in "{%#"):
            out.append(" ")
    return "".join(out)


def _expr_src(e, in_loop):
    k = e["k"]
    if k == "var":
        return e["n"]
    if k == "it":
        if not in_loop:
            raise core.Discard()
        return "it"
    if k == "const":
        src = jinja_lit(dec(e["v"]))
        if src is None:
            raise core.Discard()
        return src
    if k == "call":
        return "ident(%s)" % _expr_src(e["e"], in_loop)
    if k == "filter":
        inner = _expr_src(e["e"], in_loop)
        return "(%s)|ident" % inner
    raise core.HarnessError("bad expr %r" % (e,))


def build_source(pieces, counter=None, in_loop=False, in_macro=False):
    counter = counter if counter is not None else [0]
    out = []
    for p in pieces:
        t = p["t"]
        if t == "text":
            if not text_ok(p["s"]):
                raise core.Discard()
            out.append(p["s"])
        elif t == "out":
            out.append("{{ %s }}" % _expr_src(p["e"], in_loop and not in_macro))
        elif t == "if":
            out.append("{%% if %s %%}%s{%% else %%}%s{%% endif %%}" % (
                p["c"], build_source(p["a"], counter, in_loop, in_macro), build_source(p["b"], counter, in_loop, in_macro)))
        elif t == "for":
            out.append("{%% for it in %s %%}%s{%% endfor %%}" % (p["v"], build_source(p["body"], counter, True, in_macro)))
        elif t == "macro":
            counter[0] += 1
            name = "m%d" % counter[0]
            out.append("{%% macro %s() %%}%s{%% endmacro %%}{{ %s() }}" % (name, build_source(p["body"], counter, False, True), name))
        else:
            raise core.HarnessError("bad piece %r" % (p,))
    return "".join(out)


def literal_or_text(text):
    """-> (value, why) with why in ok / syntax / value / type / other."""
    try:
        tree = ast.parse(text, mode="eval")
    except Exception:  # noqa: BLE001 - any failure of Python's own parser means "not a literal"
        return text, "syntax"
    try:
        return ast.literal_eval(tree), "ok"
    except ValueError:
        return text, "value"
    except TypeError:
        return text, "type"
    except Exception:  # noqa: BLE001
        return text, "other"


def ref_concat(vals, info=None):
    """vals: list of (value, from_data). -> (value, identity_required)."""
    if not vals:
        if info is not None:
            info.append("empty")
        return None, False
    if len(vals) == 1 and not isinstance(vals[0][0], str):
        if info is not None:
            info.append("single_nonstr")
        return vals[0][0], vals[0][1]
    text = "".join(str(v) for v, _ in vals)
    value, why = literal_or_text(text)
    if info is not None:
        info.append(("multi_" if len(vals) > 1 else "single_str_") + why)
    return value, False


def ref_pieces(pieces, data, it=None, info=None):
    """Run-time output pieces as (value, from_data)."""
    out = []
    for p in pieces:
        t = p["t"]
        if t == "text":
            if p["s"]:
                out.append((p["s"], False))
        elif t == "out":
            out.append(_ref_expr(p["e"], data, it))
        elif t == "if":
            out.extend(ref_pieces(p["a"] if data.get(p["c"]) else p["b"], data, it, info))
        elif t == "for":
            for x in data[p["v"]]:
                out.extend(ref_pieces(p["body"], data, (x,), info))
        elif t == "macro":
            v, from_data = ref_concat(ref_pieces(p["body"], data, None, info), info)
            out.append((v, from_data))
    return out


def _ref_expr(e, data, it):
    k = e["k"]
    if k == "var":
        return (data[e["n"]], True) if e["n"] in data else (UNDEF, True)
    if k == "it":
        if it is None:
            raise core.Discard()
        return it[0], True
    if k == "const":
        return dec(e["v"]), False
    return _ref_expr(e["e"], data, it)


# ---------------------------------------------------------------------------------------
# inheritance family: {"kind": "inherit", "levels": [level0, level1, ...], "data": ..., "configs": ...}
#   level0 := {"layout": [lpiece], "blocks": {name: [bpiece]}}   (template "t0"; every block is placed once in the layout)
#   levelK := {"blocks": {name: [bpiece]}}                        (template "tK": {% extends "tK-1" %} + block overrides)
#   lpiece := text | out | {"t": "block", "name": b} | ref ;  bpiece := text | out | ref
#   ref    := {"t": "ref", "to": "super" | block name, "use": "out" | "set" | "len" | "plus" | "for"}
# Documented rule: the value of super() / self.name() is the native value (native_concat) of the chunks of that
# block; a block placed in the layout contributes its chunks to the template's own chunk list.

USES = ("out", "set", "len", "plus", "for")


def _ref_src(p, counter):
    call = "super()" if p["to"] == "super" else "self.%s()" % p["to"]
    use = p["use"]
    if use == "out":
        return "{{ %s }}" % call
    if use == "set":
        counter[0] += 1
        return "{%% set tmp%d = %s %%}{{ tmp%d }}" % (counter[0], call, counter[0])
    if use == "len":
        return "{{ %s|length }}" % call
    if use == "plus":
        return "{{ %s + 1 }}" % call
    if use == "for":
        return "{%% for it in %s %%}{{ it }};{%% endfor %%}" % call
    raise core.HarnessError("bad use %r" % (use,))


def _body_src(pieces, counter, level, blocks0=None):
    out = []
    for p in pieces:
        t = p["t"]
        if t == "text":
            if not text_ok(p["s"]):
                raise core.Discard()
            out.append(p["s"])
        elif t == "out":
            out.append("{{ %s }}" % _expr_src(p["e"], False))
        elif t == "ref":
            if p["to"] == "super" and level == 0:
                raise core.Discard()
            out.append(_ref_src(p, counter))
        elif t == "block" and blocks0 is not None:
            out.append("{%% block %s %%}%s{%% endblock %%}" % (p["name"], _body_src(blocks0[p["name"]], counter, 0)))
        else:
            raise core.Discard()
    return "".join(out)


def build_templates(case):
    levels = case["levels"]
    base = levels[0]
    placed = [p["name"] for p in base["layout"] if p["t"] == "block"]
    if sorted(placed) != sorted(base["blocks"]) or any(not set(lv["blocks"]) <= set(base["blocks"]) for lv in levels[1:]):
        raise core.Discard()
    counter = [0]
    templates = {"t0": _body_src(base["layout"], counter, 0, base["blocks"])}
    for k, lv in enumerate(levels[1:], 1):
        parts = ['{%% extends "t%d" %%}' % (k - 1)]
        for name in sorted(lv["blocks"]):
            parts.append("{%% block %s %%}%s{%% endblock %%}" % (name, _body_src(lv["blocks"][name], counter, k)))
        templates["t%d" % k] = "".join(parts)
    return templates, "t%d" % (len(levels) - 1)


def _stack(levels, name):
    return [lv["blocks"][name] for lv in reversed(levels) if name in lv["blocks"]]


def _block_chunks(levels, name, depth, data, info, labels, guard):
    key = (name, depth)
    if key in guard or len(guard) > 40:
        raise core.Discard()  # a reference cycle: outside the generated domain
    stack = _stack(levels, name)
    if depth >= len(stack):
        raise core.Discard()
    return _chunks(levels, stack[depth], name, depth, data, info, labels, guard | {key})


def ref_value(levels, p, name, depth, data, info, labels, guard):
    if p["to"] == "super":
        if name is None:
            raise core.Discard()
        target = (name, depth + 1)
        labels.add("ref_super")
    else:
        target = (p["to"], 0)
        labels.add("ref_self")
    chunks = _block_chunks(levels, target[0], target[1], data, info, labels, guard)
    if len(chunks) >= 2:
        labels.add("ref_block_2plus_chunks")
    if any(not isinstance(v, str) for v, _ in chunks):
        labels.add("ref_block_nonstring_chunk")
    return ref_concat(chunks, info)


def _chunks(levels, pieces, name, depth, data, info, labels, guard):
    out = []
    for p in pieces:
        t = p["t"]
        if t == "text":
            if p["s"]:
                out.append((p["s"], False))
        elif t == "out":
            out.append(_ref_expr(p["e"], data, None))
        elif t == "block":
            out.extend(_block_chunks(levels, p["name"], 0, data, info, labels, guard))
        elif t == "ref":
            v, ident_ = ref_value(levels, p, name, depth, data, info, labels, guard)
            use = p["use"]
            labels.add("use_" + use)
            if use in ("out", "set"):
                out.append((v, ident_))
            elif use == "len":
                if not isinstance(v, (list, tuple, dict, set, frozenset)) and type(v) is not str:
                    raise core.Discard()
                out.append((len(v), False))
            elif use == "plus":
                if isinstance(v, bool) or not isinstance(v, (int, float)):
                    raise core.Discard()
                out.append((v + 1, False))
            elif use == "for":
                if not isinstance(v, (list, tuple)):
                    raise core.Discard()
                for x in v:
                    out.append((x, ident_))
                    out.append((";", False))
            else:
                raise core.HarnessError("bad use %r" % (use,))
    return out


def applicable_uses(v):
    uses = ["out", "set"]
    if isinstance(v, (list, tuple)):
        uses += ["len", "for", "for"]
    elif type(v) is str:
        uses += ["len"]
    elif isinstance(v, (int, float)) and not isinstance(v, bool):
        uses += ["plus", "plus"]
    return uses


def ref_inherit(case, data, info, labels):
    levels = case["levels"]
    labels.add("inherit")
    labels.add("inherit_levels_%d" % len(levels))
    chunks = _chunks(levels, levels[0]["layout"], None, 0, data, info, labels, frozenset())
    return ref_concat(chunks, info)


def teq(a, b):
    """Exact type-and-value equality."""
    if type(a) is not type(b):
        return False
    if isinstance(a, (float, complex)):
        return repr(a) == repr(b)
    if isinstance(a, (list, tuple)):
        return len(a) == len(b) and all(teq(x, y) for x, y in zip(a, b))
    if isinstance(a, dict):
        return len(a) == len(b) and all(teq(k1, k2) and teq(v1, v2) for (k1, v1), (k2, v2) in zip(a.items(), b.items()))
    if isinstance(a, (set, frozenset)):
        return len(a) == len(b) and all(teq(x, y) for x, y in zip(sorted(a, key=repr), sorted(b, key=repr)))
    return a == b


def _names_in(pieces, acc):
    for p in pieces:
        if p["t"] == "if":
            acc.add(p["c"])
            _names_in(p["a"], acc)
            _names_in(p["b"], acc)
        elif p["t"] == "for":
            acc.add(p["v"])
            _names_in(p["body"], acc)
        elif p["t"] == "macro":
            _names_in(p["body"], acc)


def check_case(case):
    st = _setup()
    data = {k: dec(v) for k, v in case["data"].items()}
    inherit = case.get("kind") == "inherit"
    info = []
    with warnings.catch_warnings():
        warnings.simplefilter("ignore")
        if inherit:
            if any(k == "it" or k.startswith("tmp") for k in data):
                raise core.Discard()
            templates, main = build_templates(case)
            src = templates
            ref_labels = set()
            ae_judged = False  # block references wrap their value in Markup under autoescape
            exp, identity = ref_inherit(case, data, info, ref_labels)
            pieces = []
        else:
            pieces = case["pieces"]
            need = set()
            _names_in(pieces, need)
            if not need <= set(data) or any(k in ("ident", "it") or k.startswith("m") and k[1:].isdigit() for k in data):
                raise core.Discard()
            src = build_source(pieces)
            vals = ref_pieces(pieces, data, None, info)
            exp, identity = ref_concat(vals, info)
            kinds0 = set()
            _kinds(pieces, kinds0)
            # autoescape=True native environments: judged only where the expectation cannot depend on whether text is
            # HTML-escaped (undocumented for native rendering): the single non-string value, or text without & < > ' "
            # and no macro (a macro's return value is wrapped in Markup under autoescape)
            ae_judged = "macro" not in kinds0 and (
                info[-1] in ("single_nonstr", "empty") or not any(ch in str(v) for v, _ in vals for ch in "&<>'\""))
        top = info[-1]
        labels = {"top_" + top}
        labels.update(("blockref_" if inherit else "macro_") + x for x in info[:-1])
        if inherit:
            labels.update(ref_labels)
        for cfg in case.get("configs", ALL_CONFIGS):
            envk, mode = cfg
            loader = st["DictLoader"](dict(templates)) if inherit else None
            ae = envk.endswith("_ae")
            base = envk[:-3] if ae else envk
            if ae and not ae_judged:
                labels.add("autoescape_config_not_judged")
                continue
            if base == "sync":
                env = st["Native"](keep_trailing_newline=True, loader=loader, autoescape=ae)
            elif base == "async":
                env = st["Native"](keep_trailing_newline=True, enable_async=True, loader=loader, autoescape=ae)
            elif base == "sandbox":
                env = st["SandNative"](keep_trailing_newline=True, loader=loader, autoescape=ae)
            else:
                raise core.HarnessError("bad env %r" % (envk,))
            if mode == "render_async" and base != "async":
                raise core.Discard()
            env.globals["ident"] = ident
            env.filters["ident"] = ident
            tmpl = env.get_template(main) if inherit else env.from_string(src)
            ctx = dict(data)
            if mode == "render":
                got = tmpl.render(ctx)
            else:
                got = asyncio.run(tmpl.render_async(ctx))
            where = "%s/%s source=%r data=%r" % (envk, mode, src, case["data"])
            if exp is UNDEF:
                if not isinstance(got, st["Undefined"]):
                    raise core.Violation("%s: a single undefined output must come back as the undefined object, got %r (%s)" % (where, got, type(got).__name__))
            elif identity:
                if got is not exp:
                    raise core.Violation("%s: the single non-string output %r (%s) must be returned itself, got %r (%s)" % (where, exp, type(exp).__name__, got, type(got).__name__))
            elif type(exp) is str:
                # the text itself (or a literal str): any str instance with that content (Markup input stays Markup)
                if not (isinstance(got, str) and str(got) == exp):
                    raise core.Violation("%s: expected the text %r [%s], got %r (%s)" % (where, exp, top, got, type(got).__name__))
            elif not teq(exp, got):
                raise core.Violation("%s: expected %r (%s) [%s], got %r (%s)" % (where, exp, type(exp).__name__, top, got, type(got).__name__))
            labels.add("cfg_%s_%s" % (envk, mode))
    kinds = set()
    _kinds(pieces, kinds)
    labels.update("has_" + k for k in kinds)
    npieces = top.startswith("multi_")
    nontrivial = npieces or (inherit and ("ref_super" in labels or "ref_self" in labels)) or top == "single_str_ok" or top.endswith(("_value", "_type", "_other")) or any(
        x.endswith(("_value", "_type", "_other")) for x in info)
    if any(x.endswith("_type") for x in info):
        labels.add("lit_typeerror")
    if any(x.endswith("_value") for x in info):
        labels.add("lit_valueerror")
    if any(x.endswith("_ok") for x in info):
        labels.add("lit_ok")
    if any(x.endswith("_syntax") for x in info):
        labels.add("lit_syntaxerror")
    return core.Outcome(nontrivial, sorted(labels))


def _kinds(pieces, acc):
    for p in pieces:
        if p["t"] == "out":
            e = p["e"]
            while e["k"] in ("call", "filter"):
                acc.add(e["k"])
                e = e["e"]
            acc.add(e["k"])
        else:
            acc.add(p["t"])
            if p["t"] == "if":
                _kinds(p["a"], acc)
                _kinds(p["b"], acc)
            elif p["t"] in ("for", "macro"):
                _kinds(p["body"], acc)


# ---------------------------------------------------------------------------------------
# generators

SPECIAL_TEXTS = [
    "{[1]: 2}", "{[1]}", "{1, [2]}", "{ {}: 1}", "{(1, [2]): 3}", "[1, {[]: 1}]", "{1: 2}[1]", "1 + 1", "1 + 2j", "1j", "-1", "+1", "- 1",
    "-'a'", "~1", "not 1", "1_000", "0x10", "0o7", "0b1", "1e3", "1e999", "-1e999", "1.", ".5", "(1)", "(1,)", "1,", "1, 2", "[1,]", "[1 2]",
    "()", "[]", "{}", "set()", "frozenset({1})", "{*()}", "[*[1]]", "{**{}}", "...", "None", "True", "False", "none", "true", "nan", "inf",
    "-inf", "__debug__", "x", "f''", "f'{1}'", "'a' 'b'", "'a' \"b\"", "b'a'", "b'a' b'b'", "'a' b'b'", "u'a'", "r'\\d'", "'\\d'", "'\\x41'",
    "'''a'''", "'a", "a'", "1 if 1 else 2", "lambda: 0", "[x for x in ()]", "(yield)", "1 < 2", "1 == 1", "1 and 2", "'a' * 2", "[1] * 2",
    "'%s' % 1", "dict()", "int('1')", "1 # c", "# c", "1;2", "1\n2", "(1,\n2)", "[1,\n 2]", "'a\nb'", " 1", "\t1", "1 ", "\n1", "1\n", " [1]",
    "\\\n1", "0.0007", "00", "01", "1__0", "1e", "0x", "'\\'", "\"\\\"\"", "[[[[[[1]]]]]]", "{1: {2: {3: [4, (5, {6})]}}}", "{'a': 1, 'a': 2}",
    "{1: 'a', True: 'b'}", "{1.0, 1}", "-(1)", "-(-1)", "--1", "-True", "-1j", "1 - 2j", "1j + 1", "(1+2j)", "-1 + 2j", "1 + -2j", "1.5 + 2j",
    "True + 1j", "b'\\xff'", "'\\u00e9'", "'é'", "é", "１", "'１'", "٣", "[1, 2", "1]", "{1: }", "{:1}", "{1:2:3}", "'a' if", "*1", "**1", "@",
    "$", "?", "`1`", "1L", "1l", "<>", "0_0", "0e0", "1E5", "1J", "0xAF", "0XAF", "' '", "''", "\"\"", "", " ", "\n", "\t", "  \n", "a b",
    "Hello", "4 * 2", "--host='localhost' --user \"Jinja\"", "'Jinja'", "[all]", "0.000", "not bad",
]

FIXED_SINGLES = [
    {"$": "bytes", "v": "[1]"}, {"$": "bytes", "v": "1"}, {"$": "bytes", "v": "x"}, {"$": "obj", "s": "[1]"}, {"$": "obj", "s": "x"},
    {"$": "markup", "v": "[1]"}, {"$": "markup", "v": "x"}, {"$": "f", "v": "nan"}, {"$": "f", "v": "inf"}, {"$": "f", "v": "-0.0"}, 0, 1, True, None,
    1.0, "", "1", " 1", [], [1], {"$": "tuple", "v": []}, {"$": "dict", "v": []}, {"$": "set", "v": []}, {"$": "frozenset", "v": [1]},
    {"$": "complex", "v": ["1.0", "2.0"]}, {"$": "ellipsis"}, 10**25, [{"$": "obj", "s": "q"}],
]
FIXED_CONSTS = [1, 1.5, True, None, "ab", "1", [1, 2], ["ab", 1], {"$": "tuple", "v": ["x", "y"]}, {"$": "dict", "v": [["a", "b"]]},
                {"$": "dict", "v": [[1, ["a", None]]]}, [], "a b", [[1], ["a"]]]
_CHARS = "[](){},:'\" 1a-+.*#\\\n\tej_0bx%"
VAR_NAMES = ["v0", "v1", "v2", "v3", "v4", "v5"]


def _strategies():
    from hypothesis import strategies as st

    short_text = st.text(alphabet="ab1 '\"\\[]{},:#\n.-", max_size=5)
    litlike_str = st.sampled_from(["1", "[1, 2]", " 1", "None", "1 + 1", "{[1]: 2}", "True", "'a'", "(1,)", "1.5", "{1: 2}", "{1, 2}", "...", "b'x'",
                                   "1j", "-3", "\t[1]", "[1]\n", "abc", "", "1_0", "0x1f", "{[1]}", "[1, [2, {3: (4,)}]]", "__import__('os')", "a.b", "é"])
    strs = st.one_of(short_text, litlike_str)
    floats = st.sampled_from([0.0, 1.5, -2.25, 1e16, 1e-07, 0.1, {"$": "f", "v": "inf"}, {"$": "f", "v": "-inf"}, {"$": "f", "v": "nan"}, {"$": "f", "v": "-0.0"}])
    ints = st.one_of(st.integers(-20, 120), st.sampled_from([10**18, -(2**63), 0, 1, 10**25]))
    bytes_enc = st.builds(lambda s: {"$": "bytes", "v": s}, st.sampled_from(["", "a", "[1]", "1", "\xff", "'a'", "{1: 2}", "None", " 1"]))
    complex_enc = st.sampled_from([{"$": "complex", "v": ["0.0", "1.0"]}, {"$": "complex", "v": ["1.0", "2.0"]}, {"$": "complex", "v": ["-1.5", "-0.0"]}])
    scal = st.one_of(ints, floats, st.booleans(), st.none(), strs, bytes_enc, complex_enc, st.just({"$": "ellipsis"}))
    hashable = st.one_of(scal, st.builds(lambda v: {"$": "tuple", "v": v}, st.lists(scal, max_size=2)))

    def extend(ch):
        return st.one_of(
            st.lists(ch, max_size=3),
            st.builds(lambda v: {"$": "tuple", "v": v}, st.lists(ch, max_size=3)),
            st.builds(lambda v: {"$": "dict", "v": v}, st.lists(st.tuples(hashable, ch).map(list), max_size=3)),
            st.builds(lambda v: {"$": "set", "v": v}, st.lists(hashable, max_size=3)),
            st.builds(lambda v: {"$": "frozenset", "v": v}, st.lists(hashable, max_size=2)),
        )

    literal = st.recursive(scal, extend, max_leaves=6)
    objs = st.builds(lambda s: {"$": "obj", "s": s}, strs)
    markups = st.builds(lambda s: {"$": "markup", "v": s}, strs)
    anyval = st.one_of(literal, literal, objs, markups)
    return dict(st=st, literal=literal, anyval=anyval, strs=strs, scal=scal)


def _wrap_expr(draw, st, e):
    for _ in range(draw(st.sampled_from([0, 0, 0, 1, 1, 2]))):
        e = {"k": draw(st.sampled_from(["call", "filter"])), "e": e}
    return e


AE_CONFIGS = [["sync_ae", "render"], ["async_ae", "render"], ["async_ae", "render_async"], ["sandbox_ae", "render"]]


def _configs(draw, st):
    """The four standard configurations, plus (every second case) one native environment created with autoescape=True."""
    extra = draw(st.sampled_from([None, None] + AE_CONFIGS))
    return ALL_CONFIGS + ([extra] if extra else [])


class _Names:
    def __init__(self):
        self.data = {}

    def new(self, enc):
        n = "v%d" % len(self.data)
        self.data[n] = enc
        return n


def _wrap_piece(draw, st, names, piece, allow_it=True):
    """Optionally wrap one output piece in if / one-iteration for / macro."""
    w = draw(st.sampled_from(["none", "none", "none", "none", "if", "for1", "macro", "forit"]))
    if w == "if":
        c = draw(st.booleans())
        other = [{"t": "text", "s": "zz"}] if draw(st.booleans()) else []
        return {"t": "if", "c": names.new(c), "a": [piece] if c else other, "b": other if c else [piece]}
    if w == "for1":
        return {"t": "for", "v": names.new([0]), "body": [piece]}
    if w == "macro" and not _uses_it([piece]):
        return {"t": "macro", "body": [piece]}
    return piece


def _uses_it(pieces):
    for p in pieces:
        if p["t"] == "out":
            e = p["e"]
            while "e" in e:
                e = e["e"]
            if e["k"] == "it":
                return True
        elif p["t"] == "if":
            if _uses_it(p["a"]) or _uses_it(p["b"]):
                return True
        elif p["t"] in ("for", "macro"):
            if _uses_it(p["body"]):
                return True
    return False


def case_strategy(size):
    S = _strategies()
    st = S["st"]

    @st.composite
    def single(draw):
        names = _Names()
        kind = draw(st.sampled_from(["val", "val", "val", "undef", "it", "const", "fixed"]))
        if kind == "fixed":  # values whose str()/bytes look like literals although they are not strings
            e = {"k": "var", "n": names.new(draw(st.sampled_from(FIXED_SINGLES)))}
        elif kind == "undef":
            e = {"k": "var", "n": "missing"}
        elif kind == "it":
            v = draw(S["anyval"])
            p = {"t": "for", "v": names.new([v]), "body": [{"t": "out", "e": _wrap_expr(draw, st, {"k": "it"})}]}
            return {"pieces": [p], "data": names.data, "configs": _configs(draw, st)}
        elif kind == "const":
            v = draw(S["literal"])
            if jinja_lit(dec(v)) is None:
                v = draw(st.sampled_from([1, "1", "[1]", [1, "a"], {"$": "tuple", "v": [1]}, None, True, 1.5, {"$": "dict", "v": [["a", 1]]}, "a b", 0]))
            e = {"k": "const", "v": v}
        else:
            e = {"k": "var", "n": names.new(draw(S["anyval"]))}
        piece = _wrap_piece(draw, st, names, {"t": "out", "e": _wrap_expr(draw, st, e)})
        pieces = [piece]
        if draw(st.integers(0, 9)) == 0:  # an empty second output: no longer "the only node"
            pieces.append({"t": "out", "e": {"k": "var", "n": names.new("")}})
        return {"pieces": pieces, "data": names.data, "configs": _configs(draw, st)}

    @st.composite
    def cut_literal(draw):
        names = _Names()
        if draw(st.integers(0, 3)) == 0:
            text = draw(st.sampled_from(SPECIAL_TEXTS))
        else:
            with warnings.catch_warnings():
                warnings.simplefilter("ignore")
                text = repr(dec(draw(S["literal"])))
        ndamage = draw(st.sampled_from([0, 0, 0, 1, 1, 2]))
        for _ in range(ndamage):
            if not text:
                break
            op = draw(st.sampled_from(["del", "ins", "rep", "dup"]))
            i = draw(st.integers(0, len(text) - 1))
            if op == "del":
                text = text[:i] + text[i + 1:]
            elif op == "ins":
                text = text[:i] + draw(st.sampled_from(_CHARS)) + text[i:]
            elif op == "rep":
                text = text[:i] + draw(st.sampled_from(_CHARS)) + text[i + 1:]
            else:
                text = text[:i] + text[i] + text[i:]
        text = draw(st.sampled_from(["", "", "", "", " ", "\n", "\t", "  "])) + text + draw(st.sampled_from(["", "", "", " ", "\n", " \n "]))
        text = sanitize(text)
        ncuts = draw(st.integers(0, min(4, max(0, len(text) - 1))))
        cuts = sorted(set(draw(st.lists(st.integers(1, max(1, len(text) - 1)), min_size=ncuts, max_size=ncuts)))) if len(text) > 1 else []
        chunks = [text[a:b] for a, b in zip([0] + cuts, cuts + [len(text)])]
        pieces = []
        for ch in chunks:
            if not ch:
                continue
            mode = draw(st.sampled_from(["text", "text", "strvar", "native", "const", "obj"]))
            piece = None
            if mode in ("native", "const"):
                with warnings.catch_warnings():
                    warnings.simplefilter("ignore")
                    v, why = literal_or_text(ch)
                    if why == "ok" and not isinstance(v, str) and str(v) == ch:
                        ev = enc_of(v)
                        if ev is not None or v is None:
                            if mode == "const" and jinja_lit(v) is not None and str(dec(ev)) == ch:
                                piece = {"t": "out", "e": {"k": "const", "v": ev}}
                            else:
                                piece = {"t": "out", "e": {"k": "var", "n": names.new(ev)}}
            if piece is None and mode == "obj":
                piece = {"t": "out", "e": {"k": "var", "n": names.new({"$": "obj", "s": ch})}}
            if piece is None and mode != "text":
                piece = {"t": "out", "e": {"k": "var", "n": names.new(ch)}}
            if piece is None:
                piece = {"t": "text", "s": ch} if text_ok(ch) else {"t": "out", "e": {"k": "var", "n": names.new(ch)}}
            if piece["t"] == "out":
                piece["e"] = _wrap_expr(draw, st, piece["e"])
            pieces.append(_wrap_piece(draw, st, names, piece))
        # text pieces must not end with "{" before a tag: sanitize() guarantees it
        return {"pieces": pieces, "data": names.data, "configs": _configs(draw, st)}

    @st.composite
    def tree(draw):
        names = _Names()
        small = st.one_of(st.integers(0, 12), st.sampled_from(["", "a", ",", " ", "[", "]", "1", ", ", "'", ".", "-", "(", ")", "{", "}", ":", "e", "j", "\n"]),
                          st.sampled_from([1.5, None, True, [1], {"$": "tuple", "v": [1, 2]}, {"$": "obj", "s": "2"}, {"$": "markup", "v": "3"}]))

        def pieces(depth, in_loop, in_macro):
            out = []
            for _ in range(draw(st.integers(0, 3 if depth else 4))):
                k = draw(st.sampled_from(["text", "text", "var", "var", "const", "it", "if", "for", "macro"]))
                if k == "text":
                    s = sanitize(draw(st.sampled_from(["[", "]", ",", ", ", " ", "1", "0.", "'", "a", "(", ")", "{ ", "}", ":", "-", "\n", "e", "+", "b'", "\""])))
                    out.append({"t": "text", "s": s})
                elif k == "var":
                    out.append({"t": "out", "e": _wrap_expr(draw, st, {"k": "var", "n": names.new(draw(small))})})
                elif k == "const":
                    out.append({"t": "out", "e": {"k": "const", "v": draw(st.sampled_from([1, 0, "a", "1", ",", [1, 2], None, True, 2.5, {"$": "tuple", "v": [1]}, "", "["]))}})
                elif k == "it" and in_loop and not in_macro:
                    out.append({"t": "out", "e": _wrap_expr(draw, st, {"k": "it"})})
                elif k == "if" and depth < 2:
                    c = draw(st.booleans())
                    out.append({"t": "if", "c": names.new(c), "a": pieces(depth + 1, in_loop, in_macro), "b": pieces(depth + 1, in_loop, in_macro)})
                elif k == "for" and depth < 2:
                    seq = draw(st.lists(small, max_size=3))
                    out.append({"t": "for", "v": names.new(seq), "body": pieces(depth + 1, True, in_macro)})
                elif k == "macro" and depth < 2:
                    out.append({"t": "macro", "body": pieces(depth + 1, False, True)})
            # adjacent text pieces would be one template-data node; harmless for the model
            return out

        return {"pieces": pieces(0, False, False), "data": names.data, "configs": _configs(draw, st)}

    @st.composite
    def inherit(draw):
        names = _Names()
        ints = st.integers(0, 12)
        natives = st.one_of(ints, ints, st.lists(ints, max_size=3), st.sampled_from([1.5, 2.0, None, True, "a", "1", "[1, 2]", "", {"$": "tuple", "v": [1, 2]},
                            {"$": "obj", "s": "[3]"}, {"$": "obj", "s": "x"}, {"$": "dict", "v": [["k", 1]]}, {"$": "bytes", "v": "[1]"}]))

        def var(strategy):
            return {"t": "out", "e": _wrap_expr(draw, st, {"k": "var", "n": names.new(draw(strategy))})}

        def ref(to):
            return {"t": "ref", "to": to, "use": "out"}

        def body(level, index):
            """1-4 (occasionally 0) chunk-producing pieces; refs start with use 'out' and are refined below."""
            targets = (["super"] * 3 if level else []) + ["b%d" % j for j in range(index)]
            shape = draw(st.sampled_from(["list", "list", "number", "single", "mix", "mix", "forward", "wrap", "empty"]))
            if shape in ("forward", "wrap") and not targets:
                shape = "list"
            if shape == "list":
                elems = [var(ints) if draw(st.booleans()) else {"t": "out", "e": {"k": "const", "v": draw(ints)}} for _ in range(draw(st.integers(1, 3)))]
                if targets and draw(st.booleans()):
                    elems[draw(st.integers(0, len(elems) - 1))] = ref(draw(st.sampled_from(targets)))
                out = [{"t": "text", "s": draw(st.sampled_from(["[", "[", "(", "{ "]))}]
                for i, e in enumerate(elems):
                    out.append(e)
                    out.append({"t": "text", "s": ", " if i + 1 < len(elems) else draw(st.sampled_from(["]", "]", ",)", "}", ""]))})
                return [p for p in out if p["t"] != "text" or p["s"]]
            if shape == "number":
                sep = draw(st.sampled_from([".", "", "e", "_", " "]))
                return [p for p in [var(ints), {"t": "text", "s": sep}, var(ints)] if p["t"] != "text" or p["s"]]
            if shape == "single":
                return [var(natives)]
            if shape == "forward":
                return [ref(draw(st.sampled_from(targets)))]
            if shape == "wrap":
                return [{"t": "text", "s": "["}, ref(draw(st.sampled_from(targets))), {"t": "text", "s": ", "}, var(ints), {"t": "text", "s": "]"}]
            if shape == "empty":
                return []
            out = []
            for _ in range(draw(st.integers(1, 4))):
                k = draw(st.sampled_from(["text", "var", "const", "ref"]))
                if k == "text":
                    out.append({"t": "text", "s": sanitize(draw(st.sampled_from(["[", "]", ", ", ",", " ", "1", "0.", "'", "a", "(", ")", "-", "+", "\n"])))})
                elif k == "var":
                    out.append(var(natives))
                elif k == "const":
                    out.append({"t": "out", "e": {"k": "const", "v": draw(st.sampled_from([1, 0, "a", "1", ",", [1, 2], None, True, 2.5, ""]))}})
                elif targets:
                    out.append(ref(draw(st.sampled_from(targets))))
            return out

        nblocks = draw(st.integers(1, 3))
        bnames = ["b%d" % i for i in range(nblocks)]
        nlevels = draw(st.sampled_from([1, 2, 2, 2, 3]))
        levels = [{"layout": [], "blocks": {b: body(0, i) for i, b in enumerate(bnames)}}]
        for k in range(1, nlevels):
            chosen = [b for b in bnames if draw(st.booleans())] or [bnames[0]]
            levels.append({"blocks": {b: body(k, bnames.index(b)) for b in chosen}})
        layout = []
        for b in bnames:
            if draw(st.integers(0, 3)) == 0:
                layout.append({"t": "text", "s": draw(st.sampled_from(["|", ", ", " ", "[", "x"]))})
            layout.append({"t": "block", "name": b})
            for _ in range(draw(st.sampled_from([0, 0, 1, 1, 2]))):
                if draw(st.integers(0, 2)) == 0:
                    layout.append({"t": "text", "s": draw(st.sampled_from(["|", ", ", " ", "]", "x"]))})
                layout.append(ref(draw(st.sampled_from(bnames))))
        levels[0]["layout"] = layout
        data = {k: dec(v) for k, v in names.data.items()}

        # refine the use of every reference from the value it will have (bottom-up: base version first, b0 first)
        def refine(pieces, name, depth):
            for p in pieces:
                if p["t"] == "ref":
                    with warnings.catch_warnings():
                        warnings.simplefilter("ignore")
                        try:
                            v, _ = ref_value(levels, p, name, depth, data, None, set(), frozenset())
                        except core.Discard:
                            continue
                    p["use"] = draw(st.sampled_from(applicable_uses(v)))

        for b in bnames:
            stack = _stack(levels, b)
            for depth in range(len(stack) - 1, -1, -1):
                refine(stack[depth], b, depth)
        refine(layout, None, 0)
        return {"kind": "inherit", "levels": levels, "data": names.data, "configs": ALL_CONFIGS}

    return st.one_of(single(), cut_literal(), cut_literal(), tree(), inherit(), inherit())


def shards(tier):
    return [{"i": i} for i in range(16)]


def _bound_shrinking():
    """Cap the number of successful shrink steps (count-based, deterministic) so that a failing run ends quickly;
    the default (500 steps / 5 minutes per shard) costs minutes with a ~10 ms oracle."""
    try:
        import hypothesis.internal.conjecture.engine as eng

        eng.MAX_SHRINKS = 120
    except Exception:  # noqa: BLE001 - internal knob missing: keep Hypothesis' default
        pass


def run_shard(spec, ctx):
    _bound_shrinking()
    rec = core.Rec()
    if ctx.index == 0:
        # the hand-picked near-literals, each as plain template text and as a string variable (every tier)
        def fixed():
            for t in SPECIAL_TEXTS:
                s = sanitize(t)
                if s and text_ok(s):
                    yield {"pieces": [{"t": "text", "s": s}], "data": {}, "configs": ALL_CONFIGS}
                yield {"pieces": [{"t": "out", "e": {"k": "var", "n": "v0"}}], "data": {"v0": t}, "configs": ALL_CONFIGS}
                yield {"pieces": [{"t": "out", "e": {"k": "var", "n": "v0"}}, {"t": "out", "e": {"k": "var", "n": "v1"}}],
                       "data": {"v0": {"$": "obj", "s": t}, "v1": ""}, "configs": ALL_CONFIGS}

            for v in FIXED_SINGLES:
                for e in ({"k": "var", "n": "v0"}, {"k": "call", "e": {"k": "var", "n": "v0"}}, {"k": "filter", "e": {"k": "var", "n": "v0"}}):
                    yield {"pieces": [{"t": "out", "e": e}], "data": {"v0": v}, "configs": ALL_CONFIGS}
                yield {"pieces": [{"t": "macro", "body": [{"t": "out", "e": {"k": "var", "n": "v0"}}]}], "data": {"v0": v}, "configs": ALL_CONFIGS}
                yield {"pieces": [{"t": "for", "v": "v1", "body": [{"t": "out", "e": {"k": "it"}}]}], "data": {"v1": [v]}, "configs": ALL_CONFIGS}
                yield {"pieces": [{"t": "for", "v": "v1", "body": [{"t": "out", "e": {"k": "it"}}]}], "data": {"v1": [v, v]}, "configs": ALL_CONFIGS}

            for v in FIXED_CONSTS:
                for pre in ("", "v="):
                    pieces = ([{"t": "text", "s": pre}] if pre else []) + [{"t": "out", "e": {"k": "const", "v": v}}]
                    yield {"pieces": pieces, "data": {}, "configs": ALL_CONFIGS + AE_CONFIGS}

        core.enum_shard(fixed(), check_case, ctx, rec=rec)
    # measured: ~5.5 ms CPU per case (4 renders + Hypothesis draw); quick 16 x 5000, thorough 16 x 80000 in batches
    strat = case_strategy(ctx.tier)
    for b in range(ctx.pick(1, 8)):
        if rec.violations:
            break
        core.hyp_shard(strat, check_case, ctx, ctx.pick(5000, 10000), rec=rec, tag="c34-%d" % b)
    return rec


def floors(total, tier):
    lab = total.labels
    need = {"lit_typeerror": 20, "lit_valueerror": 100, "lit_ok": 500, "lit_syntaxerror": 200, "top_single_nonstr": 300,
            "has_macro": 100, "inherit": 2000, "ref_super": 500, "ref_self": 500, "ref_block_2plus_chunks": 500,
            "ref_block_nonstring_chunk": 500, "use_for": 50, "use_plus": 50, "use_len": 50, "use_set": 200, "has_for": 100, "has_if": 100, "cfg_async_render": 1000, "cfg_async_render_async": 1000, "cfg_sandbox_render": 1000, "cfg_sync_ae_render": 1000, "cfg_async_ae_render_async": 1000}
    low = ["%s=%d<%d" % (k, lab.get(k, 0), v) for k, v in need.items() if lab.get(k, 0) < v]
    return ", ".join(low) or None
