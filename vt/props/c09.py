"""C09 - async mode renders exactly what sync mode renders (differential sync vs enable_async).

Case (plain JSON), common fields
    {"fam": "stmt" | "tset" | "expr" | "pipe" | "raw",
     "cls": "plain" | "sandbox" | "immutable" | "native",   environment class of BOTH environments of the pair
     "auto": bool | "byname",                                autoescape option of both ("byname": a callable, on for
                                                             the templates base / lib / inc, off for main)
     "undef": "default" | "strict" | "chainable" | "debug",  undefined type of both (optional, default "default")
     "wrap": bool,   async side: callables of the data become coroutine functions, marked iterables async generators
     ...}
family fields
    stmt   "prog": G-stmt program (vt/gen/stmt.py), "data": [data dict, ...], "mask": int
    expr   "expr": G-expr tree (vt/gen/expr.py), "datas": [encoded context, ...] (vt/gen/data.py), "style": int,
           "shape": "out" | "for" | "set", "mask": int
    tset   "ir": G-inherit / G-modules template set (vt/gen/tsets.py), "data": data
    pipe   "p": filter pipeline IR (this module, see PIPELINES below), "data": {"xs": [...]}
    raw    "templates": {name: source}, "entry": name | [names, rendered in this order on the same environment pair],
           "data": {name: tagged value}, "tglobals": {entry: {global: value}} (get_template(globals=...))   (replays / known findings)

``mask`` selects (bit k of mask <-> k-th eligible position, modulo 16) the for-loop iterables and the operands of
async-aware filters that are passed through the data function ``ai(...)``: on the sync side (and on the async
side with wrap=false) ``ai(x)`` is a plain generator over x, with wrap=true it is an async generator over x.

Oracle.  Two environments that differ only in ``enable_async`` load the same sources.  The sync environment is
observed at ``render`` and ``"".join(generate())``; the async one at ``render_async`` and ``generate_async`` (event
loop owned by the check, closed before it returns) for every data, at ``render`` (asyncio.run inside jinja) for the
first data of every entry and at ``"".join(generate())`` for the first data of every third case -- with the case's
data flavour, and ``render_async`` additionally with the plain data when wrap=true.  Every async observation must equal the sync one: same text (native environments: same value and
type; only render / render_async) or an exception of the same class.  Template sets additionally compare
``str(make_module(...))`` / exported names with ``make_module_async``.

PIPELINES (family "pipe"): {"src": [kind, arg], "stages": [[filter, {params}], ...], "sink": [name, {params}],
"emb": embedding}; kinds of src: var | lit | range | gen | cogen | cofn | meth | attr.  ``pipe_source(p)`` prints the
template.  The *result kind* of every pipeline prefix is tracked statically (seq / sgen = sync iterator on both
sides / lazy = async generator in async mode (map select reject selectattr rejectattr) / agen = async iterable
supplied by wrapped data); a lazy or agen value that reaches a consumer which is not async-aware is the input
class of known finding F27 and is counted as excluded (never executed).  Known finding F41 (async unique / slice / sum
list their input when they are called, the sync ones when they are iterated): a pipeline in which listing the input
of a unique / slice stage or of a sum sink raises (decided in the sync environment before anything is judged) is excluded, counted.
"""
import asyncio
import copy
import re
import warnings

from vt import core
from vt.gen import data as gdata
from vt.gen import expr as gexpr
from vt.gen import stmt as G
from vt.gen import tsets

PID = "C09"
LEVEL = "exploration"
RULE = (
    "Hypothesis draws, per shard, cases of four families: (stmt) G-stmt statement programs (if/for with else, filter, "
    "recursive, tuple targets, break/continue, set, block set, namespaces, with, macros with defaults, call blocks, filter "
    "blocks, autoescape blocks) x 3 data dicts; (expr) G-expr expression trees (all operators, lookups, calls with * and **, "
    "30 filters, 33 tests) x 3 generated contexts, printed as an output, a for loop or an assignment; (tset) G-inherit "
    "hierarchies (extends static/conditional/variable/Template object, blocks nested/scoped/required, super, self) and "
    "G-modules sets (include with/without context/ignore missing/lists, import, from-import, at top level and inside "
    "for/with/macro/set blocks); (pipe) filter pipelines source -> stages -> sink over lists, generators, coroutine "
    "functions, awaitable attributes and async methods, with every filter that has an async variant (first groupby join "
    "list map reject rejectattr select selectattr slice sum unique), custom async filters/tests, and for-loop sinks using "
    "loop.index/length/revindex/previtem/nextitem/changed/cycle/first/last, loop filters, recursion, break, tuple targets, "
    "include and imported macros in the loop body, embedded in set / block set / filter block / macro argument / call "
    "block / if. Each case runs in a pair of environments differing only in enable_async, class drawn from Environment, "
    "SandboxedEnvironment, ImmutableSandboxedEnvironment, NativeEnvironment, autoescape on/off; entry points render, "
    "render_async, ''.join(generate()), generate_async; with wrap=true the async side gets coroutine functions / async "
    "generators / awaitables producing the same results. Non-trivial = the printed source contains a call, a for loop, a "
    "filter or test (async code generation differs for each of them), or an include/import/extends/block, and at least one "
    "observation was compared; distinct = distinct serialized case."
)
ASSUMPTIONS = [
    "differential: both sides run the current tree, a defect common to sync and async mode is invisible here",
    "error outcomes are compared by exact exception class; TemplateError, TypeError, ValueError, ArithmeticError, LookupError "
    "and AttributeError raised by a render are outcomes, anything else escaping is reported as a violation",
    "a data (expr family: the reference evaluator vt.ref.evalexpr declines it; stmt family: a variable is concatenated with "
    "itself) that may exceed the magnitude bounds is not rendered; a sync output showing an object address (' at 0x..') or "
    "longer than 50 000 characters is discarded, not judged",
    "excluded by construction, counted (known finding F27): the result of a lazy filter (map select reject selectattr "
    "rejectattr) or an async iterable of the data reaching a consumer that is not async-aware (sort min max reverse batch "
    "last length tojson in *args unpacking 'is iterable' printing string ~)",
    "excluded, counted (known finding F41: async unique / slice / sum list their input when called, the sync ones lazily): pipelines "
    "in which evaluating the input of a unique / slice stage or of a sum sink raises (decided by listing that input in the sync environment)",
    "excluded, counted (F53 again): every native case with undefined=StrictUndefined (an output chunk may raise in str()); "
    "(F41 again): under StrictUndefined a join sink whose input raises when listed",
    "excluded, counted (finding F53: native sync render() converts output values to str while the template is "
    "still running, render_async afterwards, so with two failing places a different error wins): native template sets that "
    "print an imported module object (its str() raises TypeError in a native environment)",
    "awaitable attributes / items (wrap=true) are only read by compiled attribute and subscript expressions, coroutine test "
    "functions only by compiled 'is' tests (filters that look attributes up or call tests themselves do not await them)",
    "native environments: generate() is not compared (chunks are not strings)",
]

CLASSES = ("plain", "sandbox", "immutable", "native")
ASYNC_FILTERS = ("first", "groupby", "join", "list", "map", "reject", "rejectattr", "select", "selectattr", "slice", "sum", "unique")
MAX_OUT = 50000
_ADDR = re.compile(r" at 0x[0-9a-f]{4,}", re.I)
_TAG = re.compile(r"\{[{%](.*?)[}%]\}", re.S)
_NT = re.compile(r"\w\(|^-?\s*(for|include|import|from|extends|block|call|filter)\b|\|\s*\w|\bis\s+\w")

_state = {}


# ---------------------------------------------------------------------------------------------------------
# data wrappers: what "the same data, but async" means


class AFn(gdata.Fn):
    """Fn as a coroutine function: same result, same repr."""

    async def __call__(self, *args, **kwargs):
        await asyncio.sleep(0)
        return gdata.Fn.__call__(self, *args, **kwargs)


class Aw:
    """A re-usable awaitable producing ``v`` (an attribute / item the template reads is awaited by compiled code)."""

    def __init__(self, v):
        self._vt_v = v

    def __await__(self):
        yield from asyncio.sleep(0).__await__()
        return self._vt_v


def _sgen(x):
    for i in x:
        yield i


async def _agen(x):
    for i in x:
        yield i


async def _agen_susp(x):
    for i in x:
        await asyncio.sleep(0)
        yield i


def _ai_async(x):
    return _agen(x)


def _cofn_sync(x):
    return _copy(x)


async def _cofn_async(x):
    await asyncio.sleep(0)
    return _copy(x)


async def _cogen_async(x):
    return _agen_susp(x)


def _copy(xs):
    return list(xs) if isinstance(xs, list) else xs   # xs may be a scalar (falsy non-iterable sources)


class SyncOb:
    def __init__(self, xs):
        self.at = _copy(xs)
        self._xs = xs

    def m(self):
        return _copy(self._xs)

    def __repr__(self):
        return "<ob>"


class AsyncOb:
    def __init__(self, xs):
        self.at = Aw(_copy(xs))
        self._xs = xs

    async def m(self):
        await asyncio.sleep(0)
        return _copy(self._xs)

    def __repr__(self):
        return "<ob>"


# the async twins carry the name of their sync counterpart: error messages and DebugUndefined texts name the type
AFn.__name__ = AFn.__qualname__ = gdata.Fn.__name__
AFn.__module__ = gdata.Fn.__module__
AsyncOb.__name__ = AsyncOb.__qualname__ = SyncOb.__name__


def _helpers(wrapped):
    if wrapped:
        return {"ai": _ai_async, "gen": _ai_async, "cofn": _cofn_async, "cogen": _cogen_async, "vt_wrap": True}
    return {"ai": _sgen, "gen": _sgen, "cofn": _cofn_sync, "cogen": _sgen, "vt_wrap": False}


def _afn_deep(v):
    """Replace every probe callable by its coroutine-function twin (containers are rebuilt, probes updated)."""
    t = type(v)
    if t is gdata.Fn:
        return AFn(v._vt_name)
    if t is list:
        return [_afn_deep(x) for x in v]
    if t is tuple:
        return tuple(_afn_deep(x) for x in v)
    if t is dict:
        return {k: _afn_deep(x) for k, x in v.items()}
    if t is gdata.Obj:
        for k, x in list(v.__dict__.items()):
            if not k.startswith("_vt_"):
                object.__setattr__(v, k, _afn_deep(x))
        items = v._vt_items
        for k in list(items):
            items[k] = _afn_deep(items[k])
    return v


# ---------------------------------------------------------------------------------------------------------
# environments


def _setup():
    if _state:
        return _state
    import jinja2
    from jinja2 import pass_context
    from jinja2.nativetypes import NativeEnvironment
    from jinja2.sandbox import ImmutableSandboxedEnvironment, SandboxedEnvironment
    from markupsafe import Markup

    # generated sources such as "None[1:2]" make Python warn when compiling; un-awaited coroutines of renders that
    # end with an error make the interpreter warn at collection time.  Neither is what is judged here.
    warnings.filterwarnings("ignore", category=SyntaxWarning)
    warnings.filterwarnings("ignore", category=RuntimeWarning)

    @pass_context
    def afilt(ctx, v):
        if ctx.get("vt_wrap"):
            async def run():
                await asyncio.sleep(0)
                return "<%s>" % (v,)
            return run()
        return "<%s>" % (v,)

    @pass_context
    def atest(ctx, v, n=0):
        r = bool(v) and v != n
        if ctx.get("vt_wrap"):
            async def run():
                return r
            return run()
        return r

    _state.update(
        jinja2=jinja2, Markup=Markup, afilt=afilt, atest=atest,
        classes={"plain": jinja2.Environment, "sandbox": SandboxedEnvironment, "immutable": ImmutableSandboxedEnvironment,
                 "native": NativeEnvironment},
        outcomes=(jinja2.TemplateError, TypeError, ValueError, ArithmeticError, LookupError, AttributeError),
    )
    return _state


BYNAME_TRUE = ("base", "lib", "inc")


def _autoescape_by_name(name):
    """A select_autoescape-like callable: on for the library / base templates, off for 'main' and string templates."""
    return name in BYNAME_TRUE


UNDEFS = ("default", "strict", "chainable", "debug")


def _make_env(cls, is_async, auto, templates, globs=None, undef="default"):
    st = _setup()
    if auto == "byname":
        auto = _autoescape_by_name
    j = st["jinja2"]
    ucls = {"default": j.Undefined, "strict": j.StrictUndefined, "chainable": j.ChainableUndefined, "debug": j.DebugUndefined}[undef]
    env = st["classes"][cls](loader=j.DictLoader(templates), enable_async=is_async, autoescape=auto, undefined=ucls,
                             extensions=["jinja2.ext.loopcontrols"])
    env.filters["afilt"] = st["afilt"]
    env.tests["atest"] = st["atest"]
    for k, v in (globs or {}).items():
        env.globals[k] = v
    return env


# ---------------------------------------------------------------------------------------------------------
# observation


def _canon(v):
    t = type(v)
    if t is AFn or t is gdata.Fn:
        return ["fn", v._vt_name]
    if t is list or t is tuple:
        return [t.__name__, [_canon(x) for x in v]]
    if t is dict:
        return ["dict", [[_canon(k), _canon(x)] for k, x in v.items()]]
    if t is SyncOb or t is AsyncOb:
        return ["ob"]
    return [t.__name__, repr(v)]


async def _collect(agen):
    return [x async for x in agen]


def _observe(env, name, entry_point, data, loop, native, tglobals=None):
    """-> ("ok", text | canonical native value) | ("err", exception class name, message)"""
    st = _state
    try:
        t = env.get_template(name, globals=tglobals)
        if entry_point == "render":
            v = t.render(data)
        elif entry_point == "render_async":
            v = loop.run_until_complete(t.render_async(data))
        elif entry_point == "generate":
            v = "".join(t.generate(data))
        elif entry_point == "generate_async":
            v = "".join(loop.run_until_complete(_collect(t.generate_async(data))))
        elif entry_point == "module":
            m = t.make_module(data)
            v = (str(m), sorted(k for k in m.__dict__ if not k.startswith("_")))
        elif entry_point == "module_async":
            m = loop.run_until_complete(t.make_module_async(data))
            v = (str(m), sorted(k for k in m.__dict__ if not k.startswith("_")))
        else:
            raise core.HarnessError(entry_point)
    except st["outcomes"] as e:
        return ("err", type(e).__name__, str(e)[:200])
    except RecursionError:
        if env.is_async:
            raise
        return ("recursion",)   # a program that does not terminate (sync reference): the data is discarded
    if native and entry_point in ("render", "render_async"):
        return ("ok", _canon(v))
    return ("ok", v)


def _same(a, b):
    return a[:2] == b[:2]


def _drain(loop):
    for _ in range(6):
        loop.run_until_complete(asyncio.sleep(0))
        pending = asyncio.all_tasks(loop)
        if not pending:
            return
        loop.run_until_complete(asyncio.gather(*pending, return_exceptions=True))


def _close_loop(loop):
    """Let the finalizer tasks of abandoned async generators (e.g. the rest of a lazy filter after |first) finish,
    then close the loop: nothing of the case outlives check_case."""
    try:
        _drain(loop)
        loop.run_until_complete(loop.shutdown_asyncgens())
        _drain(loop)
    finally:
        loop.close()


class _Plan:
    """What one family adapter hands to the runner."""

    def __init__(self, templates, entries, makers, globs=None, modules=False, labels=(), prechecks=(), tglobals=None):
        self.tglobals = tglobals or {}  # {entry name: template-level globals handed to get_template} (reach imported modules)
        self.prechecks = list(prechecks)  # templates that must render on the sync side, else the case is Excluded
        self.templates = templates      # {name: source}
        self.entries = entries          # template names to render
        self.makers = makers            # [maker(env, wrapped) -> render data dict]  (fresh values at every call)
        self.globs = globs or {}
        self.modules = modules
        self.labels = set(labels)


def _run_plan(case, plan):
    cls, auto, wrap = case.get("cls", "plain"), case.get("auto", False), bool(case.get("wrap", False))
    auto = "byname" if auto == "byname" else bool(auto)
    native = cls == "native"
    undef = case.get("undef", "default")
    senv = _make_env(cls, False, auto, plan.templates, plan.globs, undef)
    aenv = _make_env(cls, True, auto, plan.templates, plan.globs, undef)
    labels = set(plan.labels)
    labels.add("undef_" + undef)
    labels.update(("fam_" + case["fam"], "cls_" + cls, "auto_byname" if auto == "byname" else ("auto" if auto else "noauto"),
                   "wrap" if wrap else "nowrap"))
    compared = 0
    for name in plan.prechecks:
        for mk in plan.makers:
            if _observe(senv, name, "render", mk(senv, False), None, native)[0] != "ok":
                raise core.Excluded()
    loop = asyncio.new_event_loop()
    try:
        for name in plan.entries:
            for di, mk in enumerate(plan.makers):
                tg = plan.tglobals.get(name)
                ref = {"render": _observe(senv, name, "render", mk(senv, False), None, native, tg)}
                r = ref["render"]
                if r[0] == "recursion":
                    labels.add("data_discarded_recursion")
                    continue
                if r[0] == "ok" and not native and (len(r[1]) > MAX_OUT or _ADDR.search(r[1])):
                    labels.add("data_discarded_addr_or_size")
                    continue
                if r[0] == "ok" and native and _ADDR.search(repr(r[1])):
                    labels.add("data_discarded_addr_or_size")
                    continue
                labels.add("sync_ok" if r[0] == "ok" else "sync_err_" + r[1])
                if not native:
                    ref["generate"] = _observe(senv, name, "generate", mk(senv, False), None, native, tg)
                # render() / generate() of an async environment start an event loop of their own (asyncio.run, ~2 ms of
                # mostly system time): render() is observed on the first data of every entry, generate() on the first
                # data of every third case (a pure function of the case), the *_async entry points on every data
                points = [("render_async", wrap)]
                if not native:
                    points.append(("generate_async", wrap))
                if di == 0:
                    points.append(("render", wrap))
                    if not native and sum(map(len, plan.templates.values())) % 3 == 0:
                        points.append(("generate", wrap))
                if wrap:
                    points.append(("render_async", False))
                if plan.modules:
                    ref["module"] = _observe(senv, name, "module", mk(senv, False), None, native, tg)
                    points.append(("module_async", wrap))
                for ep, flavour in points:
                    want = ref[{"render_async": "render", "generate_async": "generate", "module_async": "module"}.get(ep, ep)]
                    got = _observe(aenv, name, ep, mk(aenv, flavour), loop, native, tg)
                    compared += 1
                    if not _same(want, got):
                        raise core.Violation(
                            "sync %s gives %r, async %s (%s data) gives %r\n class=%s autoescape=%s template %r of %r\n data[%d]: %r"
                            % ({"render_async": "render", "generate_async": "generate", "module_async": "make_module"}.get(ep, ep),
                               want, ep, "wrapped" if flavour else "plain", got, cls, auto, name, plan.templates, di,
                               _show_data(case, di)), entry_point=ep, wrapped=flavour)
    finally:
        _close_loop(loop)
    if not compared:
        raise core.Discard()
    nt = any(_NT.search(tag) for src in plan.templates.values() for tag in _TAG.findall(src))
    return core.Outcome(nt, sorted(labels))


def _show_data(case, di):
    for key in ("data", "datas"):
        if key in case:
            d = case[key]
            return d[di] if isinstance(d, list) else d
    return None


# ---------------------------------------------------------------------------------------------------------
# family: stmt


def _wrap_call_stmt(e):
    return ["call", "ai", [e], []]


def _mask_stmt(prog, mask):
    """Copy of the program with the mask-selected loop iterables / join / first operands passed through ai()."""
    k = [0]

    def take():
        i = k[0]
        k[0] += 1
        return (mask >> (i % 16)) & 1

    def ex(e):
        kind = e[0]
        if kind == "list":
            return ["list", [ex(x) for x in e[1]]]
        if kind in ("add", "sub", "cat", "and", "or"):
            return [kind, ex(e[1]), ex(e[2])]
        if kind == "cmp":
            return ["cmp", e[1], ex(e[2]), ex(e[3])]
        if kind == "not":
            return ["not", ex(e[1])]
        if kind == "cond":
            return ["cond", ex(e[1]), ex(e[2]), ex(e[3]) if e[3] is not None else None]
        if kind == "filt":
            operand = ex(e[2])
            if e[1] in ("join", "first") and take():
                operand = _wrap_call_stmt(operand)
            return ["filt", e[1], operand, [ex(x) for x in e[3]]]
        if kind == "call":
            return ["call", e[1], [ex(x) for x in e[2]], [[kw, ex(x)] for kw, x in e[3]]]
        if kind == "caller":
            return ["caller", [ex(x) for x in e[1]]]
        return e

    def body(b):
        return [stmt(s) for s in b]

    def stmt(s):
        kind = s[0]
        if kind == "out":
            return ["out", ex(s[1])]
        if kind == "if":
            return ["if", [[ex(c), body(b)] for c, b in s[1]], body(s[2]) if s[2] is not None else None]
        if kind == "for":
            it = ex(s[2])
            if take():
                it = _wrap_call_stmt(it)
            return ["for", s[1], it, body(s[3]), body(s[4]) if s[4] is not None else None,
                    ex(s[5]) if s[5] is not None else None, s[6]]
        if kind == "set":
            return ["set", s[1], [ex(x) for x in s[2]]]
        if kind == "setblock":
            return ["setblock", s[1], s[2], body(s[3])]
        if kind == "nsnew":
            return ["nsnew", s[1], [[a, ex(x)] for a, x in s[2]]]
        if kind == "nsset":
            return ["nsset", s[1], s[2], ex(s[3])]
        if kind == "with":
            return ["with", [[n, ex(x)] for n, x in s[1]], body(s[2])]
        if kind == "macro":
            return ["macro", s[1], s[2], [ex(x) for x in s[3]], body(s[4])]
        if kind == "callblock":
            return ["callblock", s[1], ex(s[2]), body(s[3])]
        if kind == "filter":
            return ["filter", s[1], body(s[2])]
        if kind == "autoescape":
            return ["autoescape", s[1], body(s[2])]
        return s

    return body(prog), k[0]


def _self_doubling(prog):
    """An assignment whose value mentions its own target twice can double a string at every execution."""
    for s in G.walk(prog):
        if s[0] == "set":
            for tgt in s[1]:
                if sum(1 for e in s[2] for n in G.expr_names(e) if n == tgt) >= 2:
                    return True
        elif s[0] == "nsset":
            n = sum(1 for x in G.walk_expr(s[3]) if x[0] == "nsattr" and x[1] == s[1] and x[2] == s[2])
            if n >= 2:
                return True
    return False


def _plan_stmt(case):
    prog = case["prog"]
    if _self_doubling(prog):
        raise core.Discard()
    prog2, npos = _mask_stmt(prog, int(case.get("mask", 0)))
    src = G.print_program(prog2)

    def maker(d):
        def mk(env, wrapped):
            out = copy.deepcopy(d)
            out.update(_helpers(wrapped))
            return out
        return mk

    labels = {"s_" + s[0] for s in G.walk(prog)}
    if npos and "ai(" in src:
        labels.add("ai_inserted")
    return _Plan({"main": src}, ["main"], [maker(d) for d in case["data"]], labels=labels)


# ---------------------------------------------------------------------------------------------------------
# family: expr

_AI_FILTERS_EXPR = ("sum", "first", "join", "list", "unique", "slice", "groupby", "map", "select", "reject", "selectattr",
                    "rejectattr")


def _mask_expr(tree, mask):
    k = [0]

    def take():
        i = k[0]
        k[0] += 1
        return (mask >> (i % 16)) & 1

    def ex(n):
        if n is None:
            return None
        kind = n[0]
        if kind in ("const", "name"):
            return n
        if kind in ("list", "tuple"):
            return [kind, [ex(x) for x in n[1]]]
        if kind == "dict":
            return ["dict", [[ex(a), ex(b)] for a, b in n[1]]]
        if kind == "unary":
            return ["unary", n[1], ex(n[2])]
        if kind == "bin":
            return ["bin", n[1], ex(n[2]), ex(n[3])]
        if kind == "concat":
            return ["concat", [ex(x) for x in n[1]]]
        if kind in ("and", "or"):
            return [kind, ex(n[1]), ex(n[2])]
        if kind == "cmp":
            return ["cmp", ex(n[1]), [[op, ex(x)] for op, x in n[2]]]
        if kind == "cond":
            return ["cond", ex(n[1]), ex(n[2]), ex(n[3])]
        if kind == "attr":
            return ["attr", ex(n[1]), n[2]]
        if kind == "item":
            return ["item", ex(n[1]), ex(n[2])]
        if kind == "slice":
            return ["slice", ex(n[1]), ex(n[2]), ex(n[3]), ex(n[4])]
        if kind == "call":
            return ["call", ex(n[1]), [ex(x) for x in n[2]], [[kw, ex(x)] for kw, x in n[3]], ex(n[4]), ex(n[5])]
        if kind == "filter":
            operand = ex(n[2])
            if n[1] in _AI_FILTERS_EXPR and take():
                operand = ["call", ["name", "ai"], [operand], [], None, None]
            return ["filter", n[1], operand, [ex(x) for x in n[3]], [[kw, ex(x)] for kw, x in n[4]]]
        if kind == "test":
            return ["test", n[1], ex(n[2]), [ex(x) for x in n[3]], n[4]]
        if kind == "paren":
            return ["paren", ex(n[1])]
        raise core.HarnessError("unknown expression node %r" % (kind,))

    return ex(tree), k[0]


def _plan_expr(case):
    from vt.ref import evalexpr as ref

    tree, datas = case["expr"], case["datas"]
    try:
        ref.static_check(tree)
    except ref.RefDecline:
        raise core.Discard()
    keep = []
    for enc in datas:
        try:
            ref.eval_expr(tree, gdata.decode_context(enc))
        except ref.RefDecline:
            continue   # magnitude bounds / documentation undecided: the guard against F19-sized evaluations
        except ref.RefError:
            pass
        keep.append(enc)
    if not keep:
        raise core.Discard()
    tree2, npos = _mask_expr(tree, int(case.get("mask", 0)))
    src = gexpr.print_expr(tree2, case.get("style", 0))
    shape = case.get("shape", "out")
    if shape == "for":
        tpl = "{% for q in (" + src + ") %}{{ loop.index }}:{{ q }};{% else %}-{% endfor %}"
    elif shape == "set":
        tpl = "{% set q = " + src + " %}[{{ q }}]"
    else:
        tpl = "{{ " + src + " }}"

    def maker(enc):
        def mk(env, wrapped):
            out = gdata.decode_context(enc)
            if wrapped:
                out = {k: _afn_deep(v) for k, v in out.items()}
            out.update(_helpers(wrapped))
            return out
        return mk

    labels = {"x_" + l for l in gexpr.tree_labels(tree)}
    labels.add("shape_" + shape)
    if npos:
        labels.add("ai_inserted")
    for n in gexpr.walk(tree):
        if n[0] == "filter" and n[1] in ASYNC_FILTERS:
            labels.add("f_" + n[1])
    return _Plan({"main": tpl}, ["main"], [maker(enc) for enc in keep], labels=labels)


# ---------------------------------------------------------------------------------------------------------
# family: tset


def _prints_module(ir):
    """Does a template print an imported module object ({% import x as L %}{{ L }})?"""
    def walk(nodes, aliases):
        for n in nodes:
            if not isinstance(n, list) or not n:
                continue
            if n[0] == "import":
                aliases.add(n[2])
            elif n[0] == "out" and n[1][0] == "n" and n[1][1] in aliases:
                return True
            for sub in n[1:]:
                if isinstance(sub, list) and sub and isinstance(sub[0], list) and walk(sub, aliases):
                    return True
        return False

    return any(isinstance(body, list) and walk(body, set()) for body in ir["templates"].values())


def _plan_tset(case, allow_known=False):
    ir, data = case["ir"], case["data"]
    if case.get("cls") == "native" and not allow_known and _prints_module(ir):
        # known finding F53 (native sync render interleaves str() of output values with rendering, render_async
        # renders everything first): str(module) raises TypeError in a native environment; which error wins differs
        raise core.Excluded()
    templates = tsets.print_set(ir)

    def mk(env, wrapped):
        return tsets.decode_data(env, copy.deepcopy(data))

    labels = {"tset_" + ir.get("kind", "?")}
    text = "".join(templates.values())
    for kw in ("include", "import", "extends", "super()", "from", "block", "without context", "with context", "ignore missing"):
        if kw in text:
            labels.add("t_" + kw.replace(" ", "_").replace("()", ""))
    return _Plan(templates, list(ir["entries"]), [mk], globs=ir.get("globals"), modules=True, labels=labels)


# ---------------------------------------------------------------------------------------------------------
# family: raw  (replays, known findings)


def _raw_value(j, wrapped):
    if isinstance(j, dict) and "$" in j:
        tag = j["$"]
        if tag == "gen":
            items = [_raw_value(x, wrapped) for x in j["v"]]
            return _agen(items) if wrapped else _sgen(items)
        if tag == "cofn":
            v = j["v"]
            if wrapped:
                async def f(*a, **k):
                    await asyncio.sleep(0)
                    return _raw_value(v, wrapped)
                return f
            return lambda *a, **k: _raw_value(v, wrapped)
        if tag == "pydict":
            return {k: _raw_value(x, wrapped) for k, x in j["v"].items()}
        return gdata.decode_data(j)
    if isinstance(j, list):
        return [_raw_value(x, wrapped) for x in j]
    return j


def _plan_raw(case):
    data = case.get("data", {})

    def mk(env, wrapped):
        out = {k: _raw_value(v, wrapped) for k, v in data.items()}
        if wrapped:
            out = {k: _afn_deep(v) for k, v in out.items()}
        for k, v in _helpers(wrapped).items():
            out.setdefault(k, v)
        return out

    entry = case.get("entry", "main")
    return _Plan(dict(case["templates"]), entry if isinstance(entry, list) else [entry], [mk], modules=bool(case.get("modules")),
                 labels={"raw"}, tglobals=case.get("tglobals"))


# ---------------------------------------------------------------------------------------------------------
# family: pipe -- IR, printer, static result kinds

LAZY = ("map", "select", "reject", "selectattr", "rejectattr")
SGEN_OUT = ("unique", "slice", "batch", "reverse")
SEQ_OUT = ("list", "sort", "groupby")
SYNC_ONLY_STAGES = ("sort", "reverse", "batch")
SYNC_ONLY_SINKS = ("length", "min", "max", "last", "tojson", "in", "star", "unpack", "iterable", "print", "string", "sortjoin")
AWARE_SINKS = ("join", "list", "first", "sum", "for", "twice", "afilt", "atest", "ucall", "alias")
ADDRESS_SINKS = ("print", "string")
EMBEDDINGS = ("plain", "set", "setblock", "filterblock", "macroarg", "callblock", "if", "macrobody", "selfblock", "superblock")
N_FOR_VARIANTS = 11

LIBS = {
    "base": "<{% block pb %}B&<{{ x }}{% endblock %}>",
    "inc": "[{{ x }}{{ loop.index if loop is defined }}]",
    "lib": "{% macro lm(v) %}<{{ v }}|{{ x }}|{{ tg }}{{ caller() if caller is defined }}>{% endmacro %}{% set libvar = 'L' ~ x ~ tg %}",
}


def _lit(v):
    if v is None:
        return "none"
    if v is True:
        return "true"
    if v is False:
        return "false"
    if isinstance(v, (int, float)):
        return repr(v)
    if isinstance(v, str):
        if "'" in v or "\\" in v or "\n" in v:
            raise core.HarnessError("unprintable string constant %r" % (v,))
        return "'" + v + "'"
    if isinstance(v, list):
        return "[" + ", ".join(_lit(x) for x in v) + "]"
    raise core.HarnessError("unprintable constant %r" % (v,))


def _args(pos, kws):
    parts = [_lit(a) for a in pos] + ["%s=%s" % (k, _lit(v)) for k, v in kws]
    return "(" + ", ".join(parts) + ")" if parts else ""


def _stage_src(st):
    name, p = st
    if name == "map":
        if "attr" in p:
            kws = [("attribute", p["attr"])]
            if "default" in p:
                kws.append(("default", p["default"]))
            return "|map" + _args([], kws)
        return "|map" + _args([p["f"]] + list(p.get("args", [])), [])
    if name in ("select", "reject"):
        return "|" + name + _args(([p["t"]] if p.get("t") else []) + list(p.get("args", [])), [])
    if name in ("selectattr", "rejectattr") and p.get("noargs"):
        return "|" + name     # invalid argument list: FilterArgumentError as soon as the filter looks at its arguments
    if name in ("selectattr", "rejectattr"):
        return "|" + name + _args([p["attr"]] + ([p["t"]] if p.get("t") else []) + list(p.get("args", [])), [])
    if name == "unique":
        kws = []
        if p.get("cs") is not None:
            kws.append(("case_sensitive", p["cs"]))
        if p.get("attr") is not None:
            kws.append(("attribute", p["attr"]))
        return "|unique" + _args([], kws)
    if name in ("slice", "batch"):
        return "|" + name + _args([p["n"]] + ([p["fill"]] if "fill" in p else []), [])
    if name == "groupby":
        kws = []
        if "default" in p:
            kws.append(("default", p["default"]))
        if p.get("cs") is not None:
            kws.append(("case_sensitive", p["cs"]))
        return "|groupby" + _args([p["attr"]], kws)
    if name == "sort":
        kws = []
        if p.get("rev"):
            kws.append(("reverse", True))
        if p.get("attr") is not None:
            kws.append(("attribute", p["attr"]))
        return "|sort" + _args([], kws)
    if name in ("list", "reverse"):
        return "|" + name
    raise core.HarnessError("unknown stage %r" % (name,))


def _src_src(src):
    kind, arg = src
    if kind == "var":
        return "xs"
    if kind == "lit":
        return _lit(arg)
    if kind == "range":
        return "range(%d)" % arg
    if kind in ("gen", "cofn", "cogen"):
        return "%s(xs)" % kind
    if kind == "meth":
        return "ob.m()"
    if kind == "attr":
        return "ob.at"
    if kind == "missing":
        return "nope"       # a name that is not in the context: an undefined value of the environment's type
    if kind == "missattr":
        return "ob.zz"      # a missing attribute
    raise core.HarnessError("unknown source %r" % (kind,))


def _for_src(E, v):
    if v == 0:
        return "{% for x in " + E + " %}{{ x }},{% endfor %}"
    if v == 1:
        return "{% for x in " + E + " %}{{ loop.index }}/{{ loop.length }}:{{ x }}{{ '' if loop.last else ';' }}{% else %}E{% endfor %}"
    if v == 2:
        return "{% for x in " + E + " if x %}{{ loop.index0 }}{{ x }}{{ loop.revindex }}{% else %}E{% endfor %}"
    if v == 3:
        return ("{% for x in " + E + " %}{{ loop.previtem|default('^') }}<{{ x }}>{{ loop.nextitem|default('$') }}"
                "{{ loop.changed(x) }}{{ loop.cycle('p', 'q') }}{% endfor %}")
    if v == 4:
        return "{% for x in " + E + " %}{% if loop.index > 2 %}{% break %}{% endif %}{% if x == 1 %}{% continue %}{% endif %}{{ x }}{% else %}E{% endfor %}"
    if v == 5:
        return ("{% for x in " + E + " recursive %}[{% if x is iterable and x is not string and x is not mapping %}"
                "{{ loop(x) }}{% else %}{{ x }}{% endif %}{{ loop.depth }}]{% endfor %}")
    if v == 6:
        return "{% for k, v in " + E + " %}{{ k }}={{ v }};{% else %}E{% endfor %}"
    if v == 7:
        return "{% for x in " + E + " %}({% for y in x %}{{ y }}{{ loop.revindex0 }}{% endfor %}){% endfor %}"
    if v == 8:
        return "{% for x in " + E + " %}{{ loop.first }}{{ loop.last }}{{ loop.length }}{{ loop.revindex }}{% endfor %}"
    if v == 9:
        return "{% for x in " + E + " %}{% include 'inc' %}{% include 'inc' without context %}{% endfor %}"
    if v == 10:
        return ("{% from 'lib' import lm %}{% for x in " + E + " %}{% import 'lib' as L with context %}{{ lm(x) }}"
                "{% call L.lm(loop.index) %}{{ x }}{% endcall %}{{ L.libvar }}{% endfor %}")
    raise core.HarnessError("unknown for variant %r" % (v,))


def pipe_source(p):
    """Template source of a pipeline case."""
    P = _src_src(p["src"]) + "".join(_stage_src(s) for s in p["stages"])
    sink, sp = p["sink"]
    stmt = None
    if sink == "join":
        kws = [("attribute", sp["attr"])] if sp.get("attr") is not None else []
        E = P + "|join" + _args([sp["sep"]] if "sep" in sp else [], kws)
    elif sink in ("list", "first", "length", "min", "max", "last", "tojson", "string"):
        E = P + "|" + sink
    elif sink == "sum":
        kws = []
        if sp.get("attr") is not None:
            kws.append(("attribute", sp["attr"]))
        if "start" in sp:
            kws.append(("start", sp["start"]))
        E = P + "|sum" + _args([], kws)
    elif sink == "sortjoin":
        E = P + "|sort|join(',')"
    elif sink == "in":
        E = _lit(sp["v"]) + " in " + P
    elif sink == "star":
        E = "fn(*" + P + ")"
    elif sink == "iterable":
        E = "(" + P + ") is iterable"
    elif sink == "print":
        E = P
    elif sink == "afilt":
        E = P + "|first|afilt"
    elif sink == "atest":
        E = "(" + P + "|first) is atest" + ("(%s)" % _lit(sp["n"]) if "n" in sp else "")
    elif sink == "ucall":
        E = "ufn(" + P + "|first)"   # ufn.unsafe_callable / alters_data: SecurityError in both sandboxed environments
    elif sink == "unpack":
        stmt = "{% set a, b = " + P + " %}{{ a }}|{{ b }}"
    elif sink == "alias":
        # the copy made by |list is changed through a method call; the original and the identity test are printed
        # (nothing is changed after it was printed: a native sync render converts outputs to str while the template is
        # still running, render_async afterwards -- finding F53)
        stmt = "{% set c = " + P + "|list %}{% set _ = c.append(9) %}{{ c }}|{{ xs }}|{{ c is sameas xs }}"
    elif sink == "twice":
        stmt = "{% set g = " + P + " %}{{ g|list }}|{{ g|list }}|{{ g|first|default('none') }}"
    elif sink == "for":
        stmt = _for_src(P, sp["v"])
    else:
        raise core.HarnessError("unknown sink %r" % (sink,))
    emb = p.get("emb", "plain")
    if stmt is None:
        if emb == "set":
            return "{% set r = " + E + " %}[{{ r }}]"
        if emb == "macroarg":
            return "{% macro mm(q, w=1) %}({{ q }}{{ w }}){% endmacro %}{{ mm(" + E + ") }}{{ mm(w=" + E + ", q=2) }}"
        if emb == "if":
            return "{% if " + E + " %}T{% elif not (" + E + ") %}F{% endif %}{{ 'y' if " + E + " else 'n' }}"
        stmt = "{{ " + E + " }}"
    if emb == "setblock":
        return "{% set r %}" + stmt + "{% endset %}[{{ r }}]{{ r|length }}"
    if emb == "filterblock":
        return "{% filter upper %}" + stmt + "{% endfilter %}"
    if emb == "callblock":
        return "{% macro mc() %}<{{ caller() }}>{% endmacro %}{% call mc() %}" + stmt + "{% endcall %}"
    if emb == "macrobody":
        return "{% macro mb(xs) %}" + stmt + "{% endmacro %}{{ mb(xs) }}|{{ mb([]) }}"
    if emb in ("selfblock", "superblock"):
        # {{ self.block() }} / {{ super() }} where the effective autoescape is set by an override (p["ae"]): the block's
        # text must be marked safe (or not) according to the mode in effect, not to the environment default
        ae = "true" if p.get("ae") else "false"
        if emb == "selfblock":
            return ("{% block pb %}" + stmt + "{% endblock %}{% autoescape " + ae + " %}[{{ self.pb() }}|{{ self.pb()|e }}|"
                    "{{ self.pb()|length }}]{% endautoescape %}|{{ self.pb()|e }}")
        return ("{% extends 'base' %}{% block pb %}{% autoescape " + ae + " %}[{{ super() }}|{{ super()|e }}|{{ super()|length }}]"
                "{% endautoescape %}{{ super()|e }}" + stmt + "{% endblock %}")
    return stmt


def pipe_kinds(p, wrap):
    """-> (f27, address): does a lazy / async value reach a sync-only consumer; does the output show an address."""
    kind = "agen" if (p["src"][0] in ("gen", "cogen") and wrap) else ("sgen" if p["src"][0] in ("gen", "cogen") else "seq")
    f27 = False
    for name, _ in p["stages"]:
        if name in SYNC_ONLY_STAGES and kind in ("lazy", "agen"):
            f27 = True
        kind = "lazy" if name in LAZY else ("sgen" if name in SGEN_OUT else "seq")
    sink = p["sink"][0]
    if sink in SYNC_ONLY_SINKS and kind in ("lazy", "agen"):
        f27 = True
    address = sink in ADDRESS_SINKS and kind != "seq"
    return f27, address


def _plan_pipe(case, allow_known=False):
    p, wrap = case["p"], bool(case.get("wrap", False))
    f27, address = pipe_kinds(p, wrap)
    if f27 and not allow_known:
        raise core.Excluded()
    if address:
        raise core.Discard()
    xs_json = case["data"].get("xs", [])
    Markup = _setup()["Markup"]

    def dec(j):
        if isinstance(j, list):
            return [dec(x) for x in j]
        if isinstance(j, dict):
            if j.get("$") == "markup":
                return Markup(j["v"])
            return {k: dec(v) for k, v in j.items()}
        return j

    def mk(env, wrapped):
        xs = dec(xs_json)
        out = {"xs": xs, "ob": (AsyncOb if wrapped else SyncOb)(xs), "fn": (AFn if wrapped else gdata.Fn)("fn"), "x": "ctx-x"}
        if p["sink"][0] == "ucall":
            ufn = (AFn if wrapped else gdata.Fn)("ufn")
            setattr(ufn, p["sink"][1].get("flag", "unsafe_callable"), True)
            out["ufn"] = ufn
        out.update(_helpers(wrapped))
        return out

    templates = dict(LIBS)
    templates["main"] = pipe_source(p)
    # finding F41: async unique / slice (and sum) list their input when called, the sync ones when (and as far as) they are
    # iterated.  Input class = evaluating the input of such a stage raises; decided on the sync side, before judging.
    prechecks = []
    for i, (name, _) in enumerate(p["stages"]):
        if name in ("unique", "slice") and not allow_known:
            pre = "pre%d" % i
            templates[pre] = "{% set r = " + _src_src(p["src"]) + "".join(_stage_src(s) for s in p["stages"][:i]) + "|list %}"
            prechecks.append(pre)
    if (p["sink"][0] == "sum" or (p["sink"][0] == "join" and case.get("undef") == "strict")) and not allow_known:
        # (async join lists its input before converting the items, the sync one converts while it pulls: only str() of a
        # StrictUndefined item can raise, so join needs the pre-check only under strict undefined -- F41 as well)
        # since 240d1bf the async sum lists its input too; the builtin sum of the sync side adds while it pulls
        templates["presum"] = "{% set r = " + _src_src(p["src"]) + "".join(_stage_src(s) for s in p["stages"]) + "|list %}"
        prechecks.append("presum")
    labels = {"src_" + p["src"][0], "sink_" + p["sink"][0], "emb_" + p.get("emb", "plain")}
    if p.get("emb") in ("selfblock", "superblock") and bool(p.get("ae")) != (case.get("auto") is True):
        labels.add("blockref_under_other_autoescape")
    if not isinstance(xs_json, list) or not xs_json:
        labels.add("falsy_source_" + ("scalar" if not isinstance(xs_json, (list, str)) else "empty"))
        if p["stages"] and p["stages"][0][0] in ("select", "reject", "selectattr", "rejectattr"):
            labels.add("falsy_into_select")
    if p["src"][0] in ("missing", "missattr"):
        labels.add("undefined_source_" + case.get("undef", "default"))
    if p["sink"][0] == "alias" and not p["stages"] and p["src"][0] == "var":
        labels.add("alias_of_plain_list")
    if p["sink"][0] == "for":
        labels.add("for_v%d" % p["sink"][1]["v"])
    kind = "seq"
    for name, par in p["stages"]:
        labels.add("st_" + name)
        if name == "groupby" and "default" in par:
            labels.add("groupby_default")
        if name in ("slice", "batch") and "fill" in par:
            labels.add(name + "_fill")
        if name == "unique" and par.get("cs") is not None:
            labels.add("unique_cs")
        if name == "map" and "f" in par:
            labels.add("map_" + str(par["f"]))
        kind = "lazy" if name in LAZY else "other"
    if kind == "lazy":
        labels.add("lazy_into_" + p["sink"][0])
    # "warm": a template without template-level globals that imports / includes the library without context is rendered on
    # the same environment pair before (1) or after (2) main, so that the library's cached default module exists (or not)
    # when main, which has the extra global tg, imports it
    entries = ["main"]
    if p.get("warm"):
        templates["warm"] = "{% from 'lib' import lm %}{% include 'inc' without context %}{{ lm(0) }}{% import 'lib' as W %}{{ W.libvar }}"
        entries = ["warm", "main"] if p["warm"] == 1 else ["main", "warm"]
        labels.add("warm_%d" % p["warm"])
    return _Plan(templates, entries, [mk], labels=labels, prechecks=prechecks, tglobals={"main": {"tg": "TG"}})


# ---------------------------------------------------------------------------------------------------------
# the oracle


def _check(case, allow_known=False):
    _setup()
    fam = case["fam"]
    if case.get("cls") == "native" and case.get("undef") == "strict" and not allow_known and fam != "raw":
        # known finding F53 (native sync render converts output chunks to str while the template is still running,
        # render_async afterwards): with StrictUndefined an output chunk can raise in str(), so a later error of the
        # template wins in async mode only.  Input class native x strict: excluded, counted.
        raise core.Excluded()
    if fam == "stmt":
        plan = _plan_stmt(case)
    elif fam == "expr":
        plan = _plan_expr(case)
    elif fam == "tset":
        plan = _plan_tset(case, allow_known)
    elif fam == "pipe":
        plan = _plan_pipe(case, allow_known)
    elif fam == "raw":
        plan = _plan_raw(case)
    else:
        raise core.HarnessError("unknown family %r" % (fam,))
    return _run_plan(case, plan)


def check_case(case):
    return _check(case)


def check_known(entry):
    """Known findings are replayed without the by-construction exclusions."""
    return _check(entry["case"], allow_known=True)


# ---------------------------------------------------------------------------------------------------------
# strategies

_INTS = [0, 1, 2, 3, 5, 8, -1, 10, 2, 1]
_STRS = ["a", "A", "b", "B", "ab", "Ab", "10", "2", " x ", "", "<i>", "&", "zz"]


def _pipe_cases():
    from hypothesis import strategies as st

    small = st.integers(0, 99)

    @st.composite
    def cases(draw):
        def pick(seq):
            return seq[draw(st.integers(0, len(seq) - 1))]

        def chance(pct):
            return draw(small) >= 100 - pct

        def ints(lo=0, hi=5):
            return [pick(_INTS) for _ in range(draw(st.integers(lo, hi)))]

        def strs(lo=0, hi=5):
            pool = _STRS if chance(60) else ["a", "A", "b", "B", "ab", "AB"]   # case twins: unique / groupby / sort fold case
            return [pick(pool) for _ in range(draw(st.integers(lo, hi)))]

        auto = chance(35)
        if chance(12):
            auto = "byname"

        def items(ty):
            if ty == "int":
                return ints()
            if ty == "str":
                out = strs()
                if auto and out and chance(40):
                    out[draw(st.integers(0, len(out) - 1))] = {"$": "markup", "v": pick(["<b>", "m", "&amp;"])}
                return out
            if ty == "dict":
                out = []
                for _ in range(draw(st.integers(0, 5))):
                    d = {}
                    if chance(80):
                        d["a"] = pick(_INTS)
                    if chance(80):
                        d["b"] = pick(_STRS)
                    if chance(50):
                        d["c"] = ints(0, 3)
                    out.append(d)
                return out
            if ty == "list":
                return [ints(0, 3) if chance(80) else [ints(0, 2)] for _ in range(draw(st.integers(0, 4)))]
            if ty == "pair":
                return [[pick(_INTS), pick(_STRS)] for _ in range(draw(st.integers(0, 5)))]
            pool = [1, 2, "a", "B", None, True, [1, 2], {"a": 1, "b": "x"}, 0, "", 2.5, 0.1, [], "10"]
            return [pick(pool) for _ in range(draw(st.integers(0, 5)))]

        ty = pick(["int", "int", "str", "str", "dict", "dict", "dict", "list", "pair", "mix"])
        xs = items(ty)
        sk = pick(["var", "var", "gen", "gen", "cofn", "cogen", "meth", "attr", "lit", "range", "missing", "missattr"])
        undef = pick(["default", "default", "default", "default", "default", "strict", "strict", "chainable", "debug"])
        if sk in ("missing", "missattr") and chance(50):
            undef = "strict"
        if chance(6):
            # a falsy value that is not a sequence of items (an optional field that is None, 0, False ...) or an empty one
            xs = pick([None, 0, False, "", [], None, 0])
            ty = "mix"
            if sk in ("range", "missing", "missattr"):
                sk = "var"
        if sk == "lit" and isinstance(xs, list) and not (ty in ("int", "str", "list", "pair") and not any(isinstance(x, dict) for x in xs)):
            sk = "var"
        if sk == "lit":
            src = ["lit", xs]
        elif sk in ("missing", "missattr"):
            src = [sk, None]
            ty = "mix"
        elif sk == "range":
            src = ["range", draw(st.integers(0, 5))]
            ty = "int"
        else:
            src = [sk, None]

        def test_for(t):
            if t == "int":
                k = pick(["odd", "even", "gt", "lt", "eq", "in", "divisibleby", None, "number", "ne"])
                if k in ("gt", "lt", "eq", "ne"):
                    return k, [pick(_INTS)]
                if k == "in":
                    return k, [ints(0, 3)]
                if k == "divisibleby":
                    return k, [pick([1, 2, 3])]
                return k, []
            if t == "str":
                k = pick(["lower", "upper", "eq", "in", "string", None, "ne"])
                if k in ("eq", "ne"):
                    return k, [pick(_STRS)]
                if k == "in":
                    return k, [strs(0, 3)]
                return k, []
            return pick([None, "defined", "none", "string", "number", "iterable", "mapping", "sequence"]), []

        def stage(t):
            """-> (stage, element type after it)"""
            if chance(7):
                t = pick(["int", "str", "dict", "list", "pair", "mix"])  # deliberately ill-typed
            choices = ["select", "reject", "unique", "slice", "list", "batch", "sort", "reverse"]
            if not isinstance(xs, list) or not xs:
                choices += ["select", "reject", "selectattr", "rejectattr", "selectattr", "map", "mapattr"]
            if t == "int":
                choices += ["map", "map", "select"]
            elif t == "str":
                choices += ["map", "map", "unique", "unique", "unique", "select"]
            elif t == "dict":
                choices = ["mapattr", "mapattr", "selectattr", "selectattr", "rejectattr", "groupby", "groupby", "groupby", "groupby",
                           "uniqueattr", "sortattr", "list", "slice", "select"]
            elif t == "list":
                choices += ["map", "map"]
            elif t == "pair":
                choices += ["mapattr", "groupby", "groupby", "groupby", "uniqueattr", "map"]
            elif t == "group":
                choices = ["mapattr", "mapattr", "list", "map", "slice"]
            else:
                choices += ["map", "mapattr"]
            k = pick(choices)
            if k == "map":
                if t == "int":
                    f = pick(["abs", "string", "afilt", "default", "float", "int"])
                    nt = {"abs": "int", "int": "int", "string": "str", "afilt": "str", "default": "int", "float": "mix"}[f]
                elif t == "str":
                    f = pick(["upper", "lower", "int", "length", "trim", "title", "first", "list", "string", "afilt", "capitalize"])
                    nt = {"int": "int", "length": "int", "list": "list"}.get(f, "str")
                elif t == "list":
                    f = pick(["first", "sum", "length", "join", "list", "max", "last", "sort"])
                    nt = {"join": "str", "list": "list", "sort": "list"}.get(f, "int")
                elif t in ("pair", "group"):
                    f = pick(["first", "last", "list", "length", "join"])
                    nt = {"length": "int", "list": "list", "join": "str"}.get(f, "mix")
                else:
                    f = pick(["string", "default", "length", "first", "afilt", "int", "list"])
                    nt = {"string": "str", "afilt": "str", "length": "int", "int": "int"}.get(f, "mix")
                par = {"f": f}
                if f == "join":
                    par["args"] = [pick(["-", "", ","])]
                elif f == "default":
                    par["args"] = [pick([0, "d"])] + ([True] if chance(50) else [])
                elif f == "int" and chance(30):
                    par["args"] = [pick([0, 7])]
                return ["map", par], nt
            if k == "mapattr":
                if t == "dict":
                    a = pick(["a", "b", "c", "a", "b", "zz"])
                    nt = {"a": "int", "b": "str", "c": "list"}.get(a, "mix")
                elif t == "group":
                    a = pick(["grouper", "list", 0, 1])
                    nt = "list" if a in ("list", 1) else "mix"
                elif t == "pair":
                    a = pick([0, 1])
                    nt = "int" if a == 0 else "str"
                else:
                    a = pick(["a", 0, "real"])
                    nt = "mix"
                par = {"attr": a}
                if chance(40):
                    par["default"] = pick([0, "dflt", None])
                return ["map", par], nt
            if k in ("select", "reject"):
                tn, args = test_for(t)
                return [k, {"t": tn, "args": args}], t
            if k in ("selectattr", "rejectattr"):
                a = pick(["a", "b", "a", "b", "c", "zz"])
                tn, args = test_for({"a": "int", "b": "str"}.get(a, "mix"))
                if chance(25):
                    tn, args = None, []
                par = {"attr": a, "t": tn, "args": args}
                if chance(6):
                    par["noargs"] = True
                return [k, par], t
            if k == "unique":
                return ["unique", {"cs": pick([None, None, True, False])}], t
            if k == "uniqueattr":
                a = pick(["a", "b"]) if t == "dict" else pick([0, 1])
                return ["unique", {"cs": pick([None, True, False]), "attr": a}], t
            if k in ("slice", "batch"):
                par = {"n": pick([1, 2, 3, 2, 0])}
                if chance(40):
                    par["fill"] = pick([0, "f", 9])
                return [k, par], "list"
            if k == "groupby":
                a = pick(["a", "b", "a", "b", "zz"]) if t == "dict" else pick([0, 1])
                par = {"attr": a}
                if chance(50):
                    par["default"] = pick([0, "dflt", 1, "B"])
                if chance(40):
                    par["cs"] = chance(50)
                return ["groupby", par], "group"
            if k == "sort":
                return ["sort", {"rev": chance(30)}], t
            if k == "sortattr":
                return ["sort", {"rev": chance(30), "attr": pick(["a", "b"])}], t
            if k == "reverse":
                return ["reverse", {}], t
            return ["list", {}], t

        stages = []
        nst = pick([0, 1, 1, 1, 2, 2, 2, 3, 3, 4])
        wrap = chance(60)
        steer = not chance(4)   # a fraction is not steered away from the F27 class, so that the exclusion is counted
        for _ in range(nst):
            for attempt in range(6):
                s, nty = stage(ty)
                if not steer or not pipe_kinds({"src": src, "stages": stages + [s], "sink": ["list", {}]}, wrap)[0]:
                    break
            else:
                s, nty = ["list", {}], ty
            stages.append(s)
            ty = nty

        def sink(t):
            common = ["join", "join", "list", "list", "first", "for", "for", "for", "for", "twice", "afilt", "atest", "ucall", "alias"]
            synconly = ["length", "min", "max", "last", "tojson", "in", "star", "unpack", "iterable", "print", "string", "sortjoin"]
            if t == "int":
                common += ["sum", "sum", "sum"]
            if t in ("dict",):
                common += ["joinattr", "sumattr", "sumattr"]
            if t == "list":
                common += ["sumlist"]
            k = pick(common + common + synconly)
            if k == "join":
                return ["join", {"sep": pick([",", "", "-", "<"])} if chance(80) else {}]
            if k == "joinattr":
                return ["join", {"sep": ",", "attr": pick(["a", "b", "zz"])}]
            if k == "sum":
                return ["sum", {"start": pick([1, 10])} if chance(30) else {}]
            if k == "sumattr":
                return ["sum", {"attr": pick(["a", "a", "c", "b"])}]
            if k == "sumlist":
                return ["sum", {"start": []}]
            if k == "in":
                return ["in", {"v": pick([1, 2, "a", "A", 0])}]
            if k == "atest":
                return ["atest", {"n": pick([1, 2])} if chance(40) else {}]
            if k == "ucall":
                return ["ucall", {"flag": pick(["unsafe_callable", "alters_data"])}]
            if k == "for":
                if t in ("pair", "group") and chance(60):
                    v = 6
                elif t == "list" and chance(60):
                    v = pick([5, 7])
                else:
                    v = pick([0, 1, 2, 3, 4, 8, 9, 10, 1, 2, 3, 5, 9, 10])
                return ["for", {"v": v}]
            return [k, {}]

        for attempt in range(8):
            sk_ = sink(ty)
            f27, addr = pipe_kinds({"src": src, "stages": stages, "sink": sk_}, wrap)
            if not addr and (not f27 or not steer):
                break
        else:
            sk_ = ["list", {}]
        emb = pick(["plain", "plain", "plain", "plain", "set", "setblock", "filterblock", "macroarg", "callblock", "if", "macrobody",
                    "selfblock", "superblock"])
        if emb == "macrobody" and src[0] not in ("var", "gen", "cofn", "cogen"):
            emb = "plain"
        if sk_[0] == "alias" and chance(60):
            src, stages = ["var", None], []    # |list of the list itself: the copy must not alias it
        p = {"src": src, "stages": stages, "sink": sk_, "emb": emb}
        if emb in ("selfblock", "superblock"):
            p["ae"] = chance(50)
        if sk_[0] == "for" and sk_[1]["v"] == 10:
            p["warm"] = pick([1, 1, 2, 0])
        return {"fam": "pipe", "cls": pick(CLASSES + ("plain", "plain")), "auto": auto, "undef": undef, "wrap": wrap, "p": p,
                "data": {"xs": xs}}

    return cases()


def _stmt_cases(max_depth, max_nodes):
    from hypothesis import strategies as st

    @st.composite
    def cases(draw):
        auto = draw(st.integers(0, 3)) == 0
        prog = draw(G.programs(max_depth, max_nodes, autoescape=auto))
        datas = draw(G.datas(3))
        return {"fam": "stmt", "cls": draw(st.sampled_from(CLASSES + ("plain",))), "auto": auto, "wrap": draw(st.booleans()),
                "undef": draw(st.sampled_from(["default", "default", "default", "default", "strict", "chainable"])),
                "prog": prog, "data": datas, "mask": draw(st.integers(0, 65535))}

    return cases()


def _expr_names(tree):
    return sorted({n[1] for n in gexpr.walk(tree) if n[0] == "name"})


def _expr_cases(max_depth):
    from hypothesis import strategies as st

    @st.composite
    def cases(draw):
        want = draw(st.sampled_from(["any", "any", "int", "str", "bool", "list", "list", "float", "any"]))
        tree = draw(gexpr.exprs(max_depth, want))
        schema = {n: gexpr.SCHEMA[n] for n in _expr_names(tree) if n in gexpr.SCHEMA}
        datas = [draw(gdata.contexts(schema)) for _ in range(3)]
        shape = draw(st.sampled_from(["out", "out", "out", "for", "set"]))
        if shape == "for" and want not in ("list", "any", "str"):
            shape = "out"
        return {"fam": "expr", "cls": draw(st.sampled_from(CLASSES + ("native",))), "auto": draw(st.integers(0, 4)) == 0,
                "wrap": draw(st.booleans()), "expr": tree, "datas": datas, "style": draw(st.sampled_from([0, 0, 1, 3, 8])),
                "shape": shape, "mask": draw(st.integers(0, 65535))}

    return cases()


def _tset_cases(thorough):
    from hypothesis import strategies as st

    @st.composite
    def cases(draw):
        if draw(st.booleans()):
            s = draw(tsets.hierarchies(max_depth=4 if thorough else 3, max_blocks=4, size=4 if thorough else 3))
        else:
            s = draw(tsets.module_sets(max_libs=3, size=4 if thorough else 3))
        return {"fam": "tset", "cls": draw(st.sampled_from(CLASSES)), "auto": draw(st.integers(0, 3)) == 0, "wrap": False,
                "ir": s["ir"], "data": s["data"]}

    return cases()


# ---------------------------------------------------------------------------------------------------------
# shards

N_SHARDS = 16
SIZES = {  # per shard: (pipe, stmt, expr, tset); measured single-process cost per case incl. generation:
    # pipe ~10 ms, stmt ~37 ms, expr ~18 ms, tset ~26 ms  ->  quick ~560 CPU-s, thorough ~8500 CPU-s
    "quick": (1150, 200, 400, 230),
    "thorough": (12000, 3000, 6000, 3500),
}


def shards(tier):
    return [{"i": i} for i in range(N_SHARDS)]


def run_shard(spec, ctx):
    rec = core.Rec()
    npipe, nstmt, nexpr, ntset = SIZES[ctx.tier]
    plan = [
        ("pipe", _pipe_cases(), npipe),
        ("stmt", _stmt_cases(*ctx.pick((4, 25), (6, 50))), nstmt),
        ("expr", _expr_cases(ctx.pick(3, 5)), nexpr),
        ("tset", _tset_cases(not ctx.quick), ntset),
    ]
    for tag, strat, n in plan:
        core.hyp_shard(strat, check_case, ctx, n, rec=rec, tag=tag)
        if rec.violations:
            break
    return rec


def floors(total, tier):
    lab = total.labels
    msgs = []
    for fam in ("pipe", "stmt", "expr", "tset"):
        if lab.get("fam_" + fam, 0) < 100:
            msgs.append("family %s judged %d times (< 100)" % (fam, lab.get("fam_" + fam, 0)))
    for cls in CLASSES:
        if lab.get("cls_" + cls, 0) < 200:
            msgs.append("class %s judged %d times (< 200)" % (cls, lab.get("cls_" + cls, 0)))
    judged = sum(lab.get("fam_" + f, 0) for f in ("pipe", "stmt", "expr", "tset"))
    if judged and lab.get("sync_ok", 0) < 0.5 * judged:
        msgs.append("only %d of %d judged cases have a data that renders" % (lab.get("sync_ok", 0), judged))
    if lab.get("wrap", 0) < 0.2 * judged:
        msgs.append("wrapped data flavour under 20%")
    for f in ASYNC_FILTERS:
        if lab.get("st_" + f, 0) + lab.get("sink_" + f, 0) + lab.get("f_" + f, 0) < 30:
            msgs.append("async filter %s exercised < 30 times" % f)
    for sink in ("join", "list", "first", "sum", "for"):
        if lab.get("lazy_into_" + sink, 0) < 20:
            msgs.append("lazy filter result into %s < 20 times" % sink)
    for lab_ in ("blockref_under_other_autoescape", "alias_of_plain_list", "auto_byname", "warm_1", "falsy_into_select",
                 "undefined_source_strict", "undef_strict", "undef_chainable", "undef_debug"):
        if lab.get(lab_, 0) < 30:
            msgs.append("%s < 30 times" % lab_)
    for v in range(N_FOR_VARIANTS):
        if lab.get("for_v%d" % v, 0) < 10:
            msgs.append("for-loop sink variant %d < 10 times" % v)
    if total.excluded < 10:
        msgs.append("F27 / F41 input class generated (and excluded) fewer than 10 times")
    if total.discarded > 0.25 * max(total.evaluations, 1):
        msgs.append("discarded %d of %d > 25%%" % (total.discarded, total.evaluations))
    return "; ".join(msgs) or None
