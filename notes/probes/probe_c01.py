import itertools, sys, collections, time
from jinja2 import Environment, TemplateSyntaxError
from jinja2.sandbox import SandboxedEnvironment
frags = ["{%","%}","{{","}}","{#","#}","-","+"," ","\n","raw","endraw","if","x","'",'"',"(",")","[","]","|",".","1","for","in","endfor","set","=","block","endblock","macro","endmacro","call","filter","{","}",",",":","~","*","is","not","else","elif","endif","with","include","import","from","extends","autoescape","trans","loop","super","self","caller","1.","0x","_","é","\\"]
envs = [Environment(), Environment(enable_async=True), SandboxedEnvironment(), Environment(line_statement_prefix="#", line_comment_prefix="##"), Environment(trim_blocks=True,lstrip_blocks=True), Environment("<%","%>","${","}","<!--","-->"), Environment(extensions=["jinja2.ext.i18n","jinja2.ext.do","jinja2.ext.loopcontrols","jinja2.ext.debug"])]
bad = collections.Counter(); ex = {}
n=0; t0=time.time()
for L in (1,2,3):
    for combo in itertools.product(frags, repeat=L):
        s="".join(combo)
        for ei,e in enumerate(envs[:1] if L==3 else envs):
            n+=1
            try:
                e.from_string(s)
            except TemplateSyntaxError as err:
                nl = s.count("\n")+s.count("\r")+1
                if not (isinstance(err.lineno,int) and 1<=err.lineno<=nl):
                    k=("lineno",ei); bad[k]+=1; ex.setdefault(k,(s,err.lineno,str(err)))
            except Exception as err:
                k=(type(err).__name__,str(err)[:60],ei); bad[k]+=1; ex.setdefault(k,s)
print(n, time.time()-t0)
for k,v in bad.most_common(40): print(v,k,repr(ex[k]))
