"""C01 - every template source either compiles or fails with TemplateSyntaxError (line inside the source).

Case: {"env": one of srcgen.ENV_NAMES, "src": template source, "via": stream label,
       "mode": "all" | "fs"   (all = lex + parse + compile(raw)+Python compile + from_string; fs = from_string only),
       "bounds": false        (only hand-written replays / known findings: skip the measured-size exclusion),
       "name": str, "loader": "dict" | "func"   (optional: load through DictLoader / FunctionLoader under this
                              template name instead of from_string; with "func" the name is the file name too)}

Oracle (validity predicate, nothing is computed by the code under test on the expected side):
every entry point returns, or raises TemplateSyntaxError (incl. TemplateAssertionError) whose
``lineno`` is an int with 1 <= lineno <= 1 + number of line breaks (\\r\\n | \\r | \\n) of the source;
the raw Python source returned by ``compile(raw=True)`` is accepted by Python's ``compile``.
"""
import collections
import itertools
import json
import os
import signal
import sys
import traceback

from vt import core
from vt.gen import srcgen

PID = "C01"
LEVEL = "exploration"
RULE = (
    "template loaded by from_string, or (about half of the grammar / mutation / seed cases and a second pass over the "
    "<=2-fragment strings) through a DictLoader / FunctionLoader under a name from a pool holding both quotes, backslash, "
    "{x}, {, %s, line breaks, a non-BMP character and a plain name; "
    "four streams x seven environments (default, custom delimiters <% %> ${ } <!-- -->, line statements #/##, "
    "trim+lstrip, async, sandboxed, i18n+do+loopcontrols+debug extensions): (1) exhaustive concatenations of <=3 "
    "(quick) / <=4 (thorough, default environment) fragments of a ~60 fragment alphabet (delimiters of the "
    "configuration, signs, whitespace, the three line breaks, quotes, brackets, operators, tag keywords, raw/endraw, "
    "'1.', '0x', '_', non-ASCII letter, backslash); (2) grammar-generated templates with a trouble-biased identifier "
    "pool (Python keywords, __debug__, dunder names, names of generated-code locals, duplicates); (3) token-level "
    "mutations (delete/duplicate/swap/replace/splice/unbalance/stray delimiters/quotes/\\r) of (2) and of 682 seed "
    "templates lifted from the repository's tests; (4) thorough: atheris coverage-guided target. Inputs <= 400 "
    "characters; measured block nesting < 15, expression nesting (brackets + unary run) < 30, operator chain per tag < 40, bounded numeric "
    "magnitudes (else counted as excluded). Non-trivial = the source contains a delimiter start of the "
    "configuration (the lexer leaves the root state); distinct = distinct (environment, source)."
)
ASSUMPTIONS = [
    "a source line is delimited by \\r\\n, \\r or \\n (the documented line breaks since 3.0); 'inside the source' means 1 <= lineno <= 1 + number of line breaks",
    "'never hangs': inputs are bounded (<= 400 characters, bounded nesting and numeric magnitudes); a load that burns 30 CPU-seconds of its own process (ITIMER_VIRTUAL, independent of machine load; normal loads take milliseconds) is judged a hang; a 120 s wall-clock watchdog only turns the run into a harness error",
    "the recursion limit during a case is pinned to 950 frames above the oracle's frame, i.e. what a caller near the top of a script with the default limit of 1000 gets",
    "F2 (CPython nesting limits) and F19 (unbounded constant folding) are excluded by measured depth / magnitude, never by exception signature",
    "F37 (identifiers that are not NFKC-stable): sources that are not NFKC-normalised are excluded and counted",
    "sources are Unicode text without lone surrogates",
    "environments are built once per process and reused (from_string does not depend on environment state)",
]

_state = {}
EXCLUDED_BY = collections.Counter()  # reason -> count (per process; copied into Rec.extra by run_shard)
RECURSION_HEADROOM = 950


def _envs():
    if _state:
        return _state
    import warnings

    import jinja2
    from jinja2.sandbox import SandboxedEnvironment

    # Python's compile() warns about generated code such as `1[0]`; not part of the property
    warnings.filterwarnings("ignore", category=SyntaxWarning)
    slot = _state["$slot"] = {}

    def load(n):  # FunctionLoader: the file name is the template name as well
        return (slot[n], n, None) if n in slot else None

    for name, kw in srcgen.ENVS.items():
        cls = SandboxedEnvironment if name == "sandbox" else jinja2.Environment
        _state[name] = cls(**kw)
        # the same configuration reached through a loader (no template cache: every get_template compiles)
        _state[name + "$dict"] = cls(loader=jinja2.DictLoader(slot), cache_size=0, **kw)
        _state[name + "$func"] = cls(loader=jinja2.FunctionLoader(load), cache_size=0, **kw)
    _state["$TSE"] = jinja2.TemplateSyntaxError
    _state["$TAE"] = jinja2.TemplateAssertionError
    _state["$Template"] = jinja2.Template
    return _state


def _frame_depth():
    f = sys._getframe()
    n = 0
    while f is not None:
        n += 1
        f = f.f_back
    return n


def _short(src):
    return json.dumps(src, ensure_ascii=True)


class _Stage:
    """Runs one entry point; classifies the result; anything but TemplateSyntaxError is a violation."""

    def __init__(self, envname, src):
        st = _envs()
        self.TSE, self.TAE = st["$TSE"], st["$TAE"]
        self.envname, self.src = envname, src
        self.maxline = 1 + srcgen.line_breaks(src)

    def run(self, what, fn):
        try:
            return "ok", fn()
        except self.TSE as e:
            ln = e.lineno
            if type(ln) is not int or not (1 <= ln <= self.maxline):
                raise core.Violation(
                    "%s [%s env] raised %s with lineno=%r, expected an int in 1..%d; source=%s; message=%r"
                    % (what, self.envname, type(e).__name__, ln, self.maxline, _short(self.src), e.message)
                ) from None
            return ("tae" if isinstance(e, self.TAE) else "tse"), e
        except Exception as e:  # noqa: BLE001 - every other exception type is the violation itself
            tb = traceback.format_exc(limit=-6)
            raise core.Violation(
                "%s [%s env] raised %s: %s (only TemplateSyntaxError is allowed); source=%s"
                % (what, self.envname, type(e).__name__, str(e)[:300], _short(self.src)),
                traceback=tb,
            ) from None


def check_case(case):
    envname, src = case["env"], case["src"]
    st = _envs()
    env = st[envname]
    if case.get("bounds", True):
        reason = srcgen.excluded_reason(srcgen.measure(src, envname))
        if reason:
            EXCLUDED_BY[reason] += 1
            raise core.Excluded()
    stage = _Stage(envname, src)
    labels = [envname, "via_" + case.get("via", "?")]
    tname = case.get("name")
    if tname is None:
        load = lambda: env.from_string(src)  # noqa: E731
        parse = lambda: env.parse(src)  # noqa: E731
        compile_raw = lambda: env.compile(src, raw=True)  # noqa: E731
        how = "from_string"
        labels.append("unnamed")
    else:
        # the template is loaded by name: the name (and, with the function loader, the file name) is
        # embedded in the generated code and in error positions
        lenv = st[envname + ("$func" if case.get("loader") == "func" else "$dict")]
        slot = st["$slot"]
        slot.clear()
        slot[tname] = src
        load = lambda: lenv.get_template(tname)  # noqa: E731
        parse = lambda: env.parse(src, tname, tname)  # noqa: E731
        compile_raw = lambda: env.compile(src, tname, tname, raw=True)  # noqa: E731
        how = "get_template(%s)" % _short(tname)
        labels.append("named")
        stage.envname = "%s (name=%s)" % (envname, _short(tname))
        envname = stage.envname
    old_limit = sys.getrecursionlimit()
    sys.setrecursionlimit(_frame_depth() + RECURSION_HEADROOM)
    try:
        if case.get("mode", "all") == "all":
            r, _ = stage.run("lex", lambda: list(env.lex(src)))
            if r != "ok":
                first = "lex_error"
            else:
                first = None
            r, _ = stage.run("parse", parse)
            if r != "ok" and first is None:
                first = "parse_error"
            r, raw = stage.run("compile(raw=True)", compile_raw)
            if r == "ok":
                if not isinstance(raw, str):
                    raise core.Violation("compile(raw=True) returned %r" % type(raw))
                try:
                    compile(raw, "<template>", "exec")
                except Exception as e:  # noqa: BLE001
                    raise core.Violation(
                        "[%s env] Python rejects the generated code: %s: %s; source=%s"
                        % (envname, type(e).__name__, str(e)[:300], _short(src)),
                        generated=raw[-3000:],
                    ) from None
            elif first is None:
                first = "compile_error"
            if r == "tae":
                labels.append("assertion_error")
            r, tmpl = stage.run(how, load)
            if r == "ok":
                if not isinstance(tmpl, st["$Template"]) or not callable(tmpl.root_render_func):
                    raise core.Violation("from_string returned %r" % (tmpl,))
                if first is not None:
                    raise core.Violation(
                        "[%s env] loading succeeded although an earlier entry point failed (%s); source=%s"
                        % (envname, first, _short(src))
                    )
                labels.append("compiled")
            else:
                if first is None:
                    raise core.Violation(
                        "[%s env] loading raised %r although lex/parse/compile(raw) succeeded; source=%s"
                        % (envname, _, _short(src))
                    )
                labels.append(first)
        else:
            r, tmpl = stage.run(how, load)
            if r == "ok":
                if not isinstance(tmpl, st["$Template"]):
                    raise core.Violation("from_string returned %r" % (tmpl,))
                labels.append("compiled")
            else:
                labels.append("assertion_error" if r == "tae" else "syntax_error")
    finally:
        sys.setrecursionlimit(old_limit)
        if tname is not None:
            st["$slot"].clear()
    return core.Outcome(srcgen.has_delimiter(src, case["env"]), labels)


# ---------------------------------------------------------------------------------------
# watchdog: a case that runs longer than 60 s makes the run inconclusive (exit 2), never a violation


class _Watchdog(KeyboardInterrupt):
    pass


_current = {}


def _on_alarm(signum, frame):
    case = _current.get("case")
    d = os.path.join(os.environ.get("VERIF_FOUND_DIR") or os.path.join(core.VERIF, "found"), PID)
    os.makedirs(d, exist_ok=True)
    path = os.path.join(d, "watchdog-%016x.json" % core.case_hash(case))
    with open(path, "w") as f:
        json.dump({"property": PID, "case": case, "msg": "watchdog: case exceeded %d s" % WATCHDOG_S}, f, indent=1)
    _current["saved"] = path
    raise _Watchdog(path)


WATCHDOG_S = 120
CPU_HANG_S = 30


class _CpuHang(BaseException):
    pass


def _on_vtalrm(signum, frame):
    raise _CpuHang()


def guarded(case):
    """Two guards.  (1) CPU time: ITIMER_VIRTUAL counts user-mode CPU seconds of this process only, so it does
    not depend on machine load; a load of a <= 400 character source normally costs milliseconds (worst measured
    legitimate case about 1.5 s), so CPU_HANG_S CPU-seconds without returning is judged as 'hangs' (a violation of
    the property's "never hangs").  (2) wall clock: a case stuck without burning CPU only makes the run
    inconclusive (exit 2)."""
    _current["case"] = case
    signal.alarm(WATCHDOG_S)
    signal.setitimer(signal.ITIMER_VIRTUAL, CPU_HANG_S)
    try:
        return check_case(case)
    except _CpuHang:
        raise core.Violation(
            "loading did not finish within %d CPU-seconds (source of %d characters, environment %r): hangs"
            % (CPU_HANG_S, len(case.get("src", "")) if isinstance(case, dict) else -1, case.get("env") if isinstance(case, dict) else None)
        ) from None
    finally:
        signal.setitimer(signal.ITIMER_VIRTUAL, 0)
        signal.alarm(0)


# ---------------------------------------------------------------------------------------
# shards


def _enum_slice(envs, lengths, mode, index, nshards, named=False):
    # slice before joining: itertools does the skipping in C
    names = srcgen.TEMPLATE_NAME_POOL
    k = index
    for n in lengths:
        for env in envs:
            fr = srcgen.fragments(env)
            for combo in itertools.islice(itertools.product(fr, repeat=n), index, None, nshards):
                case = {"env": env, "src": "".join(combo), "via": "enum", "mode": mode}
                if named:  # the names rotate over the enumeration
                    k += 1
                    case["name"] = names[k % len(names)]
                    case["loader"] = ("dict", "func")[(k // len(names)) % 2]
                yield case


def _named(case, choice):
    """choice: None or (name, loader) drawn by Hypothesis."""
    if choice is not None:
        case["name"], case["loader"] = choice
    return case


def shards(tier):
    return [{"i": i} for i in range(16)]


def _limit_memory():
    # safety net for F19-like inputs that slip through the magnitude bound: a huge allocation during
    # constant folding fails (and is swallowed by the optimizer) instead of taking the machine down
    try:
        import resource

        soft, hard = resource.getrlimit(resource.RLIMIT_AS)
        want = 6 << 30
        if soft == resource.RLIM_INFINITY or soft > want:
            resource.setrlimit(resource.RLIMIT_AS, (want, hard))
    except Exception:  # noqa: BLE001
        pass


def _streams(ctx, rec, st):
    env_st = st.sampled_from(srcgen.ENV_NAMES)
    E = srcgen.ENV_NAMES
    # stream 1: exhaustive short strings
    yield lambda: core.enum_shard(_enum_slice(E, (0, 1, 2), "all", ctx.index, ctx.nshards), guarded, ctx, rec=rec)
    yield lambda: core.enum_shard(_enum_slice(E, (1, 2), "all", ctx.index, ctx.nshards, named=True), guarded, ctx, rec=rec)
    # seeds verbatim, every environment (cheap, sliced); every other one is loaded under a name from the pool
    names = srcgen.TEMPLATE_NAME_POOL
    seeds = (
        _named({"env": e, "src": s, "via": "seed", "mode": "all"}, (names[(i + j) % len(names)], ("dict", "func")[i % 2]) if (i + j) % 2 else None)
        for i, s in enumerate(srcgen.SEEDS) for j, e in enumerate(E)
    )
    yield lambda: core.enum_shard(core.sliced(seeds, ctx.index, ctx.nshards), guarded, ctx, rec=rec)
    # stream 2: grammar
    name_st = st.one_of(st.none(), st.tuples(st.sampled_from(names), st.sampled_from(["dict", "func"])))
    gram = env_st.flatmap(lambda e: st.builds(lambda s, nm: _named({"env": e, "src": s, "via": "gram", "mode": "all"}, nm), srcgen.templates(e), name_st))
    yield lambda: core.hyp_shard(gram, guarded, ctx, ctx.pick(N_GRAM_QUICK, N_GRAM_THOROUGH), rec=rec, tag="gram")
    # stream 3: mutation
    mut = env_st.flatmap(lambda e: st.builds(lambda s, nm: _named({"env": e, "src": s, "via": "mut", "mode": "all"}, nm), srcgen.mutated(e), name_st))
    yield lambda: core.hyp_shard(mut, guarded, ctx, ctx.pick(N_MUT_QUICK, N_MUT_THOROUGH), rec=rec, tag="mut")
    yield lambda: core.enum_shard(_enum_slice(E, (3,), "fs", ctx.index, ctx.nshards), guarded, ctx, rec=rec)
    if not ctx.quick:
        yield lambda: core.enum_shard(_enum_slice(["default"], (4,), "fs", ctx.index, ctx.nshards), guarded, ctx, rec=rec)
        yield lambda: _atheris_stream(ctx, rec)


def run_shard(spec, ctx):
    import hypothesis.strategies as st

    _limit_memory()
    signal.signal(signal.SIGALRM, _on_alarm)
    signal.signal(signal.SIGVTALRM, _on_vtalrm)
    rec = core.Rec()
    EXCLUDED_BY.clear()
    try:
        for stream in _streams(ctx, rec, st):
            stream()
            if rec.violations:
                break  # a failing run needs no further exploration (keeps sensitivity runs short)
    except _Watchdog as w:
        raise core.HarnessError("watchdog: a case ran longer than %d s; input saved to %s" % (WATCHDOG_S, w)) from None
    for k, v in EXCLUDED_BY.items():
        rec.extra["excluded_" + k] = v
    return rec


N_GRAM_QUICK, N_GRAM_THOROUGH = 1500, 30000
N_MUT_QUICK, N_MUT_THOROUGH = 1500, 30000
ATHERIS_RUNS = 12500


def _atheris_stream(ctx, rec):
    """Stream 4 (thorough): run the coverage-guided target in a subprocess; crashers are re-judged here."""
    import importlib.util

    if importlib.util.find_spec("atheris") is None:  # optional dependency (/verif/.deps)
        rec.extra["atheris"] = "unavailable"
        return
    from vt.fuzz import c01_atheris

    for case in c01_atheris.run_subprocess(ctx.derive("atheris") % (2**31), ATHERIS_RUNS, ctx.index, rec.extra):
        if rec.run(guarded, case):
            raise core.HarnessError("atheris reported a crash that check_case does not reproduce: %r" % (case,))


def floors(total, tier):
    lab = total.labels
    need = {"compiled": 500000, "syntax_error": 50000, "lex_error": 1500, "parse_error": 3000, "compile_error": 200,
            "assertion_error": 200, "named": 30000, "unnamed": 500000, "via_gram": 8000, "via_mut": 8000, "via_enum": 500000, "via_seed": 2000}
    for e in srcgen.ENV_NAMES:
        need[e] = 70000
    low = ["%s=%d<%d" % (k, lab.get(k, 0), v) for k, v in need.items() if lab.get(k, 0) < v]
    if tier != "quick" and "atheris" not in total.extra and total.extra.get("atheris_executions", 0) < 100000:
        low.append("atheris_executions=%d<100000" % total.extra.get("atheris_executions", 0))
    return ", ".join(low) if low else None
