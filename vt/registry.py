"""Registry of claimed checks -> MANIFEST.json (tools/mkmanifest.py)."""

# pid -> dict(category, technique, text, note, design_ref)
CHECKS = {
    "C21": dict(
        category="exploration",
        technique="exhaustive table-driven property test: undefined type x origin x operation x operand x route against a table transcribed from the documentation",
        text="Every cell of the documented operation table (8 undefined types incl. logging variants, 5 origins, ~55 operations in both operand orders, 9 other operands, python and rendered-template routes; 21k cases) is executed in every tier and compared with an independently written expectation table; exhaustive over that finite table, so a deleted operator alias or changed protocol method is found deterministically.",
        note="Trusts the transcription of the docstrings into the table; cells where Python asks the other operand first are not judged.",
        design_ref="DESIGN.md §4 C21",
    ),
}

CHECKS["C35"] = dict(
    category="exploration",
    technique="property-based testing: Hypothesis-generated faulted template sets, oracle = independent line arithmetic on the printed source vs. traceback / TemplateSyntaxError line",
    text="Generated multi-template sets with exactly one runtime or syntax fault in a single-line tag under random nesting, multi-line neighbour tags, whitespace modifiers, three line-break forms, trim/lstrip, sync+async; the harness computes the fault's line by counting line breaks itself and requires the innermost template traceback frame (file and line) or TemplateSyntaxError.lineno/name/filename to match. 8k sets quick, 144k thorough; kills all six line-tracking mutants tried.",
    note="Fault tags are single-line so the expected line is unambiguous; faults inside multi-line tags are not judged.",
    design_ref="DESIGN.md §4 C35",
)
CHECKS["C38"] = dict(
    category="fault_enumeration",
    technique="fault injection over enumerated event points: Hypothesis-generated template sets over instrumented data, every k-th data event raises; oracle = object identity of the propagated exception + clean re-render equality",
    text="For each generated template set (extends, import with and without context, include, macros, call/filter/set blocks, loops) a clean run counts the data events; every event index k (thorough: all; quick: up to 24 spread evenly) is then made to raise a fresh private exception and the exception leaving render/generate/stream/render_async/generate_async must be that very object; afterwards all templates are re-rendered cleanly on the same environment and must equal the clean outputs (catches half-initialised cached modules).",
    note="Exception classes are private subclasses of Exception/ArithmeticError/RuntimeError; the documented lookup signals are never injected. Event order assumed deterministic (verified per case by running the clean render twice).",
    design_ref="DESIGN.md §4 C38",
)

CHECKS["C06"] = dict(
    category="exploration",
    technique="exhaustive enumeration (itertools, 16 shards) of macro signatures x body uses x call shapes against an executable binding specification",
    text="Every signature (<=3 params quick / <=4 + one step thorough, trailing defaults over constant / earlier parameter / outer variable, 8 uses of varargs/kwargs/caller) x 7 call shapes (plain, *list, **dict, both, duplicate through **dict, call block, Python call through the template module) x 0-5 positional and <=3-4 keyword arguments is rendered and compared by text or TypeError with a binding specification written from the docs: 216k cases quick, 3.4M thorough (sync and async). Exhaustive within the bounds, so any off-by-one in Macro.__call__ is found deterministically (11/11 mutants killed).",
    note="Default Undefined; TypeError matched by class; a call block on a macro with kwargs but no caller is not judged (undocumented); source-level duplicate keywords belong to C01.",
    design_ref="DESIGN.md §4 C06",
)
CHECKS["C07"] = dict(
    category="exploration",
    technique="exhaustive enumeration of item sequences x attribute-query selections x iteration masks x 11 iterable forms, plus Hypothesis-generated filtered / else / break-continue / recursive loops, against a direct specification of the loop variable",
    text="Part 1 enumerates all sequences of length 0-4 (0-6 thorough) over 4 values x ordered selections of loop attributes x masks saying on which iterations they are queried, rendered for list/tuple/iterator/generator/sized non-sequence and (async) async-generator forms in sync and async environments; values of all 12 documented attributes and the visited items are computed from the materialised list. Part 2 draws loops with filters, else, break/continue and recursion (depth<=4) and compares with a small reference interpreter. 326k cases quick / 12.9M thorough; 19/19 mutants killed; found F31.",
    note="Iterables are single-use, do not raise, hold small ints; templates assumed stateless across renders (compiled templates are memoised per process).",
    design_ref="DESIGN.md §4 C07",
)
CHECKS["C27"] = dict(
    category="fault_enumeration",
    technique="fault enumeration (every crash point / byte offset of the cache write path, every truncation offset, foreign/stale entries, faulty memcached client) + exhaustive load/modify/clear histories, differential against a cache-less environment",
    text="tempfile/os/open as seen from jinja2.bccache are replaced in-process; every crash point of FileSystemBytecodeCache.dump_bytecode (before/after temp creation, after every byte count, after close, before/after rename; kill and OSError variants; with and without an older entry) leaves a directory snapshot that fresh environments load from; every truncation offset, zero-length, directory-in-place, stale, foreign-name, foreign-magic and trailing-bytes entry; all histories up to length 4 (5-6 thorough) over two environments sharing the directory for 4 equal and 10 differently configured pairs; MemcachedBytecodeCache over a fake client with per-call fault schedules. Oracle: text or exception class + template traceback frames equal a cache-less environment of the loader's configuration on the current source, and any file under an entry's final name is a complete entry. 50k cases quick, 670k thorough; 11/11 mutants killed.",
    note="Both sides run the same compiler; rename assumed atomic (Python-level fault model); F16 (cache key ignores compile-relevant options) is a listed known finding: loads served a differently configured writer's entry are judged only against either configuration's outcome; no corruption inside marshal data (documented unsafe).",
    design_ref="DESIGN.md §4 C27",
)
CHECKS["C28"] = dict(
    category="exploration",
    technique="exhaustive enumeration of path-fragment names + Hypothesis names/loader compositions, judged by a sys.addaudithook recorder and a manifest-based reference resolver",
    text="A sandbox tree with sentinel files next to, above and inside the package but outside the search roots; every name of up to 4 (5 thorough) segments over a 15-symbol alphabet of '..', '.', '', separators, absolute prefixes, drive letters, NUL, Unicode, joined by '/' and '\\', against 10 FileSystemLoader/PackageLoader variants: every open/listdir/scandir audit event in the call window must resolve inside a search root and the returned source / rendered text / filename must equal the reference resolver's answer (or TemplateNotFound). ChoiceLoader/PrefixLoader trees up to depth 3 are compared with a first-match, prefix-stripping resolver through get_source and load. 640k cases quick, 8.7M thorough; 12/12 non-equivalent mutants killed.",
    note="POSIX semantics only; no symlinks or zip packages; reads are visible as audit events; PrefixLoader prefixes contain no delimiter.",
    design_ref="DESIGN.md §4 C28",
)

CHECKS["C25"] = dict(
    category="exploration",
    technique="exhaustive history enumeration + Hypothesis RuleBasedStateMachine against an independent reference model of the template cache",
    text="All histories of get/select/put/delete/loader-swap operations ending in a fetch (2 names x 2 versions up to length 4, 3 names up to length 3-4; thorough +1-2 steps) x cache sizes {0,1,2,-1} x auto_reload on/off x DictLoader / FunctionLoader with and without up-to-date callback / FileSystemLoader with counter-forced mtimes, plus 100-step state-machine runs, against a reference LRU keyed by (loader, name) with per-loader staleness rules. Observed: rendered text or TemplateNotFound, number of compilations (Environment._generate override), cached key set, size bound. 420k histories quick, 9.9M thorough; 11/11 mutants killed.",
    note="The model is nondeterministic only after a failed reload of a deleted template (docs leave the cache state open); compilation counted via _generate; no bytecode cache; mtimes change on every rewrite.",
    design_ref="DESIGN.md §4 C25",
)
CHECKS["C26"] = dict(
    category="exploration",
    technique="exhaustive sequential histories + stateful Hypothesis machine against an OrderedDict model; controlled-schedule concurrency testing (settrace baton scheduler, Hypothesis-drawn pre-emption points) with a brute-force linearizability oracle",
    text="Sequential: every history of <=4 operations (21-operation alphabet incl. copy and pickle, 3 keys, capacities 1-3; thorough <=5 plus pruned 6/7) and 200-step state-machine runs agree with an OrderedDict LRU model step by step. Concurrent: 2-3 threads x 1-3 operations on a pre-populated cache run under a harness-owned scheduler that pre-empts at any line (opcode in thorough) inside LRUCache methods according to a Hypothesis-drawn, shrinkable schedule (<=3/5 pre-emptions), with _wlock replaced by a scheduler-aware lock; each execution must be linearizable w.r.t. the model respecting real-time order, exception-free and deadlock-free. 64k schedules quick, 1.3M thorough. Removing any 'with self._wlock' is found within a few hundred schedules; found F51 (unlocked __contains__).",
    note="Python line/opcode granularity under the GIL; C-level races and free-threading not covered; the lock is the instance attribute _wlock; capacity >= 1.",
    design_ref="DESIGN.md §4 C26",
)

NOT_YET = "check not built yet in this session (see DESIGN.md §8 for the order of work)"
